from contracts.alignment import CONTRACTS as _C
from contracts.repaired import ClearArrays
from contracts.values import FormatValuesLength, PaddingRoundTrip
from contracts.geometry import CURVE_RESETS
CONTRACTS = list(_C) + [FormatValuesLength, PaddingRoundTrip] + list(CURVE_RESETS) + [ClearArrays]

MANIFEST = {
    "category": "proof",
    "text": "Points.remove_vertices, CellObject.remove_cells and CellObject.remove_vertices (curves and surfaces) are verified for all geometries, cell lists and index arrays (repeated, unsorted, negative indices included): exactly the requested vertices/cells disappear, survivors keep coordinates and order, every vertex/cell data array is re-cut by the same selection (so each survivor keeps its value), cells are renumbered so that every surviving cell joins the same coordinates and references existing vertices, other data are untouched, and a refused request changes nothing. NumericData.format_length is verified (pad with no-data, refuse longer arrays). Exhaustive small-scope native runs on real curves/surfaces/point clouds (float, integer and text data) cross-check the same statements. NumericData.format_values (any rank: more entries than the geometry are refused) is included, every reduced geometry array is proved to go through its persisting setter, and masked copies of open and closed curves are checked natively (vertex data follow vertices, cell data follow cells, either creation order). Round-5 additions: the Curve.cells / Curve.parts setters reset each other's derived cache (contracts shared with C17), and a file-backed stand-in comparing the state right after a removal with the state after the cached arrays are released and after a re-open.",
    "note": "vertices/cells setters and child.values assignment are call summaries (their write-through is C03's); one child per kind stands for the children list (iterations are independent); numpy selection axioms incl. uniqueness of the increasing enumeration assumed (audited); masked copies (CellObject.copy/Data.copy) are not under contract here.",
}
