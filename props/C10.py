from contracts.workspace_io import IoCall, UpdateAttributeGuard, FetchActiveWorkspace, structural_scan
from contracts.repaired import ComponentsReadOnly
from contracts.getters import GettersDoNotWrite
from contracts.sessions import ReadOnlyHistories
from contracts.tree import OpenMode
from contracts.reader import LoadStoredRoot
from contracts.removal import ObjectRemoveChildren, ContainerRemoveChildren
CONTRACTS = [IoCall, UpdateAttributeGuard, FetchActiveWorkspace, OpenMode, LoadStoredRoot, ObjectRemoveChildren, ContainerRemoveChildren, ReadOnlyHistories] + [GettersDoNotWrite] + [ComponentsReadOnly]
EXTRA_CHECKS = [structural_scan]

MANIFEST = {
    "category": "proof",
    "text": "Workspace._io_call (the single write guard) is verified for every handle state and requested mode: a writing function never runs on a read-only handle (UserWarning, function not called), a closed workspace raises the closed-file error, otherwise the function runs exactly once on the handle. Workspace.update_attribute is verified to reach a writing _io_call on every path for plain, concatenated and channel updates, so a read-only workspace refuses every setter. fetch_active_workspace (generator semantics: the block completes or raises at the yield) is verified to re-open in exactly the requested mode, only when the current handle does not grant it, and to close what it opened. A structural obligation generated from the whole package's AST on every run: every H5Writer function used outside the writer is the first argument of _io_call(..., mode='r+'), and h5py.File is opened only in the audited modules. Workspace.open is verified to open the file with the requested mode or, when none is requested, the mode the workspace was constructed with, falling back to read-only only when the open fails. Read-only histories (sha256 of the file, handle mode, refusal of every writing call after each step; ui.json loader and monitoring-directory helpers on ordinary and root-less files) are the bounded part. Round-5 additions: ObjectBase.remove_children and EntityContainer.remove_children always forward the whole request to the workspace (which owns the write guard), and the read-only histories remove children through the parent, also repeatedly with handles kept from earlier attempts or sessions.",
    "note": "That h5py never writes through a mode-'r' handle is an assumption on the dependency; the structural scan is syntactic (aliases of H5Writer would escape it); path2workspace / monitored_directory_copy / InputFile helpers and Workspace.open's mode fallback are only covered by the bounded read-only histories (sha256 of the file, handle mode, refusal of writes after every call); deductive violations of the guard contracts carry no concrete input (violations are reported with the solver/abstract trace, no-failing-input-found).",
}
