from contracts.histories import ApiHistories, KfRemoveThroughParent
from contracts.concat import ConcatHistories
from contracts.removal import CONTRACTS as _R
from contracts.tree import SweepDeadEntries, TypeInStoredRecords
from contracts.repaired import ConcatNameSet, ConcatParentSet, PropertyGroupMembersSet
from contracts.h5graph import FetchHandle as _FH, RemoveEntityW as _REW, RemoveChild as _RC
CONTRACTS = list(_R) + [SweepDeadEntries, TypeInStoredRecords, ApiHistories, KfRemoveThroughParent, ConcatHistories] + [ConcatNameSet, ConcatParentSet, PropertyGroupMembersSet] + [_FH, _REW, _RC]

MANIFEST = {
    "category": "proof",
    "text": "Workspace.remove_entity is verified for every kind of entity (plain, concatenated, property groups): a request on an entity whose delete permission is off raises before anything else happens, any other request acts on the entity. Workspace.remove_children unlinks each child from the container of its own kind for every mix of kinds (up to 3 children). Workspace.remove_recursively and ObjectBase.remove_data_from_groups are verified with the live-list semantics of Python iteration (removing takes elements out of the list being walked) for up to 5 children / 4 property groups: every child is removed exactly once, every group is scrubbed exactly once. Whole histories (removal through the workspace, re-open, lookups, property groups, file validity) are a seeded bounded stand-in. Two open known findings (removal through the parent leaves the node in the file; removal of concatenated entities through the workspace leaves them in the parent's list). Concatenated removals are covered by ConcatRemoveChildren / ConcatRemoveHole (abstract) and by the concatenation histories (whole holes through both entry points, data through both entry points). Round-6 additions: Workspace.remove_none_referents under contract for every kind (property groups have no container to clear; a type still named by stored drillhole records stays in the file), Workspace.remove_children ignores property groups of other objects, registry listings and property-group drops in the histories.",
    "note": "lists are concrete up to the stated sizes (exhaustive within the bound), elements abstract; garbage collection of dropped references is a premise; concatenated removal paths (Concatenator.remove_entity) are covered by C04's histories.",
}
