from contracts.h5graph import CONTRACTS as _H
from contracts.tree import CONTRACTS as _T
from contracts.removal import RemoveRecursively, RemoveDataFromGroups
from contracts.weakrefs import RemoveNoneReferents
from contracts.workspace_io import CloseContract
from contracts.histories import ApiHistories
CONTRACTS = list(_H) + list(_T) + [RemoveRecursively, RemoveDataFromGroups, RemoveNoneReferents, CloseContract, ApiHistories]
