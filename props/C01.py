from contracts.h5graph import CONTRACTS as _H
from contracts.tree import CONTRACTS as _T
from contracts.removal import RemoveRecursively, RemoveDataFromGroups
from contracts.weakrefs import RemoveNoneReferents
from contracts.workspace_io import CloseContract
from contracts.histories import ApiHistories, ImageCornersNative
from contracts.reader import CONTRACTS as _R
from contracts.alignment import CONTRACTS as _A
from contracts.concat import ConcatHistories, DeleteIndexData, FetchStartIndex
from contracts.writer import StoredEditsNative
CONTRACTS = list(_H) + list(_T) + [c for c in _R if c.__name__ != 'SingleDeletionSweep'] + list(_A) + [RemoveRecursively, RemoveDataFromGroups, RemoveNoneReferents, CloseContract, ApiHistories, ConcatHistories, StoredEditsNative, DeleteIndexData, FetchStartIndex, ImageCornersNative]

from contracts.identity import EntityInitRefusal, MapAttributesStub
CONTRACTS = list(CONTRACTS) + [MapAttributesStub, EntityInitRefusal]

MANIFEST = {
    "category": "other",
    "text": "Partial deductive coverage of the round trip, by operation: every mutating step has a contract elsewhere that pins what reaches the file (C03 setters and writer dispatch, C09/C02 writer functions over the link graph, C05 removals, C04 concatenated tables), and this module adds the tree-level ones: Entity.parent.fset (joins new parent, leaves the old one only when it differs, re-saved), PropertyGroup.remove_properties/add_properties, Workspace.remove_recursively, remove_none_referents (exactly the dead keys leave, for every liveness pattern), Workspace.open (empty registries before the tree is loaded), Workspace.close (whole tree saved before the handle is released), Concatenator.add_save_concatenated. The read-back half (H5Reader.fetch_children / fetch_attributes) is verified in C19's module. The end-to-end statement 'the re-opened tree equals the live tree' over whole histories, class dispatch on load and garbage-collection placement is a seeded bounded stand-in (live snapshot vs re-opened snapshot). Since then the check also carries the reader contracts (fetch_children / fetch_attributes incl. value identity / fetch_array_attribute), the geometry-removal contracts of C07 (the reduced arrays go through the persisting setters), H5Writer.write_array_attribute, the _all_<kind> registry sweeps, and API histories with names containing blanks or equal to the project group's name, vertex removal, copy-then-edit and data moves. Later additions: H5Writer.save_entity itself (every non-property-group child is handed to save_entity whether or not the entity or the child is already stored, which is what the final save on close relies on for entities created with save_on_creation=False), a deferred-creation step in the API histories, and the drillhole-group histories of C04 (removals of depth/interval/object-association data followed by a re-open). Round-6 additions: stored-edit sessions (values re-assigned for every data class, part labels on stored curves, attached files renamed), write_entity with write_entity_type executed (type flag of newly written entities), rename / shared-type / comment operations in the drillhole histories. Round-7 additions: the parent setter for data as well as objects, the table contracts of the drillhole storage (delete_index_data, fetch_start_index) and histories that edit the third or later entry of a channel.",
    "note": "No single inductive invariant Sync(M,F) is discharged: the composition of the per-operation contracts into the history quantifier is an informal argument in DESIGN.md, hence level 'other'; constructors (map_attributes/setattr), create_entity dispatch and load_entity are outside the model.",
}
