from contracts.drillhole import CONTRACTS as _C
from contracts.concat import DeleteIndexData, FetchIndex, FetchValues, FetchStartIndex, UpdateArrayAttribute
# a hole of a drillhole group keeps its survey table as a slice of the group's 'Surveys' array: the positions follow *its* rows
CONTRACTS = list(_C) + [DeleteIndexData, FetchIndex, FetchValues, FetchStartIndex, UpdateArrayAttribute]

MANIFEST = {
    "category": "proof",
    "text": "compute_deviation is verified for any number of stations: each leg's direction is the mean of its two station directions when the leg has length, the station direction when it has none (trigonometry uninterpreted, real arithmetic); Drillhole.locations is verified to start at the collar and advance each leg by its depth difference along its direction (prefix-sum reasoning), and to cache its result; the collar and surveys setters are verified (abstract execution, every path) to reset the cached path. desurvey (station lookup, continuity, extrapolation) and the placement of depth/interval data by add_data are bounded stand-ins on real drillholes against a reference path written from the property text. Round-5 addition: the add_data sequences are also run with the file closed and re-opened before each call (nothing cached: lazy loaders are exercised). Round-6 additions: text depth logs (SortDepths contract: text logs follow the same permutation) and their stand-in sequences. Round-7 additions: refused collar / survey assignments (read-only or closed workspace) followed by position queries, the refused-write case of the setter contracts, depth-data sequences whose last call goes to a copy of the hole while the source is checked and then extended.",
    "note": "floats as reals; np.divide(where=) garbage treated as arbitrary finite reals; cos/sin/deg2rad/modulo uninterpreted; searchsorted-based lookup, tolerance matching (match_values/merge_arrays) and sort_depths are only in the bounded part.",
}
