from contracts.weakrefs import InsertOnce, GetCleanRef, RemoveNoneReferents
CONTRACTS = [InsertOnce, GetCleanRef, RemoveNoneReferents]
