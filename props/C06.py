from contracts.weakrefs import InsertOnce, GetCleanRef, RemoveNoneReferents
CONTRACTS = [InsertOnce, GetCleanRef, RemoveNoneReferents]

MANIFEST = {
    "category": "proof",
    "text": "Every obligation generated from the registry primitives (insert_once, get_clean_ref, remove_none_referents: whole-map postconditions, frames, exceptional posts, one loop invariant) is discharged by z3 for all registries, keys and liveness patterns; exhaustive small-scope native runs cross-check the same contracts on the real functions.",
    "note": "T-weak (a weak reference is alive or dead, fixed per call), T-py dict/list semantics and the pos/rank selection axioms are assumed and audited; Workspace.register / copy paths are not yet under contract (listed in evidence).",
}
