from contracts.weakrefs import InsertOnce, GetCleanRef, RemoveNoneReferents
from contracts.identity import IdentifierHistories, WorkspaceRegister, CopyIdentifiersByKind
from contracts.tree import SweepDeadEntries
from contracts.copying import CopyPropertyGroups, GetAttributesStub, ClearArraysStub, CopyToParent
from contracts.h5graph import FetchHandle as _FH, RemoveEntityW as _REW  # an identifier given up leaves no stored record behind
CONTRACTS = [SweepDeadEntries, InsertOnce, GetCleanRef, RemoveNoneReferents, WorkspaceRegister, CopyPropertyGroups, GetAttributesStub, ClearArraysStub, CopyToParent, IdentifierHistories, CopyIdentifiersByKind] + [_FH, _REW]

from contracts.identity import EntityInitRefusal, MapAttributesStub
CONTRACTS = list(CONTRACTS) + [MapAttributesStub, EntityInitRefusal]

from contracts.removal import ObjectRemoveDisplaySettings  # an object that keeps a removed child keeps its identifier alive
CONTRACTS = list(CONTRACTS) + [ObjectRemoveDisplaySettings]

MANIFEST = {
    "category": "proof",
    "text": "Registry primitives (insert_once, get_clean_ref, remove_none_referents: whole-map postconditions, frames, exceptional posts, one loop invariant) are discharged for all registries, keys and liveness patterns. Workspace.register is proved over five symbolic registries, using those primitives' contracts at the call sites: under the workspace invariant (an identifier is live in at most one entity registry) a request is accepted only when no other live entity of any kind holds the identifier, the entity then owns it in the registry of its own kind, the invariant holds again, live entries of every other key and registry are untouched, and a refusal leaves all five registries as they were. The history quantifier (create / copy / remove / re-create, one or two workspaces, refusals without side effects on the tree, copies keeping or renewing identifiers, one type per class) is a bounded native stand-in over the public API. Round-5 addition: a bounded stand-in over 12 kinds of objects (surveys with partners, drillholes, images, groups) for the identifier rule of copies: originals' identifiers kept in an empty other workspace, fresh ones when taken or inside the same workspace. Round-6 additions: Workspace.copy_to_parent under contract (identifier kept exactly when free in the target, decided by a lookup there), hex / URN spellings of identifiers, objects with empty names in the by-kind copies. Round-7 additions: H5Writer.remove_entity (an identifier given up leaves no stored record behind), data sets removed and re-created under the freed identifier, the holder of every identifier compared across a session boundary.",
    "note": "T-weak (a weak reference is alive or dead, fixed per call), T-py dict/list semantics and the pos/rank selection axioms are assumed and audited; registry typing (a registry only refers to entities of its own kind) is a precondition; Entity.__init__ (refusal before the parent link), copy_to_parent / copy_property_groups / EntityType.find_or_create are only covered by the bounded histories.",
}
