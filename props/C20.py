from contracts.surveys import CONTRACTS as _C
CONTRACTS = list(_C)

MANIFEST = {
    "category": "proof",
    "text": "The link layer of EM surveys is verified by abstract execution of every path: BaseEMSurvey.metadata.fset stores and persists the metadata on the entity and on every partner its public getters resolve (also when the partner is not cached yet); the receivers/transmitters link setters record the partner's identifier in the shared metadata, and the cached partner is already the new one when that metadata is propagated and afterwards. All class pairs (airborne/ground, TEM/FEM moving loop, tipper receivers/base stations, DC potential/current electrodes), both linking directions, edits through either side with and without a prior partner read, re-linking, re-opening and copying are a bounded stand-in on real workspaces. The metadata setter is also verified to turn every identifier given as text (plain or braced) into an identifier whatever plain-text entries surround it, and BaseEMSurvey.copy to forward the shared survey parameters but none of the original's partner identifiers to the copy and to copy-and-link the partner (receivers/transmitters and tipper receivers/base stations).",
    "note": "Values are opaque; large-loop tx_id_property renumbering, copy_complement and fetch_metadata's uid conversion are only in the bounded part; one defect (DC electrode caches) was repaired with a fix: commit.",
}
