from contracts.workspace_io import IoCall, Geoh5Getter, CloseContract, ExitContract, FetchActiveWorkspace
from contracts.workspace_io import CloseFlushes, FetchChildrenClosed
from contracts.removal import ConcatAttributesPending
from contracts.tree import OpenMode, OpenOnOpenWorkspace, OpenResetsRegistries
from contracts.sessions import CloseHistories, SaveAsNative
from contracts.reader import FetchAttributes, FetchTypeAttributesStub, FetchPropertyGroupsStub
CONTRACTS = [IoCall, Geoh5Getter, CloseContract, CloseFlushes, ExitContract, FetchActiveWorkspace, OpenOnOpenWorkspace, OpenResetsRegistries, OpenMode, FetchChildrenClosed, ConcatAttributesPending, FetchTypeAttributesStub, FetchPropertyGroupsStub, FetchAttributes, CloseHistories, SaveAsNative]

from contracts.identity import EntityInitRefusal, MapAttributesStub
CONTRACTS = list(CONTRACTS) + [MapAttributesStub, EntityInitRefusal]

MANIFEST = {
    "category": "proof",
    "text": "Workspace.close is verified on every path: an open writable workspace saves the whole root subtree exactly once and then releases the handle exactly once; a read-only one writes nothing; closing a closed or never-opened workspace does nothing. Workspace.__exit__ closes however the block ended and never swallows the exception; Workspace.geoh5 and _io_call raise the dedicated closed-file error on a closed handle and never call the I/O function; fetch_active_workspace closes the workspace it opened also when the block raises. Workspace.close is also verified to flush pending concatenated attribute records before the final save for workspaces stored in a path or in an in-memory buffer; Workspace.open on an already open workspace changes nothing (same handle, same registries) and otherwise resets all five registries and uses the requested/constructed mode. Close histories (explicit close, with-block, escaping exception; on disk and in memory) are the bounded part. Round-5 additions: the reader's fetch_attributes contract (loaded records are flagged as stored, which is what lets later edits write through) and close histories on files whose Root link -- and root group node -- were deleted (the session works on the rebuilt tree). Round-6 additions: save_as stand-in (disk and memory, deferred edits, second save_as in a row). Round-7 additions: a chain group -> group -> points whose first save is left to the close (three levels below the root), on disk, in memory and with an exception escaping the with-block. Round-9 addition: Entity.__init__ under contract (a refused creation, whatever the exception class, leaves no half-built child for the final save of an aborted with-block to write).",
    "note": "Partial by design: 'everything completed before the close is in the file' rests on the write-through obligations of C03/C01; exceptions raised inside the final save are not characterised; the h5py open-object count is outside the model (one handle is modelled); open()'s registry reset and save_as are not under contract; no native replay yet.",
}
