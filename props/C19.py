from contracts.reader import CONTRACTS as _C
CONTRACTS = list(_C)

MANIFEST = {
    "category": "proof",
    "text": "Reader functions over the symbolic link graph, without assuming the file well-formed below the entity: H5Reader.fetch_children lists an entry iff its container and the entry are stored, with the kind of its container, for every presence pattern of the members (a missing optional container never makes the listing fail or hides the others); fetch_attributes returns None iff the entity is not stored, reports exactly the stored attributes, reads type attributes / property groups iff the Type link / block exists; fetch_array_attribute returns None exactly when the entity or the dataset is missing; Workspace.fetch_or_create_root without a Root link loads every stored group (live-list walk). The whole-file single-deletion sweep is a bounded stand-in (that part of the quantifier is fault enumeration, another family). Round-5 additions: the reference file also holds a 2-D grid, block model, surface and octree with cell data and boolean data; every single deletion is run in both tiers (no sampling), including each type's colour / value map dataset.",
    "note": "Shape bound inside the proofs: the five member names the layout knows, at most one entry per child container, three attributes; h5py iteration order among symbolic names unspecified; class dispatch and constructors above the reader are only in the bounded sweep.",
}
