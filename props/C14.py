from contracts.uijson_roundtrip import CONTRACTS as _C
CONTRACTS = list(_C)

MANIFEST = {
    "category": "proof",
    "text": "The scalar write/read mapper pairs are verified as inverse pairs per value kind (None, bool, int, real, +inf, -inf, string, identifier), with the exception set stated as a precondition: str2inf(inf2str(v)) == v, str2none(none2str(v)) == v unless v is the empty string, str2uuid(as_str_if_uuid(u)) == u. The full write_ui_json -> read_ui_json pipeline over template forms, value corpus and validation options (values and enabled states) is a bounded stand-in on real files and workspaces. set_enabled and flatten are verified over concrete-shape ui.json dictionaries with symbolic member values (set_enabled: 1792 shapes x target parameter, every form either takes the new state - optional target, or member of the group whose switch is the target - or is left alone; flatten: None iff disabled, value or property by isValue, plain members pass through). Round-5 additions: numpy infinities (np.float64('inf'), np.log(0.)) are written as text like Python ones (inf2str postcondition) and survive the file round trip.",
    "note": "uuid parsing/printing are uninterpreted partial inverses (T-py, audited); json text, templates, promote/demote and update_ui_values are covered only by the bounded round trip; the shape bound of the set_enabled/flatten proofs is 2-3 forms; numbers whose decimal text is uuid-shaped and strings that look like another kind are outside the claim (stated exception set).",
}
