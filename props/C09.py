from contracts.h5graph import CONTRACTS as _H
from contracts.repaired import ComponentsReadOnly
from contracts.getters import GettersDoNotWrite
from contracts.tree import ALL_OF as _ALLOF, AddSaveConcatenated, OpenResetsRegistries, ParentSet, TypeInStoredRecords, SweepDeadEntries
from contracts.writer import FetchHandleStub, WriteAttributes
from contracts.workspace_io import CloseContract
from contracts.histories import ApiHistories
from contracts.concat import ConcatHistories as _CH, DeleteIndexData as _DID, FetchStartIndex as _FSI
from contracts.copy_wf import CopiesKeepFilesValid as _CKV
from contracts.copying import CopyNative as _CN
from contracts.surveys import EMMetadataSet as _EMS, TransmittersSet as _TS, ReceiversSet as _RS, IndependentSurveysFrame as _ISF
CONTRACTS = list(_H) + [AddSaveConcatenated, OpenResetsRegistries, ParentSet, FetchHandleStub, WriteAttributes, CloseContract, ApiHistories] + list(_ALLOF) + [_CH] + [_EMS, _TS, _RS, _ISF, _CKV, _CN] + [GettersDoNotWrite] + [ComponentsReadOnly] + [_DID, _FSI, SweepDeadEntries, TypeInStoredRecords]

from contracts.identity import EntityInitRefusal, MapAttributesStub
CONTRACTS = list(CONTRACTS) + [MapAttributesStub, EntityInitRefusal]

MANIFEST = {
    "category": "proof",
    "text": "Frame conditions over a symbolic HDF5 link graph (T-h5: links/attributes/datasets as z3 arrays, hard links = node equality, fresh nodes from a counter): H5Writer.fetch_handle changes nothing and returns exactly the entity's node; remove_child / remove_entity delete exactly the parent's entry and the flat entry and leave every other node, entry, attribute and dataset unchanged; write_to_parent links the child's own node under the parent's container of its kind and nothing else; write_entity is the identity on a stored entity (hence close() after no mutation changes nothing) and otherwise creates only fresh nodes plus one flat entry. Workspace.close writes only through the final save; Concatenator.add_save_concatenated keeps every other hole in the stored child list; Workspace.open starts from empty registries; Entity.parent.fset touches only the old and the new parent. Whole histories with per-node digests around an idle open/close are a seeded bounded stand-in. The concatenation histories (group copies, group-level data, idle sessions with per-node digests) and H5Writer.fetch_handle without any assumption on the entity's name are part of this check. Round-5 additions: H5Writer.save_entity (children saved whatever is already stored), the refusing-parent case of the parent setter, a frame stand-in across unrelated survey pairs (building / linking / editing / copying a second pair leaves every node of the first byte-identical) and the copies stand-in's source frame (a copy or clip leaves every stored node of its source, including the types it uses, unchanged). Round-6 additions: reading every public property of every entity changes no node of the file (writable workspace) -- the generic 'getters do not write' stand-in -- plus the components-getter contract; CopyNative's source-file digests. Round-7 additions: the table contracts of the drillhole storage and Workspace._type_in_stored_records (a type named by the stored records of any drillhole group stays) are part of this check, as is the sweep of dead registry entries. Round-9 addition: Entity.__init__ under contract (a refused creation, whatever the exception class, leaves no half-built child that a later close would write).",
    "note": "h5py behaviour is the assumed T-h5 contract (audited); preconditions: the skeleton of WF(a), ownership of containers (skeleton nodes are nobody's entry), injective identifier names; write_entity_type/write_properties are call summaries; array/value writers and clear_stats_cache are not under contract.",
}
