from contracts.h5graph import CONTRACTS as _H
from contracts.tree import AddSaveConcatenated, OpenResetsRegistries, ParentSet
from contracts.writer import FetchHandleStub, WriteAttributes
from contracts.workspace_io import CloseContract
from contracts.histories import ApiHistories
CONTRACTS = list(_H) + [AddSaveConcatenated, OpenResetsRegistries, ParentSet, FetchHandleStub, WriteAttributes, CloseContract, ApiHistories]
