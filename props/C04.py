from contracts.concat import CONTRACTS as _C
from contracts.removal import ConcatRemoveChildren, ConcatRemoveHole
CONTRACTS = list(_C) + [ConcatRemoveChildren, ConcatRemoveHole]

MANIFEST = {
    "category": "proof",
    "text": "The in-memory concatenation tables are verified as a data structure with representation invariant 'tiled' (rows consecutive, non-overlapping, within the array, array length = end of last row, ids pairwise distinct): Concatenator.delete_index_data, fetch_index, fetch_values, fetch_start_index and update_array_attribute are proved for all table sizes and contents to preserve it, to return/replace exactly the entity's slice, to leave every other row's ids, size, order and values unchanged (isolation), to leave other labels untouched, and to save exactly once at the end on every path (update, remove, no values). The sum-of-sizes = array-length fact is an induction lemma (base/step obligations). Whole-API histories (add / update / remove / re-open over several holes, both format versions, raw-file tiling and stale-entry checks) are a seeded bounded stand-in.",
    "note": "T-rec structured-array and numpy deletion/concatenation axioms assumed (audited); u4 columns do not overflow (precondition); attribute records (Attributes/Property: keys), renaming, the group-wide table view and the file-level writer/reader are only covered by the bounded API histories; removal through the workspace entry point is C05's finding.",
}
