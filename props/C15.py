from contracts.uijson import CONTRACTS as _U
CONTRACTS = list(_U)
