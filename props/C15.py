from contracts.uijson import CONTRACTS as _U
from contracts.validators import CONTRACTS as _V
from contracts.enforcers import CONTRACTS as _E
CONTRACTS = list(_U) + list(_V) + list(_E)

MANIFEST = {
    "category": "proof",
    "text": "requires_value and its helpers are proved equal to a decision table written from the ui.json documentation for arbitrary dictionaries (loops carry invariants); each scalar validator is proved to raise iff its constraint is violated; EnforcerPool.enforce and Parameter.value are proved stateless/atomic for any number of enforcers. Type/UUID validators and call-history statelessness are exhaustive small-scope native checks (labelled bounded).",
    "note": "Switch members are typed as the format says (precondition); at most one groupOptional carrier per group (precondition); pydantic forms and InputValidation.validate_data are outside the deductive part; T-py dict enumeration axiom assumed.",
}
