from contracts.uijson import CONTRACTS as _U
from contracts.validators import CONTRACTS as _V
from contracts.enforcers import CONTRACTS as _E
from contracts.frames import ValidateDataFrame, ValidateFrame, InputFileVerdictHistories
CONTRACTS = list(_U) + list(_V) + list(_E) + [ValidateDataFrame, ValidateFrame, InputFileVerdictHistories]

MANIFEST = {
    "category": "proof",
    "text": "requires_value and its helpers are proved equal to a decision table written from the ui.json documentation for arbitrary dictionaries (loops carry invariants); each scalar validator is proved to raise iff its constraint is violated; EnforcerPool.enforce and Parameter.value are proved stateless/atomic for any number of enforcers; InputValidation.validate/validate_data are proved (abstract execution of the real code, every path) never to mutate the validator's rule tables or the data they are given. Type/UUID validators and call-history statelessness are exhaustive small-scope native checks (labelled bounded). RequiredObjectDataEnforcer.rule is verified to accept exactly when every data is a child of its own object, Parameter.value to roll back on validation errors and on plain TypeError/AttributeError refusals alike, and the InputFile.ui_json setter to drop the validators built for the previous form. Round-5 additions: a refused assignment to any standard member of a form parameter (directly or through register) leaves form(), the active-member list, membership tests and derived rules unchanged (all FormParameter classes); verdict histories at InputFile level (set_data_value / dictionary assignments / reads, then each candidate judged as by a fresh InputFile holding the same values). Round-6 additions: AssociationValidator stand-in (entities, identifiers and property groups against object / group / workspace parents).",
    "note": "Switch members are typed as the format says (precondition); at most one groupOptional carrier per group (precondition); pydantic forms are outside the deductive part; abstract mode unrolls loops over opaque collections 0..2 times (stated in evidence); T-py dict enumeration axiom assumed.",
}
