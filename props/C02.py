from contracts.h5graph import CONTRACTS as _H
from contracts.repaired import PropertyGroupInitStub, CreatePropertyGroupMembers
from contracts.tree import ALL_OF as _ALLOF, ParentSet, PropertyGroupAdd, PropertyGroupRemove
from contracts.removal import RemoveRecursively, RemoveDataFromGroups, WorkspaceRemoveChildren
from contracts.histories import ApiHistories, KfRemoveThroughParent
from contracts.removal import ObjectRemoveChildren as _ORC
from contracts.copy_wf import CopiesKeepFilesValid
from contracts.copying import CopyPropertyGroupsSkippedMember
CONTRACTS = list(_H) + [ParentSet, PropertyGroupAdd, PropertyGroupRemove, RemoveRecursively, RemoveDataFromGroups, WorkspaceRemoveChildren, ApiHistories, KfRemoveThroughParent] + list(_ALLOF) + [_ORC, CopiesKeepFilesValid, CopyPropertyGroupsSkippedMember] + [PropertyGroupInitStub, CreatePropertyGroupMembers]

MANIFEST = {
    "category": "proof",
    "text": "Structural validity clause by clause over the symbolic link graph: init_geoh5 creates the skeleton (project group, Data/Groups/Objects, Types with its three containers, all distinct nodes); write_entity stores a new entity under its own identifier with its own fresh child containers, a Type entry that is the shared type node itself, and sets Root to the root group's node; write_to_parent makes the parent's entry the child's own flat node (a hard link, never a copy) in the container of the child's kind; remove_child / remove_entity leave no dangling entry behind in the parent they are given; Workspace.remove_children unlinks each child from the container of its own kind; remove_recursively / remove_data_from_groups / PropertyGroup.remove_properties / add_properties keep property groups listing only children of their own object. WF(file) after every close of seeded histories is a bounded stand-in; one open known finding (KF-C05-1: removal through the parent leaves an orphan node). ObjectBase.remove_children is verified to drop a held child from the child list and from the object's property groups even when the child's parent field already points elsewhere; the five _all_<kind> listings sweep their own container. Round-5 additions: the parent setter's refusing-parent case (a move the new parent refuses leaves the entity under its old parent: nothing detached, nothing saved), and a bounded stand-in over 12 kinds of objects x copy / clip (three boxes, plain and inverse) x three targets checking that both files stay valid (temporary entities of class-specific copy methods are removed from the workspace they live in).",
    "note": "Same T-h5 assumptions as C09; 'exactly one parent and reachable from Root' and 'no identifier occurs twice across containers' are only checked by the bounded file checker (the registries are per kind: see C06); write_entity_type's sharing is a call summary.",
}
