from contracts.h5graph import CONTRACTS as _H
from contracts.tree import ParentSet, PropertyGroupAdd, PropertyGroupRemove
from contracts.removal import RemoveRecursively, RemoveDataFromGroups, WorkspaceRemoveChildren
from contracts.histories import ApiHistories, KfRemoveThroughParent
CONTRACTS = list(_H) + [ParentSet, PropertyGroupAdd, PropertyGroupRemove, RemoveRecursively, RemoveDataFromGroups, WorkspaceRemoveChildren, ApiHistories, KfRemoveThroughParent]
