from contracts.sweep import CONTRACTS as _C, INFO_CONTRACTS as _I
from contracts.writer import FetchHandleStub, StoredEditsNative, WriteAttributes
from contracts.removal import ConcatAttributesPending, ConcatUpdateDispatch
from contracts.h5graph import FetchHandle as _FH, WriteArrayAttribute
CONTRACTS = list(_C) + list(_I) + [FetchHandleStub, WriteAttributes, _FH, WriteArrayAttribute, ConcatAttributesPending, ConcatUpdateDispatch, StoredEditsNative]

MANIFEST = {
    "category": "proof",
    "text": "Mechanical sweep: every assignable attribute of every object/group/data/type class is discovered reflectively (132 setter bodies, ~1700 (class, attribute) pairs); each setter body is executed abstractly on every path and must, on every normal return, store its backing field and afterwards call update_attribute with a group that the writer's real dispatch (read from H5Writer.update_field's AST on each run) maps to that field for every concrete class inheriting the setter (coverage by the class's own _attribute_map). H5Writer.write_attributes is verified per value type never to store a value with a fixed narrower type than its own. H5Writer.write_array_attribute is verified over the symbolic file (T-h5) to leave exactly one new dataset holding the entity's current public value, including a value the public getter only derives on demand, and to change nothing else. Coupled fields (dip -> vertical) stored by a setter must be persisted after they are stored too. Attribute families outside the property's list are swept too but reported as informational.",
    "note": "Values are opaque (encodings are C08's); entity stored in an open workspace is a precondition; Workspace.update_attribute -> update_field routing and write_data_values are trusted here (C09/C08); assigning None is not treated as a new value; EM-survey and electrode linking setters belong to C20; one open known finding (KF-C03-1, project header setters).",
}
