from contracts.merging import CONTRACTS as _C
CONTRACTS = list(_C)

MANIFEST = {
    "category": "proof",
    "text": "PointsMerger/CellMerger.create_object are verified for any number of inputs with loop invariants over the running vertex offset (merged vertices are the inputs' vertices in order; every merged cell is the input cell shifted by the number of vertices before it, for curves and surfaces, without assuming that cells are ordered or that every vertex is used); BaseMerger.merge_data is verified for any number of inputs: the vertex/cell counters equal the running totals on every path (inputs without data included), every input array is written at its running offset, new output arrays start as no-data with one entry per vertex/cell, inputs are never written. One obligation is restricted to a recorded failing input class (known finding KF-C16-1) and is reported, not counted. About half of the native merge cases run on a file that is re-opened and compared again (the merged values must be what the file holds). Round-5 addition: one input holding the same data name and type twice (first set with no-data gaps, float and integer): both sets are found in the merged block.",
    "note": "create() is trusted to store what it is given; merge_data's label table is abstracted to at most one earlier label and at most two children per input (stated bound inside an otherwise unbounded proof); DrapeModelMerger is not under contract; vstack/prefix-sum axioms assumed (audited).",
}
