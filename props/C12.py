from contracts.copying import CONTRACTS as _C
from contracts.repaired import ClearArrays
from contracts.surveys import CellCopyStub, EMCopy
from contracts.copy_wf import CopiesKeepFilesValid
from contracts.alignment import MaskedCopyNative
CONTRACTS = list(_C) + [CellCopyStub, EMCopy, CopiesKeepFilesValid, MaskedCopyNative] + [ClearArrays]

MANIFEST = {
    "category": "proof",
    "text": "Workspace.copy_property_groups is verified for any member list: the copied group lists the copies of the source members in the source order, keeps name/type/association, and keeps its identifier exactly when a live lookup finds it free in the target. ObjectBase.copy is verified (abstract execution of every path) to copy under the requested parent, copy children under the new object, copy property groups onto the new object and to write only the copy, only through the copy's workspace. Attribute-by-attribute equality, alias freedom (later edits of the copy do not show in the source), and unchanged source snapshot / per-node source-file digest for Points, Curve and Grid2D copied to the same parent, another group and another workspace are a bounded stand-in. BaseEMSurvey.copy is verified to forward every shared survey parameter (0.0 and False included) and none of the original partner identifiers; Data.copy with a mask never modifies or shares the source's array; drillhole-group copies (same workspace, other workspace, creating session; slash-named data; interval tables) are compared hole by hole natively. Round-5 additions: in-place edits of the copy's arrays must not show in the source; the same copies after surveys / drillholes were copied in the process (omit lists do not leak); the 12-kind copies stand-in (source nodes unchanged, both files valid); masked copies with cell/object data created before vertex data.",
    "note": "Constructor keyword routing (vars/setattr) is outside the model, hence the bounded part; GridObject.copy, CellObject.copy, Group.copy recursion, Data.copy masks and Concatenator.copy are not under contract.",
}
