from contracts.values import CONTRACTS as _C
from contracts.repaired import FileNameSet
from contracts.alignment import FormatLength
from contracts.writer import StoredEditsNative
CONTRACTS = list(_C) + [StoredEditsNative] + [FormatLength] + [FileNameSet]

MANIFEST = {
    "category": "proof",
    "text": "Per-element coercion contracts: IntegerData.format_type accepts exactly the integral values that fit the stored 32-bit type and stores them unchanged (integer and float inputs, modelled with the cast's wrap-around semantics, so a wrap is a failed obligation); BooleanData.format_type accepts exactly 0/1 and maps 1 to True; NumericData.format_values/format_length give one entry per vertex/cell, pad with the no-data value and refuse more entries than the geometry for 1-D and 2-D inputs. The storage round trip through a real file (NaN <-> float no-data code, infinities, sub-normals, 32-bit boundaries, booleans as 0/1, reference keys and labels with key 0 = Unknown, Unicode text) is a bounded stand-in inspecting the raw dataset. Round-6 additions: assigning values never alters the caller's array (also `b.values = a.values`), blobs from 1 B to 3 MiB, file-name setter contract. Round-7 additions: entries added to stored metadata in the same and in a later session, refused creations (too many vertex / cell values, vertices of the wrong shape) leave nothing among the parent's children nor in the file, removals in a later session keep NaN entries. Round-8 additions: the float no-data code in the stored arrays of concatenated logs (1-5 samples, also one-sample logs), and a data set's array is its own: later edits of the caller's array, or of the array the data set hands out, stay where they are made.",
    "note": "floats are reals in the coercion proofs (NaN/inf excluded there; covered by the bounded round trip); numpy cast/modf axioms assumed (audited); writer/reader value branches, FilenameData blobs, concatenated float32 narrowing and value-map writing are only in the bounded part.",
}
