from contracts.extent import CONTRACTS as _C
CONTRACTS = list(_C)

MANIFEST = {
    "category": "proof",
    "text": "utils.mask_by_extent and box_intersect are proved equal to the closed-box predicate for all point counts and all 2-D/3-D dimension pairings; Points.mask_by_extent and CellObject.mask_by_extent (curves and surfaces, any cell list incl. unused vertices) are proved against the property's wording (cells whose vertices all qualify + the vertices those cells use; None only when the bounding box is missed or nothing qualifies) using the callee contracts; EntityContainer/Group.copy_from_extent are proved (abstract execution of every path) to forward extent, inverse flag, mask and target parent unchanged. Exhaustive small-scope native runs cross-check each contract.",
    "note": "Coordinates are finite reals (no NaN/inf; float comparison exact); vertices/cells getters trusted to return the stored arrays; numpy selection/extremum axioms assumed (audited); Grid2D.copy_from_extent sub-grid arithmetic, GridObject/Drillhole/Data.mask_by_extent and the copy(mask=...) re-indexing (C07) are not under contract here.",
}
