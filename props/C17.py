from contracts.geometry import CONTRACTS as _C
from contracts.writer import StoredEditsNative
from contracts.h5graph import WriteArrayAttribute
# part labels are stored as segments: the writer derives them when the labels are assigned (also on a stored curve)
CONTRACTS = list(_C) + [WriteArrayAttribute, StoredEditsNative]

MANIFEST = {
    "category": "proof",
    "text": "BlockModel/Grid2D/Octree.centroids are verified against the format's formulas for all grid shapes, cell sizes (negative delimiters included), rotations, dips and origins: cell (i,j,k) sits at index k+i*nZ+j*nU*nZ (resp. i+j*nU), each coordinate equals origin + rotation(dip(midpoints)), and the number of centres equals the number of cells; every geometry setter of BlockModel/Grid2D/Octree/DrapeModel and Curve.cells/parts is verified (abstract execution of every path) to reset the caches derived from it. Curve cells<->parts derivation and the default octree tiling are exhaustive small-scope native checks (labelled bounded stand-ins). Round-5 additions: centres computed after another grid of the same orientation was exported, copied, clipped or had its centres array edited in place (no shared mutable helper results), and a stand-in where the caller keeps editing the arrays it passed to create() or to a setter (block model, octree, drape model, curve): the centres always belong to the geometry the object reports. Round-6 additions: write_array_attribute contract and stored part labels in this check; Grid2D setter histories. Round-7 additions: every cache-reset setter contract has a case in which the file refuses the write: a field stored before the refusal has taken its derived cache down with it.",
    "note": "cos/sin/deg2rad uninterpreted, floats as reals (rounding not modelled); numpy meshgrid/ravel ordering, cumsum, matmul axioms assumed (audited); getters of stored scalars trusted (C03 sweep); DrapeModel.centroids itself not under contract.",
}
