"""Regenerate MANIFEST.json from props/*.py (each claimed property module defines MANIFEST = {...})."""
import importlib, json, os, sys
V = os.path.dirname(os.path.dirname(os.path.abspath(__file__)))
sys.path[:0] = [os.path.join(V, ".deps"), V, "/repo"]
props = [json.loads(l) for l in open(os.path.join(V, "properties.jsonl"))]
checks, na, served = [], [], []
NA = json.load(open(os.path.join(V, "tools", "not_applicable.json")))
for p in props:
    pid = p["id"]
    path = os.path.join(V, "props", f"{pid}.py")
    m = None
    if os.path.exists(path):
        mod = importlib.import_module(f"props.{pid}")
        m = getattr(mod, "MANIFEST", None)
    if m is None:
        na.append({"property_id": pid, "reason": NA.get(pid, "check not built yet (see DESIGN.md section 9.2 build order)")})
        continue
    served.append(pid)
    checks.append({
        "property_id": pid,
        "quick_cmd": f"./bin/check {pid} --tier quick",
        "thorough_cmd": f"./bin/check {pid} --tier thorough",
        "evidence_file": f"/verif/evidence/{pid}.json",
        "replay_cmd_template": f"./bin/check {pid} --replay {{path}}",
        "engine": "pyvc",
        "level_claimed": {"category": m.get("category", "proof"), "text": m["text"], "design_ref": m.get("design_ref", f"DESIGN.md section 10.2 (as built) and section 7 {pid} (plan)")},
        "level_note": m["note"],
        "technique": m.get("technique", "contract-based deductive verification: VCs generated from the real AST by pyvc, discharged by z3/cvc5"),
    })
man = {
    "version": 1,
    "setup_cmd": "./bin/setup",
    "hooks": {"guard": "GEOH5PY_VERIF", "enable": "none needed: contracts are sidecars under /verif/contracts; /repo is read as-is (no hook commits)", "baseline_off_cmd": "cd /repo && /venv/bin/python -m pytest -ra -q -p no:cacheprovider --timeout=900 --continue-on-collection-errors", "source_commits": [], "add_only": True},
    "engines": [{"name": "pyvc", "path": "pyvc/", "serves_properties": served, "kind_free_text": "verification-condition generator: path-splitting symbolic executor over the real AST of /repo functions (re-parsed every run) + sidecar contracts (pre/post/frame/loop invariants); obligations discharged by z3 5.1 (cvc5 for unknowns); counterexamples replayed natively; bounded native stand-ins labelled"}],
    "checks": checks,
    "notes": "see DESIGN.md; known_findings.json lists open findings and fix: commits",
    "not_applicable": na,
}
json.dump(man, open(os.path.join(V, "MANIFEST.json"), "w"), indent=1)
print("claimed:", served, "| not claimed:", [x["property_id"] for x in na])
