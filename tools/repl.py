"""byte-preserving replace: repl.py FILE  (reads OLD/NEW python literals from stdin as two repr lines separated by a line '=====')"""
import sys
path = sys.argv[1]
data = open(path, 'rb').read()
crlf = b'\r\n' in data
old, new = sys.stdin.read().split('\n=====\n')
old = old.rstrip('\n'); new = new.rstrip('\n')
if crlf:
    old = old.replace('\n', '\r\n'); new = new.replace('\n', '\r\n')
old_b, new_b = old.encode(), new.encode()
assert data.count(old_b) == 1, f"pattern occurs {data.count(old_b)} times"
open(path, 'wb').write(data.replace(old_b, new_b))
print("replaced in", path, "(CRLF)" if crlf else "(LF)")
