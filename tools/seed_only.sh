#!/bin/sh
# seed_only.sh <seed-id> <PID> <only-filter> : run one contract of a property's check on a scratch copy with the seed applied (debugging aid)
cd /verif
id=$1; pid=$2; only=$3
S=$(mktemp -d /tmp/pyvc-seed-XXXX)
cp -r /repo/geoh5py $S/geoh5py
patch -s -p1 -d $S < seeded/$id/patch.diff >/dev/null 2>&1 || { echo "patch does not apply"; rm -rf $S; exit 0; }
PYVC_REPO=$S ./bin/check $pid --only "$only" 2>&1 | grep -v "^UNDECIDED.*not in lock" | tail -${4:-6} | cut -c1-400
rm -rf $S
