"""seed_table.py: regenerate seeded/TABLE.md from seeded/*/meta.json (written by tools/seed_one.sh)."""
import glob
import json
import os

rows = []
for d in sorted(glob.glob("/verif/seeded/*/")):
    sid = os.path.basename(d.rstrip("/"))
    try:
        m = json.load(open(d + "meta.json"))
    except Exception:
        m = {}
    title = ""
    if os.path.exists(d + "notes.md"):
        title = open(d + "notes.md").readline().lstrip("# ").strip()
    title = title or m.get("summary", "")
    if m.get("status", "").startswith("neutralised"):
        res, by = "neutralised by a later fix", m["status"].split("--")[0].replace("neutralised by ", "").strip()
    elif m.get("check_rc") == 1:
        res, by = ("VIOLATION, failing input replayed" if m.get("concrete_input") else "VIOLATION, no-failing-input-found"), m.get("detected_by") or ""
    elif m.get("check_rc") is None:
        res, by = "not run", ""
    else:
        res, by = f"missed (rc={m.get('check_rc')})", ""
    rows.append((sid, title.replace("|", "/")[:110], res, by.replace("|", "/")[:120]))
with open("/verif/seeded/TABLE.md", "w") as fh:
    fh.write("# Seeded changes and the obligation that reports each\n\n| seed | change | outcome of the property's quick check | first reported obligation |\n|---|---|---|---|\n")
    for r in rows:
        fh.write("| " + " | ".join(r) + " |\n")
    det = sum(1 for r in rows if r[2].startswith("VIOLATION"))
    fh.write(f"\n{len(rows)} seeds: {det} reported as violations, {sum(1 for r in rows if r[2].startswith('neutralised'))} neutralised by later fixes, {sum(1 for r in rows if r[2].startswith('missed'))} missed, {sum(1 for r in rows if r[2] == 'not run')} not run.\n")
print(open("/verif/seeded/TABLE.md").read()[-300:])
