"""prof_contract.py <module> <Class> [case-index] [seconds]: run one contract case serially with a
stack dump after N seconds (diagnostic tool)."""
import faulthandler
import importlib
import sys
import time

sys.path[:0] = ["/verif/.deps", "/verif", "/repo"]
from pyvc import harness, reflect  # noqa: E402

reflect.ensure_repo_on_path()
from pyvc import models_np, models_py  # noqa: E402,F401
from pyvc.contracts import Registry  # noqa: E402

mod = importlib.import_module(sys.argv[1])
cls = getattr(mod, sys.argv[2])
idx = int(sys.argv[3]) if len(sys.argv) > 3 else 0
secs = int(sys.argv[4]) if len(sys.argv) > 4 else 60
faulthandler.dump_traceback_later(secs, exit=True)
cs = [c() for c in mod.CONTRACTS]
reg = Registry(cs)
c = [x for x in cs if type(x) is cls][0]
case = list(c.cases())[idx]
t = time.time()
r = harness.run_contract_case(c, case, reg, "quick", 0)
print("time", round(time.time() - t, 2), "paths", r["paths"], r.get("ended"), "unsupported", r["unsupported"])
for o in r["obligations"]:
    if o["verdict"] != "unsat" or o["s"] > 1:
        print(o["name"], o["verdict"], o["backend"], o["s"], "closed" if o["closed"] else "cut", o.get("note", "")[:100])
        if o.get("model") and len(sys.argv) > 5:
            print("   MODEL:", o["model"][:1500].replace("\n", " "))
print("obligations", len(r["obligations"]), "solver_s", round(sum(o["s"] for o in r["obligations"]), 2))
