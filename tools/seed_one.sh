#!/bin/sh
# seed_one.sh <seed-id>: apply one kept seed to a scratch copy of /repo's tree, run that property's quick check on it,
# record the outcome in seeded/<id>/meta.json (detected_by / rc) and print one line
cd /verif
id=$1; pid=${id%-*}; d=seeded/$id
S=$(mktemp -d /tmp/pyvc-seed-XXXX)
cp -r /repo/geoh5py $S/geoh5py
if ! patch -s -p1 -d $S < $d/patch.diff >/dev/null 2>&1; then echo "$id: patch does not apply"; rm -rf $S; exit 0; fi
PYVC_REPO=$S ./bin/check $pid > /tmp/pyvc-seed-$id.log 2>&1; rc=$?
rm -rf $S
first=$(grep -m1 '^VIOLATION' /tmp/pyvc-seed-$id.log)
ob=$(grep -m1 '^  obligation:' /tmp/pyvc-seed-$id.log | sed 's/^  obligation: //')
python3 - "$d/meta.json" "$rc" "$ob" "$first" <<'PY'
import json, sys
p, rc, ob, first = sys.argv[1:5]
try:
    m = json.load(open(p))
except Exception:
    m = {}
m["check_rc"] = int(rc)
m["detected_by"] = ob or None
m["concrete_input"] = bool(first) and not first.rstrip().endswith("no-failing-input-found")
json.dump(m, open(p, "w"), indent=1)
PY
echo "$id: rc=$rc $(echo "$ob" | cut -c1-150)"
