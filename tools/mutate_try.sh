#!/bin/sh
# mutate_try.sh <PID> <only-filter> <file under geoh5py/> <old text> <new text> : run one contract on a scratch copy of /repo/geoh5py in which <old> is replaced by <new> (first occurrence; CRLF-safe). Debugging aid: confirms that a new contract fails on a deliberately broken body.
cd /verif
pid=$1; only=$2; f=$3; old=$4; new=$5
S=$(mktemp -d /tmp/pyvc-mut-XXXX)
cp -r /repo/geoh5py $S/geoh5py
/venv/bin/python - "$S/geoh5py/$f" "$old" "$new" <<'PY' || { rm -rf $S; exit 3; }
import sys
p, old, new = sys.argv[1:4]
b = open(p, "rb").read()
crlf = b"\r\n" in b
s = b.decode().replace("\r\n", "\n")
old = old.replace("\\n", "\n"); new = new.replace("\\n", "\n")
if old not in s:
    print("mutate_try: text not found"); sys.exit(1)
s = s.replace(old, new, 1)
if crlf:
    s = s.replace("\n", "\r\n")
open(p, "wb").write(s.encode())
PY
PYVC_REPO=$S ./bin/check $pid --only "$only" 2>&1 | grep -v "^UNDECIDED.*not in lock" | tail -${6:-6} | cut -c1-500
rm -rf $S
