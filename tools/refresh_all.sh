#!/bin/sh
# refresh_all.sh: run every claimed check (quick tier) against /repo, validate evidence against the schema
cd /verif
# five checks at a time (each one already spreads over the 16 cores)
python3-vt -c "import json;print('\n'.join(c['property_id'] for c in json.load(open('MANIFEST.json'))['checks']))" | xargs -P 5 -I{} sh -c 'start=$(date +%s); timeout 1800 ./bin/check {} --tier quick > /tmp/refresh-{}.log 2>&1; rc=$?; end=$(date +%s); echo "{} rc=$rc $((end-start))s $(tail -1 /tmp/refresh-{}.log | cut -c1-140)"'
python3-vt - <<'PY'
import json, jsonschema, glob
sch=json.load(open('/root/.vp/EVIDENCE.schema.json'))
man=json.load(open('/verif/MANIFEST.json'))
jsonschema.validate(man,json.load(open('/root/.vp/MANIFEST.schema.json')))
for c in man['checks']:
    e=json.load(open(c['evidence_file']))
    jsonschema.validate(e,sch)
    cov=e['coverage']
    flag="" if cov['obligations']==cov['discharged'] else "  <-- discharged != obligations"
    print(c['property_id'], e['level'], cov['obligations'], cov['discharged'], e['wall_s'], flag)
print("schemas ok")
PY
