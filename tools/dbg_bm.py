import sys
sys.path[:0] = ["/verif/.deps", "/verif", "/repo"]
import z3
from pyvc import harness, reflect
reflect.ensure_repo_on_path()
from pyvc import models_np, models_py
from pyvc.contracts import Registry, Ctx
from pyvc.core import Explorer
from pyvc.interp import Interp
from contracts import geometry

c = geometry.BlockModelCentroids()
reg = Registry([c])
reg.attr_overrides = {(None, k): v for k, v in c.attr_overrides.items()}
ex = Explorer()


def body(path):
    I = Interp(path, reg)
    ctx = Ctx(path, I, c, "default")
    I.ctx = ctx
    args, kw = c.setup(ctx)
    res = I.call_function(c.func, args, kw, entry=True)
    e = ctx.env
    nU, nV, nZ = e["dims"]["u"].e, e["dims"]["v"].e, e["dims"]["z"].e
    F, A, B, C = models_np.unravel_fns(I, (nV, nU, nZ))
    i, j, k = z3.Ints("i j k")
    t = F(j, i, k)
    print("elem z:", z3.simplify(res.elem(t, 2)))
    size = I.getattr(e["obj"], "z_cells")
    S = models_np.prefix_sum_fn(I, size)
    print("spec z:", z3.simplify(e["o"][2] + S(k + 1) - size.elem(k) / 2))
    rng = z3.And(i >= 0, i < nU, j >= 0, j < nV, k >= 0, k < nZ)
    gone = set()
    for tg in ("index-polynomial",):
        gone |= path.tagged.get(tg, set())
    pc = [f for f in path.pc if f.get_id() not in gone]
    print("pc size", len(path.pc), "->", len(pc))
    s_ = z3.Solver(); s_.set("timeout", 10000)
    s_.add(*pc); s_.add(rng); s_.add(C(F(j, i, k)) != k)
    print("inverse axiom usable:", s_.check())
    s2 = z3.Solver(); s2.set("timeout", 10000)
    s2.add(*pc); s2.add(rng); s2.add(res.elem(t, 2) != e["o"][2] + S(k + 1) - size.elem(k) / 2)
    r = s2.check(); print("z goal:", r)
    if r == z3.sat:
        m = s2.model()
        for term in (nU, nV, nZ, i, j, k, C(F(j,i,k)), F(j,i,k)):
            print("  ", term, "=", m.eval(term))
    return "return"
    print("ghost prefix keys:")
    for key in path.ghost.get("prefix", {}):
        print("  ", key)
    return "return"


ex.work = [[]]
ex.run(body)
