#!/bin/sh
# run_seeds.sh [PID...] : apply each kept seed to a scratch copy of /repo's tree and run that property's quick check on it
cd /verif
for d in seeded/*/; do
  id=$(basename $d); pid=${id%-*}
  if [ $# -gt 0 ]; then case " $* " in *" $pid "*|*" $id "*) ;; *) continue;; esac; fi
  [ -f props/$pid.py ] || { echo "$id: no check for $pid yet"; continue; }
  S=$(mktemp -d /tmp/pyvc-seed-XXXX)
  cp -r /repo/geoh5py $S/geoh5py
  if ! patch -s -p1 -d $S < $d/patch.diff >/dev/null 2>&1; then echo "$id: patch does not apply"; rm -rf $S; continue; fi
  PYVC_REPO=$S ./bin/check $pid > /tmp/pyvc-seed-$id.log 2>&1; rc=$?
  rm -rf $S
  echo "$id: rc=$rc $(grep -m1 '^VIOLATION' /tmp/pyvc-seed-$id.log | cut -c1-160)"
done
