#!/bin/sh
# validate_seed.sh <PID> <A|B> : confirm a sub-agent's change in a scratch worktree of /repo HEAD, then store it under /verif/seeded
PID=$1; X=$2
SRC=/tmp/wt/$PID/OUT/$X
[ -f "$SRC/patch.diff" ] || { echo "$PID-$X: no patch"; exit 2; }
W=/tmp/wt/val-$PID-$X
git -C /repo worktree remove --force $W >/dev/null 2>&1
git -C /repo worktree add --detach $W HEAD >/dev/null 2>&1 || { echo "$PID-$X: worktree failed"; exit 2; }
cd $W
cp $SRC/demo.py ./demo_seed.py
/venv/bin/python demo_seed.py >/tmp/wt/val-$PID-$X.clean.log 2>&1; CLEAN=$?
if git apply $SRC/patch.diff 2>/tmp/wt/val-$PID-$X.apply.log; then APPLY=ok; else APPLY=fail; fi
/venv/bin/python demo_seed.py >/tmp/wt/val-$PID-$X.mut.log 2>&1; MUT=$?
TESTS=$(/venv/bin/python -m pytest -q -p no:cacheprovider --timeout=900 -x 2>&1 | tail -1)
cd /
git -C /repo worktree remove --force $W
echo "$PID-$X apply=$APPLY demo_clean=$CLEAN demo_mutated=$MUT tests='$TESTS'"
case "$TESTS" in *"377 passed"*) T=ok;; *) T=bad;; esac
if [ "$APPLY" = ok ] && [ "$CLEAN" = 0 ] && [ "$MUT" = 1 ] && [ "$T" = ok ]; then
  D=/verif/seeded/$PID-$X; mkdir -p $D
  cp $SRC/patch.diff $SRC/demo.py $D/; cp $SRC/notes.md $D/notes.md 2>/dev/null
  BASE=$(git -C /repo rev-parse --short HEAD)
  /venv/bin/python - "$PID" "$X" "$TESTS" "$BASE" <<'PY'
import json,sys,re
pid,x,tests,base=sys.argv[1:5]
d=f"/verif/seeded/{pid}-{x}"
notes=open(d+"/notes.md").read() if __import__('os').path.exists(d+"/notes.md") else ""
files=sorted(set(re.findall(r"^\+\+\+ b/(\S+)", open(d+"/patch.diff").read(), re.M)))
json.dump({"property":pid,"id":f"{pid}-{x}","files":files,"needs_to_manifest":"see notes.md","confirmed":{"base_commit":base,"patch_applies":True,"demo_exit_clean":0,"demo_exit_mutated":1,"test_suite_with_change":tests,"how":"tools/validate_seed.sh in a scratch worktree of /repo (removed afterwards)"},"detected_by":None},open(d+"/meta.json","w"),indent=1)
PY
  echo "$PID-$X KEPT"
else
  echo "$PID-$X REJECTED (see /tmp/wt/val-$PID-$X.*.log)"
fi
