"""benign_table.py <results.txt>: summarise tools/benign_one.sh output lines into benign/TABLE.md"""
import collections, os, re, sys
rows = collections.OrderedDict()
for line in open(sys.argv[1]):
    m = re.match(r"(B\d+-R\d+) (C\d\d) rc=(\d)\s*(.*)", line)
    if m:
        rows.setdefault(m.group(1), []).append((m.group(2), int(m.group(3)), m.group(4).strip()))
    elif "patch does not apply" in line:
        rows.setdefault(line.split(":")[0], []).append(("-", -1, "patch does not apply"))
with open("/verif/benign/TABLE.md", "w") as fh:
    fh.write("# Behaviour-preserving changes (written by sub-agents from a list of target functions) and what the checks say\n\n")
    fh.write("rc 0 = held; rc 2 = undecided (an obligation of the pinned tree is no longer generated, or the rewritten code leaves the modelled subset) - tolerated, not an alarm; rc 1 = false alarm.\n\n")
    fh.write("| change | what it does | checks run | rc 0 | rc 2 (undecided) | rc 1 (false alarm) |\n|---|---|---|---|---|---|\n")
    tot = collections.Counter()
    for k in sorted(rows, key=lambda s: (int(s[1:s.index('-')]), s)):
        note = ""
        p = f"/verif/benign/{k}/notes.md"
        if os.path.exists(p):
            txt = [l.strip("-* #\n") for l in open(p) if l.strip()]
            note = (txt[1] if len(txt) > 1 else txt[0])[:110] if txt else ""
        r = rows[k]
        ok = [c for c, rc, _ in r if rc == 0]; und = [c for c, rc, _ in r if rc == 2]; bad = [c for c, rc, _ in r if rc in (1, 3)]
        tot.update(ok=len(ok), und=len(und), bad=len(bad))
        fh.write(f"| {k} | {note.replace('|', '/')} | {len(r)} | {len(ok)} | {' '.join(und)} | {' '.join(bad)} |\n")
    fh.write(f"\n{len(rows)} changes, {sum(tot.values())} check runs: {tot['ok']} held, {tot['und']} undecided, {tot['bad']} false alarms.\n")
print(open("/verif/benign/TABLE.md").read()[-200:])
