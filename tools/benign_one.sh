#!/bin/sh
# benign_one.sh <dir-with-patch.diff> <label>: apply a behaviour-preserving change to a scratch copy of /repo's tree and run
# every property check that has a function of a touched file under contract; prints one line per check (rc 0 expected;
# rc 2 = undecided is tolerated but listed; rc 1 = false alarm)
cd /verif
dir=$1; label=$2
S=$(mktemp -d /tmp/pyvc-benign-XXXX)
cp -r /repo/geoh5py $S/geoh5py
if ! patch -s -p1 -d $S < $dir/patch.diff >/dev/null 2>&1; then echo "$label: patch does not apply"; rm -rf $S; exit 0; fi
files=$(grep '^+++ b/' $dir/patch.diff | sed 's#^+++ b/##')
pids=$(python3 - $files <<'PY'
import json, glob, sys
files=sys.argv[1:]
out=set()
for f in glob.glob('/verif/evidence/C*.json'):
    e=json.load(open(f)); cov=e['coverage']
    wh=[x.get('where','') for x in cov.get('functions_under_contract',[])]+[json.dumps(cov.get('bounded_standins',[]))]
    if any(any(fl in w for w in wh) for fl in files):
        out.add(e['property_id'])
# natives exercise the whole package through the public API: always include the history-based checks
print(' '.join(sorted(out | {'C01','C04','C05'})))
PY
)
for pid in $pids; do
  PYVC_REPO=$S timeout 1500 ./bin/check $pid > /tmp/pyvc-benign-$label-$pid.log 2>&1; rc=$?
  echo "$label $pid rc=$rc $(grep -m1 '^VIOLATION\|^UNDECIDED\|^ENGINE' /tmp/pyvc-benign-$label-$pid.log | cut -c1-170)"
done
rm -rf $S
