#!/bin/sh
# revalidate_seeds.sh: each kept seed against the current /repo HEAD: patch applies, demo exits 1 with / 0 without
for d in /verif/seeded/*/; do
  id=$(basename $d)
  ( W=/tmp/wt/reval-$id
    git -C /repo worktree remove --force $W >/dev/null 2>&1
    git -C /repo worktree add --detach $W HEAD >/dev/null 2>&1
    cd $W; cp $d/demo.py demo_seed.py
    timeout 300 /venv/bin/python demo_seed.py >/dev/null 2>&1; CLEAN=$?
    if git apply $d/patch.diff 2>/dev/null; then AP=ok; else AP=fail; fi
    timeout 300 /venv/bin/python demo_seed.py >/dev/null 2>&1; MUT=$?
    cd /; git -C /repo worktree remove --force $W
    echo "$id apply=$AP clean=$CLEAN mutated=$MUT" ) &
done
wait
