"""T-np: numpy arrays as (shape, index -> term).  Every function here is an assumed contract on
numpy; pyvc/audits.py checks each against the real library on random concrete arguments."""
from __future__ import annotations

import ast

import numpy as np
import z3

from . import theory
from .core import Unsupported, fresh_name
from .interp import CLASS_MODELS, METHODS, MODELS, method, model
from .values import SV, Arr, DynV, Maybe, Obj, Opaque, PDict, PList, SList, kind_of, mk, sym, to_z3, zbool


def Z(x):
    return to_z3(x, "int")


def zk(v, k):
    return to_z3(v, "real" if k == "real" else ("int" if k == "int" else None))


def dk(k):
    """element kind of an SV kind"""
    return {"npbool": "bool"}.get(k, k)


def scalar_of(e, dtype):
    return mk(e, "npbool" if dtype == "bool" else dtype)


def is_int_like(x):
    return isinstance(x, int) and not isinstance(x, bool) or (isinstance(x, SV) and x.k == "int")


def sym_arr(name, shape, dtype):
    """Fresh symbolic array."""
    sort = {"int": z3.IntSort(), "real": z3.RealSort(), "bool": z3.BoolSort(), "uid": z3.IntSort(), "bytes": z3.IntSort(), "str": z3.IntSort()}[dtype]
    f = z3.Function(fresh_name(name), *([z3.IntSort()] * len(shape)), sort)
    return Arr(shape, lambda *idx, _f=f: _f(*[Z(i) for i in idx]), dtype, name)


def from_concrete(a):
    a = np.asarray(a)
    if a.dtype.kind in "iu":
        dtype = "int"
    elif a.dtype.kind == "b":
        dtype = "bool"
    elif a.dtype.kind == "f":
        dtype = "real"
    else:
        raise Unsupported(f"concrete array of dtype {a.dtype}")
    flat = a.tolist()

    def elem(*idx, _a=a):
        if all(isinstance(i, int) for i in idx):
            v = _a[tuple(idx)]
            return to_z3(v.item(), dtype if dtype != "bool" else None)
        # symbolic index into a concrete array: If-chain
        out = None
        for pos in np.ndindex(*_a.shape):
            val = to_z3(_a[pos].item(), dtype if dtype != "bool" else None)
            cond = z3.And(*[Z(i) == p for i, p in zip(idx, pos)]) if len(pos) > 1 else Z(idx[0]) == pos[0]
            out = val if out is None else z3.If(cond, val, out)
        if out is None:
            raise Unsupported("index into empty concrete array")
        return out

    return Arr(a.shape, elem, dtype, "const")


def as_arr(I, v, allow_scalar=False):
    """Coerce value to Arr (np.asarray semantics for the supported cases)."""
    if isinstance(v, Arr):
        return v
    if isinstance(v, np.ndarray):
        return from_concrete(v)
    if isinstance(v, (PList, tuple, list)):
        items = v.items if isinstance(v, PList) else list(v)
        if not items:
            return Arr((0,), lambda i: z3.IntVal(0), "real", "empty")
        if all(isinstance(x, (PList, tuple, list, Arr)) for x in items):
            rows = [as_arr(I, x) for x in items]
            r0 = rows[0]
            for r in rows[1:]:
                if r.ndim != r0.ndim:
                    raise Unsupported("ragged nested sequence")
            dt = "real" if any(r.dtype == "real" for r in rows) else r0.dtype
            n = len(rows)

            def elem(i, *rest, _rows=rows):
                if isinstance(i, int):
                    return _rows[i].elem(*rest)
                out = _rows[-1].elem(*rest)
                for k in range(n - 2, -1, -1):
                    out = z3.If(Z(i) == k, _rows[k].elem(*rest), out)
                return out

            return Arr((n,) + tuple(r0.shape), elem, dt, "stack")
        kinds = {dk(kind_of(x)) for x in items}
        if kinds <= {"int", "bool", "real"}:
            dt = "real" if "real" in kinds else ("int" if "int" in kinds else "bool")
            terms = [zk(x, dt) for x in items]
            n = len(terms)

            def elem(i, _t=terms):
                if isinstance(i, int):
                    return _t[i]
                out = _t[-1]
                for k in range(n - 2, -1, -1):
                    out = z3.If(Z(i) == k, _t[k], out)
                return out

            return Arr((n,), elem, dt, "list")
        raise Unsupported(f"array from list of kinds {kinds}")
    if isinstance(v, SList):
        probe = v.elem(z3.Int(fresh_name("p")))
        if isinstance(probe, (SV, int, float, bool)):
            k = dk(kind_of(probe))
            return Arr((v.length,), lambda i, _v=v, _k=k: zk(_v.elem(i), _k), k, v.tag)
        raise Unsupported("array from symbolic sequence of non-scalars")
    if allow_scalar and isinstance(v, (int, float, bool, SV)):
        k = dk(kind_of(v))
        return Arr((), lambda _v=v, _k=k: zk(_v, _k), k, "scalar")
    raise Unsupported(f"np.asarray of {type(v).__name__}")


def same_dim(a, b):
    """Structural equality of shape entries when decidable."""
    if isinstance(a, int) and isinstance(b, int):
        return a == b
    return None


def fz(a):
    """Element function of `a` as of now: later in-place updates of `a` (or, for a view, of its
    base) are not seen.  Copy-producing numpy operations capture this; views stay dynamic."""
    v = getattr(a, "view_of", None)
    if v is None:
        return a.elem
    base, mapper = v
    be = fz(base)
    return lambda *idx, _be=be, _m=mapper: _be(*_m(*idx))


def view(base, shape, mapper, tag, inv=None, inview=None):
    out = Arr(shape, None, base.dtype, tag)
    out.view_of = (base, mapper)
    out.view_inv = (inv, inview)  # base index -> view index, and membership of a base index in the view
    out.elem = lambda *idx, _b=base, _m=mapper: _b.elem(*_m(*idx))
    return out


def map1(a, f, dtype=None):
    return Arr(a.shape, lambda *idx, _e=fz(a): f(_e(*idx)), dtype or a.dtype, a.tag)


def broadcast2(I, a, b):
    """Return (shape, fa, fb, ka, kb) with fa/fb index functions over the result shape."""
    if isinstance(a, Arr) and isinstance(b, Arr):
        if a.ndim == b.ndim:
            shape = []
            for x, y in zip(a.shape, b.shape):
                if isinstance(x, int) and x == 1 and not (isinstance(y, int) and y == 1):
                    shape.append(y)
                elif isinstance(y, int) and y == 1:
                    shape.append(x)
                else:
                    eq = same_dim(x, y)
                    if eq is False:
                        I.raise_(ValueError)
                    if eq is None and not (x is y or (z3.is_expr(x) and z3.is_expr(y) and x.eq(y))):
                        # shapes must agree, otherwise numpy raises
                        if not I.path.branch(Z(x) == Z(y), f"broadcast-shape@{I.cur_line}"):
                            I.raise_(ValueError)
                    shape.append(x)

            def fix(arr):
                def f(*idx, _shape=arr.shape, _e=fz(arr)):
                    real = [0 if (isinstance(s, int) and s == 1) else i for i, s in zip(idx, _shape)]
                    return _e(*real)

                return f

            return tuple(shape), fix(a), fix(b), a.dtype, b.dtype
        hi, lo = (a, b) if a.ndim > b.ndim else (b, a)
        if lo.ndim == 0:
            f_lo = lambda *idx, _e=fz(lo): _e()
        elif lo.ndim == 1 and hi.ndim == 2:
            if same_dim(lo.shape[0], hi.shape[1]) is False and lo.shape[0] != 1:
                I.raise_(ValueError)
            f_lo = lambda i, j, _e=fz(lo), _one=(isinstance(lo.shape[0], int) and lo.shape[0] == 1): _e(0 if _one else j)
        else:
            raise Unsupported("broadcast of ranks > 2")
        f_hi = fz(hi)
        if hi is a:
            return hi.shape, f_hi, f_lo, a.dtype, b.dtype
        return hi.shape, f_lo, f_hi, a.dtype, b.dtype
    if isinstance(a, Arr):
        k = dk(kind_of(b))
        if k not in ("int", "real", "bool", "uid", "bytes", "str"):
            raise Unsupported(f"array op with {type(b).__name__}")
        return a.shape, fz(a), (lambda *idx, _b=b: _b), a.dtype, k
    shape, fb, fa, kb, ka = broadcast2(I, b, a)
    return shape, fa, fb, ka, kb


def arith_kind(ka, kb, op):
    if isinstance(op, ast.Div):
        return "real"
    if "real" in (ka, kb):
        return "real"
    return "int" if ("int" in (ka, kb) or isinstance(op, (ast.Add, ast.Sub, ast.Mult))) else "bool"


def binop(I, op, a, b):
    if isinstance(a, Maybe):
        a = I.unwrap(a)
    if isinstance(b, Maybe):
        b = I.unwrap(b)
    if isinstance(a, (PList, tuple)) and isinstance(b, Arr):
        a = as_arr(I, a)
    if isinstance(b, (PList, tuple)) and isinstance(a, Arr):
        b = as_arr(I, b)
    if isinstance(op, ast.MatMult):
        return matmul(I, a, b)
    shape, fa, fb, ka, kb = broadcast2(I, a, b)
    if isinstance(op, (ast.BitAnd, ast.BitOr, ast.BitXor)):
        if ka == "bool" and kb == "bool":
            zf = {ast.BitAnd: z3.And, ast.BitOr: z3.Or, ast.BitXor: z3.Xor}[type(op)]
            return Arr(shape, lambda *idx: zf(zk(fa(*idx), "bool"), zk(fb(*idx), "bool")), "bool", "bitop")
        raise Unsupported("bitwise op on non-boolean arrays")
    k = arith_kind(ka, kb, op)
    if k == "bool":
        raise Unsupported("arithmetic on boolean arrays")

    def conv(t, src):
        t = zk(t, k) if not z3.is_expr(t) else t
        if src == "bool" and z3.is_bool(t):
            t = z3.If(t, 1, 0)
        if k == "real" and z3.is_int(t):
            t = z3.ToReal(t)
        return t

    if isinstance(op, ast.Add):
        f = lambda x, y: x + y
    elif isinstance(op, ast.Sub):
        f = lambda x, y: x - y
    elif isinstance(op, ast.Mult):
        f = lambda x, y: x * y
    elif isinstance(op, ast.Div):
        theory.use("T-np.true division by nonzero (division by zero -> inf/nan not modelled)")
        f = lambda x, y: x / y
    elif isinstance(op, ast.Mod) and k == "real":
        theory.use("T-fp.real modulo uninterpreted")
        modf_ = z3.Function("np_fmod", z3.RealSort(), z3.RealSort(), z3.RealSort())
        f = lambda x, y: modf_(x, y)
    elif isinstance(op, ast.FloorDiv) and k == "int" and isinstance(b, int) and b > 0:
        f = lambda x, y: x / y  # z3 integer division is floor division for a positive divisor
    else:
        raise Unsupported(f"array binary {type(op).__name__}")
    return Arr(shape, lambda *idx: f(conv(fa(*idx), ka), conv(fb(*idx), kb)), k, "arith")


def compare(I, op, a, b):
    shape, fa, fb, ka, kb = broadcast2(I, a, b)
    k = "real" if "real" in (ka, kb) else ka

    def conv(t, src):
        t = zk(t, k) if not z3.is_expr(t) else t
        if k == "real" and z3.is_int(t):
            t = z3.ToReal(t)
        if k == "int" and z3.is_bool(t):
            t = z3.If(t, 1, 0)
        return t

    import operator as o

    fn = {ast.Lt: o.lt, ast.LtE: o.le, ast.Gt: o.gt, ast.GtE: o.ge, ast.Eq: o.eq, ast.NotEq: o.ne}[type(op)]
    return Arr(shape, lambda *idx: fn(conv(fa(*idx), ka), conv(fb(*idx), kb)), "bool", "cmp")


def elementwise2(I, a, b, which):
    return compare(I, ast.Eq() if which == "eq" else ast.NotEq(), a, b)


def unop(I, op, a):
    if isinstance(op, ast.Invert) and a.dtype == "bool":
        return map1(a, z3.Not, "bool")
    if isinstance(op, ast.USub) and a.dtype in ("int", "real"):
        return map1(a, lambda e: -e)
    if isinstance(op, ast.Not):
        raise Unsupported("not on array")
    raise Unsupported(f"unary {type(op).__name__} on {a.dtype} array")


def matmul(I, a, b):
    a, b = as_arr(I, a), as_arr(I, b)
    inner = a.shape[-1]
    if not isinstance(inner, int):
        raise Unsupported("matmul with symbolic inner dimension")
    ea, eb = fz(a), fz(b)
    if a.ndim == 2 and b.ndim == 2:
        return Arr((a.shape[0], b.shape[1]), lambda i, j: sum((to_real(ea(i, k)) * to_real(eb(k, j)) for k in range(inner)), z3.RealVal(0)), "real", "matmul")
    if a.ndim == 2 and b.ndim == 1:
        return Arr((a.shape[0],), lambda i: sum((to_real(ea(i, k)) * to_real(eb(k)) for k in range(inner)), z3.RealVal(0)), "real", "matmul")
    raise Unsupported("matmul ranks")


def to_real(t):
    if z3.is_expr(t):
        return z3.ToReal(t) if z3.is_int(t) else t
    return to_z3(t, "real")


# ---------------------------------------------------------------------------------- selections


def select_cache(I, mask):
    """(m, pos, rank) of a 1-D boolean array; memoised per array object and path."""
    cache = I.path.ghost.setdefault("selections", {})
    key = id(mask)
    if key not in cache:
        n = Z(mask.shape[0])
        me = fz(mask)  # the selection is of the mask's value at this moment
        m, pos, rank = theory.mask_select(I.path, n, lambda i, _e=me: _e(i), "mask")
        # uniqueness of the increasing enumeration: two masks of one length that agree pointwise
        # select the same positions (by induction on the index; T-np axiom, audited natively)
        for (m0, pos0, rank0, mask0, e0, n0) in list(cache.values()):
            if not z3.simplify(n0 == n).eq(z3.BoolVal(True)) and not n0.eq(n):
                continue
            theory.use("T-np.mask_select unique: pointwise equal masks give the same selection")
            i, j = z3.Ints(f"{fresh_name('i')} {fresh_name('j')}")
            same = z3.ForAll([i], z3.Implies(z3.And(i >= 0, i < n), e0(i) == me(i)))
            concl = z3.And(
                m0 == m,
                z3.ForAll([j], z3.Implies(z3.And(j >= 0, j < m), pos0(j) == pos(j)), patterns=[pos0(j)]),
                z3.ForAll([j], z3.Implies(z3.And(j >= 0, j < m), pos0(j) == pos(j)), patterns=[pos(j)]),
                z3.ForAll([i], z3.Implies(z3.And(i >= 0, i <= n), rank0(i) == rank(i)), patterns=[rank0(i)]),
                z3.ForAll([i], z3.Implies(z3.And(i >= 0, i <= n), rank0(i) == rank(i)), patterns=[rank(i)]),
            )
            I.path.assume_tagged("selection-uniqueness", z3.Implies(same, concl))
        cache[key] = (m, pos, rank, mask, me, n)  # keep the mask alive so ids are not reused
    return cache[key][:3]


def index_first(I, a, i):
    """a[i] for an integer i (row of a 2-D array / element of 1-D), no bounds check."""
    if a.fields is not None:
        return Record(a, i)
    if a.ndim == 1:
        return scalar_of(a.elem(i), a.dtype)
    return view(a, a.shape[1:], lambda *rest, _i=i: (_i,) + tuple(rest), a.tag + "[i]", inv=lambda b0, *rest: tuple(rest), inview=lambda b0, *rest, _i=i: Z(b0) == Z(_i))


class Record:
    """One row of a structured array (np.void): indexable by position or field name."""

    def __init__(self, arr, i):
        self.arr = arr
        self.i = i


def rec_get(I, rec, key):
    names = list(rec.arr.fields)
    if isinstance(key, int):
        if key >= len(names):
            I.raise_(IndexError)
        key = names[key]
    if key not in rec.arr.fields:
        I.raise_(ValueError)
    col = rec.arr.fields[key]
    return scalar_of(col.elem(rec.i), col.dtype)


def check_index(I, i, n, exc=IndexError):
    """bounds check for an integer index; returns the normalised index term."""
    if isinstance(i, int) and isinstance(n, int):
        if i < -n or i >= n:
            I.raise_(exc)
        return i % n if n else i
    zi, zn = Z(i), Z(n)
    if not I.path.branch(z3.And(zi >= -zn, zi < zn), f"np-index-in-range@{I.cur_line}"):
        I.raise_(exc)
    if isinstance(i, int):
        return i if i >= 0 else zn + i
    return z3.If(zi >= 0, zi, zi + zn)


def all_in_range(I, idx, n, exc=IndexError):
    """Every entry of integer index array idx lies in [-n, n), else raise."""
    q = [z3.Int(fresh_name("q")) for _ in idx.shape]
    rng = z3.And(*[z3.And(x >= 0, x < Z(s)) for x, s in zip(q, idx.shape)]) if q else True
    e = idx.elem(*q)
    ok = z3.ForAll(q, z3.Implies(rng, z3.And(e >= -Z(n), e < Z(n)))) if q else z3.And(e >= -Z(n), e < Z(n))
    if not I.path.branch(ok, f"np-indices-in-range@{I.cur_line}"):
        I.raise_(exc)


def norm(e, n):
    return z3.If(e >= 0, e, e + Z(n))


def getitem(I, a, idx):
    if isinstance(idx, str):
        if a.fields is None or idx not in a.fields:
            I.raise_(ValueError)
        return a.fields[idx]
    if isinstance(idx, tuple):
        return getitem_tuple(I, a, idx)
    if is_int_like(idx) or isinstance(idx, (bool,)):
        if a.ndim == 0:
            I.raise_(IndexError)
        i = check_index(I, idx, a.shape[0])
        return index_first(I, a, i)
    if isinstance(idx, slice):
        return slice_first(I, a, idx)
    if isinstance(idx, (PList, list)):
        idx = as_arr(I, idx)
    if isinstance(idx, Arr):
        if idx.dtype == "bool":
            if idx.ndim != 1:
                raise Unsupported("boolean mask of rank > 1")
            eq = same_dim(idx.shape[0], a.shape[0])
            if eq is False:
                I.raise_(IndexError)
            if eq is None and not I.path.branch(Z(idx.shape[0]) == Z(a.shape[0]), f"mask-length@{I.cur_line}"):
                I.raise_(IndexError)
            m, pos, rank = select_cache(I, idx)
            out = Arr((mk(m, "int"),) + tuple(a.shape[1:]), lambda j, *rest, _e=fz(a), _p=pos: _e(_p(Z(j)), *rest), a.dtype, a.tag + "[mask]")
            if a.fields is not None:
                out.fields = {k: getitem(I, c, idx) for k, c in a.fields.items()}
            out.sel = (a, idx, pos, rank)
            return out
        if idx.dtype == "int":
            all_in_range(I, idx, a.shape[0])
            n0 = a.shape[0]
            k = idx.ndim

            def elem(*ii, _e=fz(a), _ie=fz(idx), _k=k, _n0=n0):
                return _e(norm(_ie(*ii[:_k]), _n0), *ii[_k:])

            return Arr(tuple(idx.shape) + tuple(a.shape[1:]), elem, a.dtype, a.tag + "[idx]")
    raise Unsupported(f"array index {type(idx).__name__} at {I.where()}")


def slice_bounds(I, sl, n):
    if sl.step is not None and sl.step != 1:
        raise Unsupported("slice step")
    lo = 0 if sl.start is None else sl.start
    hi = n if sl.stop is None else sl.stop
    if isinstance(lo, int) and isinstance(hi, int) and isinstance(n, int):
        lo, hi, _ = slice(lo, hi).indices(n)
        return lo, max(hi, lo)
    zlo, zhi, zn = Z(lo), Z(hi), Z(n)
    # clip like Python does (negative values wrap once)
    zlo = z3.If(zlo < 0, z3.If(zlo + zn < 0, 0, zlo + zn), z3.If(zlo > zn, zn, zlo))
    zhi = z3.If(zhi < 0, z3.If(zhi + zn < 0, 0, zhi + zn), z3.If(zhi > zn, zn, zhi))
    zhi = z3.If(zhi < zlo, zlo, zhi)
    return z3.simplify(zlo), z3.simplify(zhi)


def slice_first(I, a, sl):
    lo, hi = slice_bounds(I, sl, a.shape[0])
    if isinstance(lo, int) and isinstance(hi, int):
        n = hi - lo
    else:
        n = mk(Z(hi) - Z(lo), "int")
    out = view(a, (n,) + tuple(a.shape[1:]), lambda i, *rest, _lo=lo: ((Z(i) + Z(_lo)) if not (isinstance(i, int) and isinstance(_lo, int)) else i + _lo,) + tuple(rest), a.tag + "[:]")
    if a.fields is not None:
        out.fields = {k: slice_first(I, c, sl) for k, c in a.fields.items()}
    return out


def getitem_tuple(I, a, idx):
    if len(idx) != a.ndim:
        if len(idx) > a.ndim:
            I.raise_(IndexError)
        idx = tuple(idx) + (slice(None),) * (a.ndim - len(idx))
    if a.ndim != 2:
        raise Unsupported("tuple index on rank != 2")
    i, j = idx
    full = lambda s: isinstance(s, slice) and s.start is None and s.stop is None and s.step is None
    if full(j):
        r = getitem(I, a, i)
        return r
    if full(i):
        if is_int_like(j):
            jj = check_index(I, j, a.shape[1])
            return view(a, (a.shape[0],), lambda r, _j=jj: (r, _j), a.tag + "[:,j]", inv=lambda r, c: (r,), inview=lambda r, c, _j=jj: Z(c) == Z(_j))
        if isinstance(j, slice):
            lo, hi = slice_bounds(I, j, a.shape[1])
            n = hi - lo if isinstance(lo, int) and isinstance(hi, int) else mk(Z(hi) - Z(lo), "int")
            return view(a, (a.shape[0], n), lambda r, c, _lo=lo: (r, Z(c) + Z(_lo)), a.tag + "[:,a:b]")
    if is_int_like(i) and is_int_like(j):
        ii = check_index(I, i, a.shape[0])
        jj = check_index(I, j, a.shape[1])
        return scalar_of(a.elem(ii, jj), a.dtype)
    if is_int_like(i) and isinstance(j, slice):
        row = getitem(I, a, i)
        return getitem(I, row, j)
    if isinstance(i, slice) and is_int_like(j):
        col = getitem_tuple(I, a, (slice(None), j))
        return getitem(I, col, i)
    if isinstance(i, Arr) and is_int_like(j):
        col = getitem_tuple(I, a, (slice(None), j))
        return getitem(I, col, i)
    raise Unsupported(f"2-D index ({type(i).__name__},{type(j).__name__}) at {I.where()}")


def setitem(I, a, idx, value):
    """In-place update of array a (the Arr object is mutated, views share it)."""
    if getattr(a, "view_of", None) is not None:
        inv, inview = getattr(a, "view_inv", (None, None))
        base = a.view_of[0]
        if inv is None or getattr(base, "view_of", None) is not None:
            raise Unsupported("in-place store through this kind of view is not modelled")
        tmp = Arr(a.shape, fz(a), a.dtype, a.tag)
        setitem(I, tmp, idx, value)
        ob, te = base.elem, tmp.elem
        base.elem = lambda *b, _ob=ob, _te=te, _inv=inv, _in=inview: z3.If(_in(*b), _te(*_inv(*b)), _ob(*b))
        return
    old = a.elem
    if isinstance(idx, str):
        if a.fields is None or idx not in a.fields:
            I.raise_(ValueError)
        col = a.fields[idx]
        new = as_arr(I, value, allow_scalar=True)
        if new.ndim == 0:
            col.elem = lambda i, _v=new: _v.elem()
        else:
            col.elem = new.elem
        return
    vk = value if isinstance(value, Arr) else None
    vke = fz(vk) if vk is not None else None

    def val_at(*ii):
        if vk is not None:
            if vk.ndim == 0:
                return vke()
            return vke(*ii[-vk.ndim:]) if vk.ndim <= len(ii) else vke(*ii)
        t = zk(value, a.dtype if a.dtype != "bool" else None)
        if a.dtype == "real":
            t = to_real(t)
        return t

    if isinstance(idx, tuple) and len(idx) == 2 and isinstance(idx[0], slice) and idx[0].start is None and idx[0].stop is None and is_int_like(idx[1]) and a.ndim == 2:
        jj = check_index(I, idx[1], a.shape[1])
        if vk is not None and vk.ndim == 1:
            a.elem = lambda r, c, _o=old, _v=vke: z3.If(Z(c) == Z(jj), _v(r), _o(r, c))
        elif vk is not None and vk.ndim == 0:
            a.elem = lambda r, c, _o=old, _v=vke: z3.If(Z(c) == Z(jj), _v(), _o(r, c))
        else:
            a.elem = lambda r, c, _o=old: z3.If(Z(c) == Z(jj), val_at(), _o(r, c))
        return
    if isinstance(idx, tuple) and len(idx) == 2 and is_int_like(idx[0]) and is_int_like(idx[1]) and a.ndim == 2:
        ii = check_index(I, idx[0], a.shape[0])
        jj = check_index(I, idx[1], a.shape[1])
        a.elem = lambda r, c, _o=old: z3.If(z3.And(Z(r) == Z(ii), Z(c) == Z(jj)), val_at(), _o(r, c))
        return
    if isinstance(idx, (PList, list)):
        idx = as_arr(I, idx)
    if isinstance(idx, tuple) and all(isinstance(x, Arr) for x in idx) and len(idx) == 1:
        idx = idx[0]
    if is_int_like(idx):
        i = check_index(I, idx, a.shape[0])
        a.elem = lambda k, *rest, _o=old, _i=i: z3.If(Z(k) == Z(_i), val_at(*rest) if rest or vk is not None else val_at(), _o(k, *rest))
        return
    if getattr(a, "frozen", False):
        I.event("mutate", target=a.tag, frozen=True, how="array store")
    if isinstance(idx, slice) and idx.start is None and idx.stop is None:
        a.elem = lambda *ii: val_at(*ii)
        return
    if isinstance(idx, slice):
        lo, hi = slice_bounds(I, idx, a.shape[0])
        zlo, zhi = Z(lo), Z(hi)
        if vk is not None and vk.ndim >= 1:
            # numpy requires the value to have the slice's length (or length 1)
            if not I.path.branch(z3.Or(Z(vk.shape[0]) == zhi - zlo, Z(vk.shape[0]) == 1), f"slice-assign-length@{I.cur_line}"):
                I.raise_(ValueError)
            one = Z(vk.shape[0]) == 1
            a.elem = lambda k, *rest, _o=old, _v=vke: z3.If(z3.And(Z(k) >= zlo, Z(k) < zhi), _v(z3.If(one, 0, Z(k) - zlo), *rest), _o(k, *rest))
        else:
            a.elem = lambda k, *rest, _o=old: z3.If(z3.And(Z(k) >= zlo, Z(k) < zhi), val_at(*rest) if vk is not None else val_at(), _o(k, *rest))
        I.event("slice-store", target=a.tag, lo=lo, hi=hi, arr=a, value=vk)
        return
    if isinstance(idx, Arr) and idx.dtype == "bool" and idx.ndim == 1:
        if vk is not None and vk.ndim >= 1:
            m, pos, rank = select_cache(I, idx)
            # numpy requires len(value) == count
            if not I.path.branch(Z(vk.shape[0]) == m, f"mask-assign-length@{I.cur_line}"):
                I.raise_(ValueError)
            a.elem = lambda k, *rest, _o=old, _me=fz(idx), _r=rank, _v=vke: z3.If(_me(k), _v(_r(Z(k)), *rest), _o(k, *rest))
        else:
            a.elem = lambda k, *rest, _o=old, _me=fz(idx): z3.If(_me(k), val_at(*rest) if vk is not None else val_at(), _o(k, *rest))
        return
    if isinstance(idx, Arr) and idx.dtype == "int":
        if getattr(idx, "flat_of", None) is not None:
            idx = idx.flat_of  # membership does not depend on the index array's shape
        all_in_range(I, idx, a.shape[0])
        if vk is not None and vk.ndim >= 1:
            raise Unsupported("fancy assignment of an array value")
        member = z3.Function(fresh_name("member"), z3.IntSort(), z3.BoolSort())
        q = [z3.Int(fresh_name("q")) for _ in idx.shape]
        rng = z3.And(*[z3.And(x >= 0, x < Z(s)) for x, s in zip(q, idx.shape)])
        n0 = a.shape[0]
        I.path.assume(z3.ForAll(q, z3.Implies(rng, member(norm(idx.elem(*q), n0))), patterns=[idx.elem(*q)] if z3.is_app(idx.elem(*q)) and idx.elem(*q).num_args() > 0 else []))
        wit = [z3.Function(fresh_name("wit"), z3.IntSort(), z3.IntSort()) for _ in idx.shape]
        i = z3.Int(fresh_name("i"))
        ws = [w(i) for w in wit]
        I.path.assume(
            z3.ForAll(
                [i],
                z3.Implies(member(i), z3.And(*[z3.And(w >= 0, w < Z(s)) for w, s in zip(ws, idx.shape)], norm(idx.elem(*ws), n0) == i)),
                patterns=[member(i)],
            )
        )
        theory.use("T-np.fancy assignment a[idx]=scalar (membership predicate)")
        a.elem = lambda k, *rest, _o=old, _mem=member: z3.If(_mem(Z(k)), val_at(*rest) if False else val_at(), _o(k, *rest))
        a.member_of = (idx, member)
        return
    raise Unsupported(f"array store with index {type(idx).__name__} at {I.where()}")


# ---------------------------------------------------------------------------------- attributes


def prop(cls, name):
    def deco(fn):
        fn.is_property = True
        METHODS[(cls, name)] = fn
        return fn

    return deco


@prop(Arr, "shape")
def a_shape(I, a):
    return tuple(x if isinstance(x, int) else mk(x, "int") for x in a.shape)


@prop(Arr, "ndim")
def a_ndim(I, a):
    return a.ndim


@prop(Arr, "size")
def a_size(I, a):
    out = 1
    for s in a.shape:
        out = I.binop(ast.Mult(), out, s if isinstance(s, int) else mk(s, "int"))
    return out


@prop(Arr, "T")
def a_T(I, a):
    if a.ndim == 1:
        return a
    if a.ndim == 2:
        return view(a, (a.shape[1], a.shape[0]), lambda i, j: (j, i), a.tag + ".T", inv=lambda i, j: (j, i), inview=lambda i, j: z3.BoolVal(True))
    raise Unsupported(".T rank")


@prop(Arr, "dtype")
def a_dtype(I, a):
    return {"int": np.dtype("int64"), "real": np.dtype("float64"), "bool": np.dtype("bool")}.get(a.dtype, Opaque("dtype"))


CLASS_MODELS[np.iinfo] = lambda I, args, kw: np.iinfo(args[0])
CLASS_MODELS[np.finfo] = lambda I, args, kw: np.finfo(args[0])

import h5py as _h5py  # noqa: E402

MODELS[id(_h5py.special_dtype)] = (_h5py.special_dtype, lambda I, args, kw: Opaque("special_dtype"))


@method(Arr, "flatten", "ravel")
def a_flatten(I, a, *args, **kw):
    if a.ndim == 1:
        return Arr(a.shape, a.elem, a.dtype, a.tag)
    if a.ndim == 2:
        w = a.shape[1]
        if isinstance(w, int) and w > 0:
            n = mk(Z(a.shape[0]) * w, "int") if not isinstance(a.shape[0], int) else a.shape[0] * w
            out = Arr((n,), lambda t, _e=fz(a), _w=w: _e(Z(t) / _w, Z(t) % _w), a.dtype, a.tag + ".flat")
            out.flat_of = Arr(a.shape, a.elem, a.dtype, a.tag)  # same multiset of entries, 2-D indexing
            return out
    raise Unsupported("flatten with symbolic width")


@method(Arr, "reshape")
def a_reshape(I, a, *args, **kw):
    """reshape of a 1-D array to (-1, w) with a concrete width w (C order): out[c, j] = a[c*w + j]."""
    shape = args[0] if len(args) == 1 else tuple(args)
    if isinstance(shape, PList):
        shape = tuple(shape.items)
    if a.ndim == 1 and isinstance(shape, tuple) and len(shape) == 2 and shape[0] == -1 and isinstance(shape[1], int) and shape[1] > 0:
        w = shape[1]
        n = a.shape[0]
        if isinstance(n, int):
            if n % w:
                I.raise_(ValueError)
            rows = n // w
        else:
            if not I.path.branch(Z(n) % w == 0, f"reshape-divisible@{I.cur_line}"):
                I.raise_(ValueError)
            rows = mk(Z(n) / w, "int")
        theory.use("T-np.reshape (-1, w) of a 1-D array in C order: out[c, j] = a[c*w + j]")
        return Arr((rows, w), lambda c, j, _e=fz(a), _w=w: _e(Z(c) * _w + Z(j)), a.dtype, a.tag + ".reshape")
    raise Unsupported("reshape other than 1-D -> (-1, w)")


@method(Arr, "copy")
def a_copy(I, a, *args, **kw):
    out = Arr(a.shape, fz(a), a.dtype, a.tag)
    if a.fields is not None:
        out.fields = {k: a_copy(I, c) for k, c in a.fields.items()}
    return out


@method(Arr, "tolist")
def a_tolist(I, a):
    # a nested list with the same contents; kept as an array-backed sequence
    out = Arr(a.shape, a.elem, a.dtype, a.tag + ".tolist")
    out.is_list = True
    for extra in ("blocks", "sel"):
        if hasattr(a, extra):
            setattr(out, extra, getattr(a, extra))
    return out


INT_WIDTHS = {"int8": (8, True), "int16": (16, True), "int32": (32, True), "int64": (64, True), "uint8": (8, False), "uint16": (16, False), "uint32": (32, False), "uint64": (64, False)}


def int_width(dtype):
    try:
        name = np.dtype(dtype).name
    except TypeError:
        return None
    return INT_WIDTHS.get(name)


def wrap_int(e, bits, signed):
    """C-style conversion of a mathematical integer to a fixed-width integer (what numpy's
    astype does for integer inputs; for out-of-range floats the result is undefined behaviour)."""
    m = 2 ** bits
    if signed:
        half = 2 ** (bits - 1)
        return ((e + half) % m) - half
    return e % m


@method(Arr, "astype")
def a_astype(I, a, dtype, **kw):
    if a.fields is not None:
        return a_copy(I, a)  # structured table cast to its own dtype
    tgt = dtype_kind(dtype)
    w = int_width(dtype) if tgt == "int" else None
    if w is not None and w[0] < 64 and a.dtype in ("int", "real", "bool"):
        theory.use("T-np.astype to a fixed-width integer wraps modulo 2^bits (floats: truncation toward zero first)")
        bits, signed = w
        src = fz(a)
        if a.dtype == "int":
            out = Arr(a.shape, lambda *idx: wrap_int(src(*idx), bits, signed), "int", a.tag + ".astype")
        elif a.dtype == "bool":
            out = Arr(a.shape, lambda *idx: z3.If(src(*idx), 1, 0), "int", a.tag + ".astype")
        else:
            def trunc(x):
                fl = z3.ToInt(x)
                return z3.If(x >= 0, fl, z3.If(z3.ToReal(fl) == x, fl, fl + 1))

            out = Arr(a.shape, lambda *idx: wrap_int(trunc(src(*idx)), bits, signed), "int", a.tag + ".astype")
        out.int_dtype = np.dtype(dtype).name
        return out
    if tgt == a.dtype:
        return Arr(a.shape, fz(a), a.dtype, a.tag)
    if tgt == "int" and a.dtype == "bool":
        return map1(a, lambda e: z3.If(e, 1, 0), "int")
    if tgt == "real" and a.dtype == "int":
        return map1(a, z3.ToReal, "real")
    if tgt == "bool" and a.dtype in ("int", "real"):
        return map1(a, lambda e: e != 0, "bool")
    if tgt == "real" and a.dtype == "bool":
        return map1(a, lambda e: z3.If(e, z3.RealVal(1), z3.RealVal(0)), "real")
    raise Unsupported(f"astype {a.dtype}->{tgt}")


def dtype_kind(dtype):
    if dtype in (bool, np.bool_, "bool"):
        return "bool"
    if dtype in (int, np.int32, np.int64, np.uint32, "int", "int32", "int64", "uint32", "<u4", "<i4"):
        return "int"
    if dtype in (float, np.float64, np.float32, "float", "float64", "<f8"):
        return "real"
    if isinstance(dtype, np.dtype):
        return {"i": "int", "u": "int", "b": "bool", "f": "real"}.get(dtype.kind) or _unsup(f"dtype {dtype}")
    raise Unsupported(f"dtype {dtype!r}")


def _unsup(msg):
    raise Unsupported(msg)


def axis0_extremum(I, a, is_max):
    """a.min(axis=0) / a.max(axis=0) of an (n, w) array with concrete w: per column, a bound
    that is attained (ValueError on n == 0)."""
    theory.use("T-np.min/max(axis=0): per-column bound attained; ValueError on empty")
    if a.ndim != 2 or not isinstance(a.shape[1], int):
        raise Unsupported("axis-0 extremum needs a concrete column count")
    n = Z(a.shape[0])
    if not I.path.branch(n > 0, f"np-extremum-nonempty@{I.cur_line}"):
        I.raise_(ValueError)
    cache = I.path.ghost.setdefault("axis0", {})
    key = (id(a), is_max)
    if key not in cache:
        vals = []
        for c in range(a.shape[1]):
            m = z3.Real(fresh_name("colext")) if a.dtype == "real" else z3.Int(fresh_name("colext"))
            q = z3.Int(fresh_name("q"))
            e = a.elem(q, c)
            I.path.assume(z3.ForAll([q], z3.Implies(z3.And(q >= 0, q < n), (e <= m) if is_max else (e >= m))))
            w = z3.Int(fresh_name("argext"))
            I.path.assume(z3.And(w >= 0, w < n, a.elem(w, c) == m))
            vals.append(m)
        cache[key] = (vals, a)
    vals = cache[key][0]

    def elem(j, _v=vals):
        if isinstance(j, int):
            return _v[j]
        out = _v[-1]
        for k in range(len(_v) - 2, -1, -1):
            out = z3.If(Z(j) == k, _v[k], out)
        return out

    return Arr((a.shape[1],), elem, a.dtype, "colext")


@method(Arr, "min")
def a_min_method(I, a, axis=None):
    if axis == 0:
        return axis0_extremum(I, a, False)
    if axis is None:
        return extremum(I, a, False)
    raise Unsupported("ndarray.min axis")


@method(Arr, "max")
def a_max_method(I, a, axis=None):
    if axis == 0:
        return axis0_extremum(I, a, True)
    if axis is None:
        return extremum(I, a, True)
    raise Unsupported("ndarray.max axis")


class _CClass:
    pass


def np_c_getitem(I, idx):
    """np.c_[a, b, ...] for 1-D arrays of equal length (columns), or scalars (one row)."""
    parts = list(idx) if isinstance(idx, tuple) else [idx]
    if all(isinstance(x, (int, float, SV)) for x in parts):
        terms = [to_real(zk(x, "real")) for x in parts]
        k = len(terms)

        def elem0(i, j, _t=terms):
            if isinstance(j, int):
                return _t[j]
            out = _t[-1]
            for c in range(k - 2, -1, -1):
                out = z3.If(Z(j) == c, _t[c], out)
            return out

        return Arr((1, k), elem0, "real", "c_scalars")
    arrs = [as_arr(I, x) for x in parts]
    if all(x.ndim == 1 for x in arrs):
        n = arrs[0].shape[0]
        for x in arrs[1:]:
            if same_dim(n, x.shape[0]) is False:
                I.raise_(ValueError)
        dt = "real" if any(x.dtype == "real" for x in arrs) else arrs[0].dtype
        k = len(arrs)

        def elem(i, j, _es=[fz(x) for x in arrs]):
            if isinstance(j, int):
                return _es[j](i)
            out = _es[-1](i)
            for c in range(k - 2, -1, -1):
                out = z3.If(Z(j) == c, _es[c](i), out)
            return out

        return Arr((n, k), elem, dt, "c_")
    raise Unsupported("np.c_ of rank > 1 blocks")


# ---------------------------------------------------------------------------------- functions


@model(np.asarray, np.array)
def np_asarray(I, args, kw):
    v = I.unwrap(args[0])
    if isinstance(v, tuple) and len(v) >= 1 and all(isinstance(x, Arr) for x in v):
        # np.array((arr,)) -> stacked, one more dimension
        rows = list(v)
        r0 = rows[0]
        n = len(rows)

        def elem(i, *rest, _rows=rows):
            if isinstance(i, int):
                return _rows[i].elem(*rest)
            out = _rows[-1].elem(*rest)
            for k in range(n - 2, -1, -1):
                out = z3.If(Z(i) == k, _rows[k].elem(*rest), out)
            return out

        return Arr((n,) + tuple(r0.shape), elem, r0.dtype, "stack")
    out = as_arr(I, v, allow_scalar=True)
    if "dtype" in kw and kw["dtype"] is not None:
        return a_astype(I, out, kw["dtype"])
    if out is v and args and I is not None and np_asarray_copy(args, kw):
        return a_copy(I, out)
    return out


def np_asarray_copy(args, kw):
    return False


def _filled(I, args, kw, value, like=False):
    if like:
        shape = args[0].shape
        dt = args[0].dtype
    else:
        shp = args[0]
        shape = tuple(shp) if isinstance(shp, (tuple, PList)) and not isinstance(shp, PList) else ((tuple(shp.items)) if isinstance(shp, PList) else (shp,))
        dt = "real"
    if "dtype" in kw and kw["dtype"] is not None:
        dt = dtype_kind(kw["dtype"])
    elif len(args) > 1 and not like:
        dt = dtype_kind(args[1])
    shape = tuple(s if isinstance(s, int) else (s.e if isinstance(s, SV) else s) for s in shape)
    if like and "dtype" in kw and kw["dtype"] is not None:
        dt = dtype_kind(kw["dtype"])
    term = {"bool": z3.BoolVal(bool(value)), "int": z3.IntVal(int(value)), "real": z3.RealVal(int(value))}[dt]
    return Arr(shape, lambda *idx, _t=term: _t, dt, "filled")


@model(np.ones)
def np_ones(I, args, kw):
    return _filled(I, args, kw, 1)


@model(np.zeros)
def np_zeros(I, args, kw):
    return _filled(I, args, kw, 0)


@model(np.full)
def np_full(I, args, kw):
    """np.full(shape, fill, dtype=None): for the two numeric kinds the engine carries (int64 as
    mathematical integers, float64 as reals) the fill value is stored unchanged; narrower dtypes
    are not modelled (their wrap-around is only exercised by the native stand-ins)."""
    shp, fill = args[0], args[1]
    dt = kw.get("dtype", args[2] if len(args) > 2 else None)
    kind = dtype_kind(dt) if dt is not None else ("int" if isinstance(fill, int) and not isinstance(fill, bool) or (isinstance(fill, SV) and fill.k == "int") else "real")
    shape = tuple(shp) if isinstance(shp, tuple) else ((tuple(shp.items)) if isinstance(shp, PList) else (shp,))
    shape = tuple(s_ if isinstance(s_, int) else (s_.e if isinstance(s_, SV) else s_) for s_ in shape)
    term = to_z3(fill, "real") if kind == "real" else to_z3(fill, "int")
    return Arr(shape, lambda *idx, _t=term: _t, kind, "full")


@model(np.ones_like)
def np_ones_like(I, args, kw):
    return _filled(I, args, kw, 1, like=True)


@model(np.zeros_like)
def np_zeros_like(I, args, kw):
    return _filled(I, args, kw, 0, like=True)


@model(np.arange)
def np_arange(I, args, kw):
    if len(args) == 1:
        lo, hi = 0, args[0]
    elif len(args) == 2:
        lo, hi = args
    else:
        raise Unsupported("arange with step")
    if isinstance(lo, int) and isinstance(hi, int):
        n = max(hi - lo, 0)
    else:
        n = mk(z3.If(Z(hi) > Z(lo), Z(hi) - Z(lo), 0), "int")
    out = Arr((n,), lambda i, _lo=lo: Z(i) + Z(_lo) if not (isinstance(i, int) and isinstance(_lo, int)) else z3.IntVal(i + _lo), "int", "arange")
    out.arange = (lo, hi)
    return out


def np_reduce_bool(I, a, is_any, axis=None):
    if axis is None:
        q = [z3.Int(fresh_name("q")) for _ in a.shape]
        if not q:
            return scalar_of(a.elem(), "bool")
        rng = z3.And(*[z3.And(x >= 0, x < Z(s)) for x, s in zip(q, a.shape)])
        e = a.elem(*q)
        if a.dtype != "bool":
            e = e != 0
        r = z3.Exists(q, z3.And(rng, e)) if is_any else z3.ForAll(q, z3.Implies(rng, e))
        return mk(r, "npbool")
    if a.ndim == 2 and axis in (1, -1):
        w = a.shape[1]
        if isinstance(w, int):
            f = z3.Or if is_any else z3.And
            return Arr((a.shape[0],), lambda i, _e=fz(a): f(*[_e(i, j) for j in range(w)]) if w > 0 else z3.BoolVal(not is_any), "bool", "reduce1")
        j = z3.Int(fresh_name("j"))

        def elem(i, _a=a, _w=w):
            rng = z3.And(j >= 0, j < Z(_w))
            return z3.Exists([j], z3.And(rng, _a.elem(i, j))) if is_any else z3.ForAll([j], z3.Implies(rng, _a.elem(i, j)))

        return Arr((a.shape[0],), elem, "bool", "reduce1")
    raise Unsupported("reduction axis")


@model(np.diff)
def np_diff(I, args, kw):
    a = as_arr(I, I.unwrap(args[0]))
    if a.ndim != 1 or kw:
        raise Unsupported("np.diff of rank != 1 or with options")
    theory.use("T-np.diff of a 1-D array: out[i] = a[i+1] - a[i], one entry fewer (none for an empty array)")
    n = a.shape[0]
    m = max(n - 1, 0) if isinstance(n, int) else mk(z3.If(Z(n) > 0, Z(n) - 1, 0), "int")
    return Arr((m,), lambda i, _e=fz(a): _e(Z(i) + 1) - _e(Z(i)), a.dtype, a.tag + ".diff")


@model(np.argsort)
def np_argsort(I, args, kw):
    """argsort of a 1-D numeric array: a permutation pi of [0, n) with a[pi(i)] non-decreasing (ties in any
    order); argsort of such a permutation is its inverse.  NaN keys are outside the model (T-fp.reals)."""
    a = as_arr(I, I.unwrap(args[0]))
    if a.ndim != 1 or kw:
        raise Unsupported("np.argsort of rank != 1 or with options")
    inv_of = getattr(a, "perm_inverse", None)
    if inv_of is not None:
        theory.use("T-np.argsort of a permutation of 0..n-1 is its inverse permutation")
        return inv_of
    theory.use("T-np.argsort: a permutation pi with a[pi(i)] non-decreasing")
    n = Z(a.shape[0])
    perm = z3.Function(fresh_name("argsort"), z3.IntSort(), z3.IntSort())
    inv = z3.Function(fresh_name("argsort_inv"), z3.IntSort(), z3.IntSort())
    i, j = z3.Ints(f"{fresh_name('i')} {fresh_name('j')}")
    key = fz(a)
    I.path.assume(z3.ForAll([i], z3.Implies(z3.And(i >= 0, i < n), z3.And(perm(i) >= 0, perm(i) < n, inv(perm(i)) == i)), patterns=[perm(i)]))
    I.path.assume(z3.ForAll([j], z3.Implies(z3.And(j >= 0, j < n), z3.And(inv(j) >= 0, inv(j) < n, perm(inv(j)) == j)), patterns=[inv(j)]))
    I.path.assume(z3.ForAll([i, j], z3.Implies(z3.And(i >= 0, i <= j, j < n), key(perm(i)) <= key(perm(j))), patterns=[z3.MultiPattern(perm(i), perm(j))]))
    P = Arr((a.shape[0],), lambda t, _p=perm: _p(Z(t)), "int", a.tag + ".argsort")
    Q = Arr((a.shape[0],), lambda t, _q=inv: _q(Z(t)), "int", a.tag + ".argsort.inverse")
    P.perm_inverse, Q.perm_inverse = Q, P
    I.path.ghost.setdefault("argsorts", []).append({"of": a, "perm": perm, "inv": inv})
    return P


@model(np.all)
def np_all(I, args, kw):
    a = as_arr(I, I.unwrap(args[0]), allow_scalar=True)
    axis = kw.get("axis", args[1] if len(args) > 1 else None)
    return np_reduce_bool(I, a, False, axis)


@model(np.any)
def np_any(I, args, kw):
    a = as_arr(I, I.unwrap(args[0]), allow_scalar=True)
    axis = kw.get("axis", args[1] if len(args) > 1 else None)
    return np_reduce_bool(I, a, True, axis)


def extremum(I, a, is_max, nan_ok=False):
    """np.max / np.min of a whole array (ValueError on empty)."""
    theory.use("T-np.max/min: bound attained; ValueError on empty")
    size = Z(a_size(I, a))
    if not I.path.branch(size > 0, f"np-extremum-nonempty@{I.cur_line}"):
        I.raise_(ValueError)
    k = a.dtype
    if k == "bool":
        raise Unsupported("max of bool array")
    mx = z3.Int(fresh_name("ext")) if k == "int" else z3.Real(fresh_name("ext"))
    q = [z3.Int(fresh_name("q")) for _ in a.shape]
    rng = z3.And(*[z3.And(x >= 0, x < Z(s)) for x, s in zip(q, a.shape)])
    e = a.elem(*q)
    I.path.assume(z3.ForAll(q, z3.Implies(rng, (e <= mx) if is_max else (e >= mx))))
    w = [z3.Int(fresh_name("argext")) for _ in a.shape]
    I.path.assume(z3.And(*[z3.And(x >= 0, x < Z(s)) for x, s in zip(w, a.shape)], a.elem(*w) == mx))
    return mk(mx, k)


@model(np.max, np.amax, np.nanmax)
def np_max(I, args, kw):
    a = as_arr(I, I.unwrap(args[0]), allow_scalar=True)
    if kw.get("axis") is not None or len(args) > 1:
        raise Unsupported("np.max with axis")
    if a.ndim == 0:
        return scalar_of(a.elem(), a.dtype)
    return extremum(I, a, True)


@model(np.min, np.amin, np.nanmin)
def np_min(I, args, kw):
    a = as_arr(I, I.unwrap(args[0]), allow_scalar=True)
    if kw.get("axis") is not None or len(args) > 1:
        raise Unsupported("np.min with axis")
    if a.ndim == 0:
        return scalar_of(a.elem(), a.dtype)
    return extremum(I, a, False)


@model(np.where)
def np_where(I, args, kw):
    if len(args) != 1:
        c, x, y = args
        c = as_arr(I, c)
        shape, fx, fy, kx, ky = broadcast2(I, x, y) if isinstance(x, Arr) or isinstance(y, Arr) else (c.shape, lambda *i: x, lambda *i: y, dk(kind_of(x)), dk(kind_of(y)))
        k = "real" if "real" in (kx, ky) else kx
        return Arr(c.shape, lambda *idx: z3.If(c.elem(*idx), zk(fx(*idx), k) if not z3.is_expr(fx(*idx)) else fx(*idx), zk(fy(*idx), k) if not z3.is_expr(fy(*idx)) else fy(*idx)), k, "where3")
    c = as_arr(I, args[0])
    if c.ndim != 1 or c.dtype != "bool":
        raise Unsupported("np.where on non 1-D boolean")
    m, pos, rank = select_cache(I, c)
    out = Arr((mk(m, "int"),), lambda j, _p=pos: _p(Z(j)), "int", "where")
    out.sel = (None, c, pos, rank)
    return (out,)


@model(np.flatnonzero)
def np_flatnonzero(I, args, kw):
    """np.flatnonzero(mask) == np.where(mask)[0] for a 1-D boolean array"""
    return np_where(I, [args[0]], {})[0]


@model(np.compress)
def np_compress(I, args, kw):
    """np.compress(mask, a, axis=0) == a[mask] for a 1-D boolean mask over the first axis"""
    cond, a = args[0], args[1]
    axis = kw.get("axis", args[2] if len(args) > 2 else None)
    a = as_arr(I, I.unwrap(a))
    if axis not in (0,) and not (axis is None and a.ndim == 1):
        raise Unsupported("np.compress on an axis other than 0")
    theory.use("T-np.compress(mask, a, axis=0) == a[mask]")
    return getitem(I, a, as_arr(I, I.unwrap(cond)))


@model(np.column_stack)
def np_column_stack(I, args, kw):
    """np.column_stack((a, b, ...)) == np.c_[a, b, ...] for 1-D arrays of equal length"""
    seq = args[0]
    parts = tuple(seq.items) if isinstance(seq, PList) else tuple(seq)
    if not all(isinstance(I.unwrap(x), Arr) and I.unwrap(x).ndim == 1 for x in parts):
        raise Unsupported("np.column_stack of blocks that are not 1-D arrays")
    theory.use("T-np.column_stack of 1-D arrays == np.c_ of them")
    return np_c_getitem(I, tuple(I.unwrap(x) for x in parts))


@model(np.sum)
def np_sum(I, args, kw):
    a = as_arr(I, I.unwrap(args[0]))
    if a.ndim != 1 or kw.get("axis") not in (None, 0):
        raise Unsupported("np.sum of rank > 1")
    if a.dtype == "bool":
        m, pos, rank = select_cache(I, a)
        return mk(m, "int")
    theory.use("T-np.sum (prefix-sum function)")
    n = Z(a.shape[0])
    canon = z3.Int("prefix!canon")
    key = ("prefix", str(z3.simplify(a.elem(canon))), str(z3.simplify(n)))
    cache = I.path.ghost.setdefault("prefix", {})
    if key not in cache:
        S = z3.Function(fresh_name("psum"), z3.IntSort(), z3.IntSort() if a.dtype == "int" else z3.RealSort())
        i = z3.Int(fresh_name("i"))
        I.path.assume(S(0) == 0)
        I.path.assume(z3.ForAll([i], z3.Implies(z3.And(i >= 0, i < n), S(i + 1) == S(i) + a.elem(i)), patterns=[S(i + 1)]))
        cache[key] = (S, a)
    S = cache[key][0]
    out = mk(S(n), a.dtype)
    return out


def prefix_sum_fn(I, a):
    np_sum(I, [a], {})
    canon = z3.Int("prefix!canon")
    return I.path.ghost["prefix"][("prefix", str(z3.simplify(a.elem(canon))), str(z3.simplify(Z(a.shape[0]))))][0]


@model(np.delete)
def np_delete(I, args, kw):
    a = as_arr(I, args[0])
    idx = args[1]
    axis = kw.get("axis", args[2] if len(args) > 2 else None)
    if axis != 0 and not (axis is None and a.ndim == 1):
        raise Unsupported("np.delete axis != 0")
    n = a.shape[0]
    theory.use("T-np.delete(a, idx) == a[keep(idx)] (out-of-range -> IndexError)")
    if isinstance(idx, (PList, list, tuple)):
        idx = as_arr(I, idx) if not (isinstance(idx, tuple) and all(isinstance(x, Arr) for x in idx)) else np_asarray(I, [idx], {})
    if is_int_like(idx):
        i = check_index(I, idx, n)
        iz = Z(i)
        cols = lambda arr: Arr((mk(Z(n) - 1, "int"),) + tuple(arr.shape[1:]), lambda j, *rest, _e=fz(arr): _e(z3.If(Z(j) < iz, Z(j), Z(j) + 1), *rest), arr.dtype, arr.tag + ".del")
    elif isinstance(idx, Arr) and getattr(idx, "arange", None) is not None:
        lo, hi = idx.arange
        zlo, zhi = Z(lo), Z(hi)
        cnt = z3.If(zhi > zlo, zhi - zlo, 0)
        ok = z3.Or(cnt == 0, z3.And(zlo >= -Z(n), zlo + cnt <= Z(n), z3.Or(zlo >= 0, zlo + cnt <= 0)))
        if not I.path.branch(ok, f"np-delete-range@{I.cur_line}"):
            I.raise_(IndexError)
        if not I.path.branch(zlo >= 0, f"np-delete-nonneg@{I.cur_line}"):
            raise Unsupported("np.delete with a negative arange")
        cols = lambda arr: Arr((mk(Z(n) - cnt, "int"),) + tuple(arr.shape[1:]), lambda j, *rest, _e=fz(arr): _e(z3.If(Z(j) < zlo, Z(j), Z(j) + cnt), *rest), arr.dtype, arr.tag + ".del")
    elif isinstance(idx, Arr) and idx.dtype == "int":
        all_in_range(I, idx, n)
        # the set of deleted positions depends only on (idx, n): share it between calls so that
        # deleting the same indices from two arrays of one length is one selection
        dcache = I.path.ghost.setdefault("deleted", {})
        dkey = (id(idx), str(z3.simplify(Z(n))))
        if dkey not in dcache:
            member = z3.Function(fresh_name("deleted"), z3.IntSort(), z3.BoolSort())
            q = [z3.Int(fresh_name("q")) for _ in idx.shape]
            rng = z3.And(*[z3.And(x >= 0, x < Z(s)) for x, s in zip(q, idx.shape)])
            I.path.assume(z3.ForAll(q, z3.Implies(rng, member(norm(idx.elem(*q), n)))))
            wit = [z3.Function(fresh_name("wit"), z3.IntSort(), z3.IntSort()) for _ in idx.shape]
            i = z3.Int(fresh_name("i"))
            ws = [w(i) for w in wit]
            I.path.assume(z3.ForAll([i], z3.Implies(member(i), z3.And(*[z3.And(w >= 0, w < Z(s)) for w, s in zip(ws, idx.shape)], norm(idx.elem(*ws), n) == i)), patterns=[member(i)]))
            keep = Arr((n,), lambda k, _m=member: z3.Not(_m(Z(k))), "bool", "keep")
            keep.deleted = (idx, member)
            dcache[dkey] = (keep, idx)
        keep = dcache[dkey][0]
        member = keep.deleted[1]
        m, pos, rank = select_cache(I, keep)

        def cols(arr, _keep=keep, _pos=pos, _rank=rank, _m=m):
            out = Arr((mk(_m, "int"),) + tuple(arr.shape[1:]), lambda j, *rest, _e=fz(arr): _e(_pos(Z(j)), *rest), arr.dtype, arr.tag + ".del")
            out.sel = (arr, _keep, _pos, _rank)
            return out
    elif isinstance(idx, Arr) and idx.dtype == "bool":
        raise Unsupported("np.delete with boolean mask")
    else:
        raise Unsupported(f"np.delete index {type(idx).__name__}")
    out = cols(a)
    if a.fields is not None:
        out.fields = {k: cols(c) for k, c in a.fields.items()}
    return out


@model(np.vstack)
def np_vstack(I, args, kw):
    seq = I.unwrap(args[0])
    if isinstance(seq, (PList, tuple, list)):
        items = [as_arr(I, x) for x in (seq.items if isinstance(seq, PList) else seq)]
        if not items:
            I.raise_(ValueError)
        items = [x if x.ndim == 2 else Arr((1,) + tuple(x.shape), lambda i, j, _x=x: _x.elem(j), x.dtype, x.tag) for x in items]
        offs = [0]
        for x in items:
            offs.append(I.binop(ast.Add(), offs[-1], x.shape[0] if isinstance(x.shape[0], int) else mk(x.shape[0], "int")))
        dt = "real" if any(x.dtype == "real" for x in items) else items[0].dtype

        def elem(i, j, _es=[fz(x) for x in items], _offs=offs):
            out = _es[-1](Z(i) - Z(_offs[-2]), j)
            for k in range(len(_es) - 2, -1, -1):
                out = z3.If(Z(i) < Z(_offs[k + 1]), _es[k](Z(i) - Z(_offs[k]), j), out)
            return out

        total = offs[-1]
        return Arr((total if isinstance(total, int) else total.e, items[0].shape[1]), elem, dt, "vstack")
    if isinstance(seq, SList):
        return vstack_symbolic(I, seq)
    raise Unsupported(f"np.vstack of {type(seq).__name__}")


def vstack_symbolic(I, seq):
    """vstack of a symbolic-length list of 2-D arrays: offsets by a prefix-sum function."""
    theory.use("T-np.vstack of a list (block offsets = prefix sums of row counts)")
    K = Z(seq.length)
    if not I.path.branch(K > 0, f"vstack-nonempty@{I.cur_line}"):
        I.raise_(ValueError)
    probe = seq.elem(z3.Int(fresh_name("p")))
    if not isinstance(probe, Arr) or probe.ndim != 2:
        raise Unsupported("vstack of non 2-D members")
    off = z3.Function(fresh_name("voff"), z3.IntSort(), z3.IntSort())
    blk = z3.Function(fresh_name("vblk"), z3.IntSort(), z3.IntSort())
    k = z3.Int(fresh_name("k"))
    rows = lambda kk: Z(seq.elem(kk).shape[0])
    I.path.assume(off(0) == 0)
    I.path.assume(z3.ForAll([k], z3.Implies(z3.And(k >= 0, k < K), z3.And(off(k + 1) == off(k) + rows(k), rows(k) >= 0)), patterns=[off(k + 1)]))
    k2 = z3.Int(fresh_name("k"))
    I.path.assume(z3.ForAll([k, k2], z3.Implies(z3.And(k >= 0, k <= k2, k2 <= K), off(k) <= off(k2)), patterns=[z3.MultiPattern(off(k), off(k2))]))
    total = off(K)
    i = z3.Int(fresh_name("i"))
    I.path.assume(z3.ForAll([i], z3.Implies(z3.And(i >= 0, i < total), z3.And(blk(i) >= 0, blk(i) < K, off(blk(i)) <= i, i < off(blk(i) + 1))), patterns=[blk(i)]))
    out = Arr((total, probe.shape[1]), lambda r, c, _s=seq: _s.elem(blk(Z(r))).elem(Z(r) - off(blk(Z(r))), c), probe.dtype, "vstack*")
    out.blocks = (seq, off, blk)
    return out


def np_r_getitem(I, idx):
    parts = list(idx) if isinstance(idx, tuple) else [idx]
    if all(isinstance(x, Arr) and x.ndim == 2 for x in parts):
        return np_vstack(I, [PList(parts)], {})
    arrs = [as_arr(I, x, allow_scalar=True) for x in parts]
    arrs = [x if x.ndim == 1 else Arr((1,), lambda i, _e=fz(x): _e(), x.dtype, x.tag) for x in arrs]
    return np_hstack(I, [PList(arrs)], {})


_UF: dict = {}


def ufun(name):
    if name not in _UF:
        _UF[name] = z3.Function("np_" + name, z3.RealSort(), z3.RealSort())
    return _UF[name]


def _scalar_fn(name):
    def fn(I, args, kw):
        theory.use(f"T-fp.np.{name} uninterpreted on reals")
        v = args[0]
        f = ufun(name)
        if isinstance(v, Arr):
            return map1(v, lambda e: f(to_real(e)), "real")
        return mk(f(to_real(zk(v, "real"))), "real")

    return fn


for _n in ("cos", "sin", "deg2rad", "rad2deg", "sqrt", "arctan", "tan"):
    MODELS[id(getattr(np, _n))] = (getattr(np, _n), _scalar_fn(_n))


@model(np.modf)
def np_modf(I, args, kw):
    theory.use("T-np.modf: fractional and integral parts (truncation toward zero)")
    a = as_arr(I, args[0])
    src = fz(a)
    if a.dtype in ("int", "bool"):
        return (Arr(a.shape, lambda *idx: z3.RealVal(0), "real", "modf.frac"), map1(a, (lambda e: z3.ToReal(e)) if a.dtype == "int" else (lambda e: z3.If(e, z3.RealVal(1), z3.RealVal(0))), "real"))

    def trunc(x):
        fl = z3.ToInt(x)
        return z3.If(x >= 0, fl, z3.If(z3.ToReal(fl) == x, fl, fl + 1))

    return (Arr(a.shape, lambda *idx: src(*idx) - z3.ToReal(trunc(src(*idx))), "real", "modf.frac"), Arr(a.shape, lambda *idx: z3.ToReal(trunc(src(*idx))), "real", "modf.int"))


@model(np.divide)
def np_divide(I, args, kw):
    a, b = args[0], args[1]
    where = kw.get("where")
    shape, fa, fb, ka, kb = broadcast2(I, a, b)
    if where is None:
        return binop(I, ast.Div(), a, b)
    theory.use("T-np.divide(where=): masked-out entries are arbitrary finite reals (uninitialised memory is not modelled)")
    w = as_arr(I, where)
    junk = z3.Function(fresh_name("uninit"), *([z3.IntSort()] * len(shape)), z3.RealSort())
    we = fz(w)
    return Arr(shape, lambda *idx: z3.If(we(*idx), to_real(fa(*idx) if z3.is_expr(fa(*idx)) else zk(fa(*idx), "real")) / to_real(fb(*idx) if z3.is_expr(fb(*idx)) else zk(fb(*idx), "real")), junk(*[Z(i) for i in idx])), "real", "divide")


@model(np.isfinite)
def np_isfinite(I, args, kw):
    v = args[0]
    if isinstance(v, (int, float)) and not isinstance(v, SV):
        return bool(np.isfinite(v))
    theory.use("T-fp.reals: symbolic reals are finite")
    if isinstance(v, Arr):
        return Arr(v.shape, lambda *idx: z3.BoolVal(True), "bool", "isfinite")
    return True


@model(np.isinf)
def np_isinf(I, args, kw):
    v = args[0]
    if isinstance(v, (int, float)) and not isinstance(v, SV):
        return bool(np.isinf(v))
    theory.use("T-fp.reals: symbolic reals are finite")
    if isinstance(v, Arr):
        return Arr(v.shape, lambda *idx: z3.BoolVal(False), "bool", "isinf")
    return False


@model(np.dot)
def np_dot(I, args, kw):
    return matmul(I, args[0], args[1])


@model(np.cumsum)
def np_cumsum(I, args, kw):
    a = as_arr(I, args[0])
    if a.ndim != 1:
        raise Unsupported("cumsum of rank > 1")
    S = prefix_sum_fn(I, a)
    i1, i2 = z3.Ints("cumsum!i1 cumsum!i2")
    e1, e2 = z3.simplify(a.elem(i1)), z3.simplify(a.elem(i2))
    if e1.eq(e2):
        # constant array: the prefix sums are multiples of the constant (by induction; audited natively)
        theory.use("T-np.cumsum of a constant array: S(k) = k*c")
        kk = z3.Int(fresh_name("k"))
        cterm = to_real(e1) if a.dtype == "real" else e1
        I.path.assume(z3.ForAll([kk], z3.Implies(z3.And(kk >= 0, kk <= Z(a.shape[0])), S(kk) == (z3.ToReal(kk) if a.dtype == "real" else kk) * cterm), patterns=[S(kk)]))
    return Arr(a.shape, lambda i, _S=S: _S(Z(i) + 1), a.dtype, "cumsum")


@model(np.ravel)
def np_ravel(I, args, kw):
    a = as_arr(I, args[0])
    if a.ndim == 3:
        return ravel3(I, a)
    if a.ndim == 2 and not isinstance(a.shape[1], int):
        return ravel2(I, a)
    return a_flatten(I, a)


def unravel2_fns(I, dims):
    theory.use("T-np.ravel C-order of rank-2: flat(a,b) = a*d1+b")
    key = tuple(str(z3.simplify(Z(d))) for d in dims)
    cache = I.path.ghost.setdefault("unravel2", {})
    hit = _lookup_dims(I, cache, dims)
    if hit is not None:
        return hit
    if key not in cache:
        d0, d1 = [Z(d) for d in dims]
        F = z3.Function(fresh_name("flat2"), z3.IntSort(), z3.IntSort(), z3.IntSort())
        A = z3.Function(fresh_name("unflat2A"), z3.IntSort(), z3.IntSort())
        B = z3.Function(fresh_name("unflat2B"), z3.IntSort(), z3.IntSort())
        a, b = z3.Ints(f"{fresh_name('a')} {fresh_name('b')}")
        rng2 = z3.And(a >= 0, a < d0, b >= 0, b < d1)
        I.path.assume(z3.ForAll([a, b], z3.Implies(rng2, z3.And(F(a, b) >= 0, A(F(a, b)) == a, B(F(a, b)) == b)), patterns=[F(a, b)]))
        I.path.assume_tagged("index-polynomial", z3.ForAll([a, b], z3.Implies(rng2, z3.And(F(a, b) == a * d1 + b, F(a, b) < d0 * d1)), patterns=[F(a, b)]))
        cache[key] = (tuple(dims), (F, A, B))
    return cache[key][1]


def ravel2(I, a):
    F, A, B = unravel2_fns(I, a.shape)
    d0, d1 = [Z(d) for d in a.shape]
    out = Arr((d0 * d1,), lambda t, _e=fz(a): _e(A(Z(t)), B(Z(t))), a.dtype, a.tag + ".ravel")
    out.unravel = (F, A, B, a.shape)
    return out


@model(np.prod)
def np_prod(I, args, kw):
    v = args[0]
    items = list(v) if isinstance(v, tuple) else (v.items if isinstance(v, PList) else None)
    if items is None:
        raise Unsupported("np.prod of an array")
    out = 1
    for x in items:
        out = I.binop(ast.Mult(), out, x)
    return out


def _same_dims(I, d1, d2):
    """Provably equal shapes under the current (quantifier-free) path condition."""
    for x, y in zip(d1, d2):
        zx, zy = Z(x), Z(y)
        if zx.eq(zy):
            continue
        if I.path.feasible(zx != zy):
            return False
    return True


def _lookup_dims(I, cache, dims):
    for key, (kd, val) in cache.items():
        if len(kd) == len(dims) and _same_dims(I, kd, dims):
            return val
    return None


def unravel_fns(I, dims):
    """Skolem functions of the C-order flattening of a rank-3 array of shape dims=(d0,d1,d2):
    F(a,b,c) = (a*d1 + b)*d2 + c and its inverse (A,B,C).  Axioms in the forward direction."""
    theory.use("T-np.ravel C-order of rank-3: flat(a,b,c) = (a*d1+b)*d2+c")
    key = tuple(str(z3.simplify(Z(d))) for d in dims)
    cache = I.path.ghost.setdefault("unravel", {})
    hit = _lookup_dims(I, cache, dims)
    if hit is not None:
        return hit
    if key not in cache:
        d0, d1, d2 = [Z(d) for d in dims]
        F = z3.Function(fresh_name("flat"), z3.IntSort(), z3.IntSort(), z3.IntSort(), z3.IntSort())
        A = z3.Function(fresh_name("unflatA"), z3.IntSort(), z3.IntSort())
        B = z3.Function(fresh_name("unflatB"), z3.IntSort(), z3.IntSort())
        C = z3.Function(fresh_name("unflatC"), z3.IntSort(), z3.IntSort())
        a, b, c = z3.Ints(f"{fresh_name('a')} {fresh_name('b')} {fresh_name('c')}")
        rng3 = z3.And(a >= 0, a < d0, b >= 0, b < d1, c >= 0, c < d2)
        I.path.assume(z3.ForAll([a, b, c], z3.Implies(rng3, z3.And(F(a, b, c) >= 0, A(F(a, b, c)) == a, B(F(a, b, c)) == b, C(F(a, b, c)) == c)), patterns=[F(a, b, c)]))
        I.path.assume_tagged("index-polynomial", z3.ForAll([a, b, c], z3.Implies(rng3, z3.And(F(a, b, c) == (a * d1 + b) * d2 + c, F(a, b, c) < d0 * d1 * d2)), patterns=[F(a, b, c)]))
        cache[key] = (tuple(dims), (F, A, B, C))
    return cache[key][1]


def ravel3(I, a):
    F, A, B, C = unravel_fns(I, a.shape)
    d0, d1, d2 = [Z(d) for d in a.shape]
    out = Arr((d0 * d1 * d2,), lambda t, _e=fz(a): _e(A(Z(t)), B(Z(t)), C(Z(t))), a.dtype, a.tag + ".ravel")
    out.unravel = (F, A, B, C, a.shape)
    return out


@model(np.meshgrid)
def np_meshgrid(I, args, kw):
    theory.use("T-np.meshgrid default 'xy' indexing: out[j,i(,k)] = x[i], y[j](, z[k])")
    if kw.get("indexing", "xy") != "xy":
        raise Unsupported("meshgrid indexing other than the default")
    arrs = [as_arr(I, x) for x in args]
    if len(arrs) == 2:
        x, y = arrs
        shape = (y.shape[0], x.shape[0])
        return (Arr(shape, lambda j, i, _e=fz(x): _e(i), x.dtype, "mesh_x"), Arr(shape, lambda j, i, _e=fz(y): _e(j), y.dtype, "mesh_y"))
    if len(arrs) == 3:
        x, y, z_ = arrs
        shape = (y.shape[0], x.shape[0], z_.shape[0])
        return (
            Arr(shape, lambda j, i, k, _e=fz(x): _e(i), x.dtype, "mesh_x"),
            Arr(shape, lambda j, i, k, _e=fz(y): _e(j), y.dtype, "mesh_y"),
            Arr(shape, lambda j, i, k, _e=fz(z_): _e(k), z_.dtype, "mesh_z"),
        )
    raise Unsupported("meshgrid arity")


class RecRow:
    """A single structured record (np.core.records.fromarrays of scalars)."""

    def __init__(self, fields):
        self.fields = fields  # name -> scalar value


def _fromarrays(I, args, kw):
    theory.use("T-rec.fromarrays(scalars, dtype=[(name, type)...]) builds the record it is given")
    vals = args[0]
    dt = kw.get("dtype", args[1] if len(args) > 1 else None)
    names = None
    if isinstance(dt, PList):
        names = [d[0] for d in dt.items]
    elif isinstance(dt, PDict) and "names" in dt.items:
        names = list(dt.items["names"].items) if isinstance(dt.items["names"], PList) else None
    vals = list(vals) if isinstance(vals, tuple) else (vals.items if isinstance(vals, PList) else None)
    if names is None or vals is None or len(names) != len(vals):
        raise Unsupported("fromarrays shape")
    if all(isinstance(v, (int, float, bool, SV, bytes, str)) for v in vals):
        return RecRow(dict(zip(names, vals)))
    raise Unsupported("fromarrays of arrays")


MODELS[id(np.core.records.fromarrays)] = (np.core.records.fromarrays, _fromarrays)


def rec_concat(I, parts):
    """hstack of structured tables / single records (row order = argument order)."""
    tables = []
    for p in parts:
        if isinstance(p, RecRow):
            cols = {}
            for name, v in p.fields.items():
                k = dk(kind_of(v))
                cols[name] = Arr((1,), lambda i, _v=v, _k=k: zk(_v, _k if _k in ("int", "real") else None), k if k != "str" else "str", "row." + name)
            tables.append(Arr((1,), lambda i: z3.IntVal(0), "rec", "row", fields=cols))
        elif isinstance(p, Arr) and p.fields is not None:
            tables.append(p)
        else:
            raise Unsupported("hstack of records with non-records")
    names = list(tables[0].fields)
    out_cols = {}
    for name in names:
        cols = [t.fields[name] for t in tables]
        out_cols[name] = np_hstack(I, [PList(cols)], {})
    total = out_cols[names[0]].shape[0]
    return Arr((total,), lambda i: z3.IntVal(0), "rec", "hstack", fields=out_cols)


@model(np.hstack)
def np_hstack(I, args, kw):
    seq = args[0]
    parts = seq.items if isinstance(seq, PList) else list(seq)
    if any(isinstance(x, RecRow) or (isinstance(x, Arr) and x.fields is not None) for x in parts):
        return rec_concat(I, parts)
    items = [as_arr(I, x) for x in parts]
    if all(x.ndim == 1 for x in items):
        offs = [0]
        for x in items:
            offs.append(I.binop(ast.Add(), offs[-1], x.shape[0] if isinstance(x.shape[0], int) else mk(x.shape[0], "int")))
        dt = "real" if any(x.dtype == "real" for x in items) else items[0].dtype

        def elem(i, _es=[fz(x) for x in items], _offs=offs):
            out = _es[-1](Z(i) - Z(_offs[-2]))
            for k in range(len(_es) - 2, -1, -1):
                out = z3.If(Z(i) < Z(_offs[k + 1]), _es[k](Z(i) - Z(_offs[k])), out)
            return out

        total = offs[-1]
        return Arr((total if isinstance(total, int) else total.e,), elem, dt, "hstack")
    raise Unsupported("hstack of rank > 1")


@model(np.logical_or)
def np_logical_or(I, args, kw):
    a, b = as_arr(I, args[0], allow_scalar=True), as_arr(I, args[1], allow_scalar=True)
    return binop(I, ast.BitOr(), a, b)


@model(np.logical_and)
def np_logical_and(I, args, kw):
    a, b = as_arr(I, args[0], allow_scalar=True), as_arr(I, args[1], allow_scalar=True)
    return binop(I, ast.BitAnd(), a, b)


@model(np.atleast_1d)
def np_atleast_1d(I, args, kw):
    """np.atleast_1d(a) is a itself for an array with at least one axis (audited natively)"""
    a = I.unwrap(args[0])
    if isinstance(a, Arr) and a.ndim >= 1:
        theory.use("T-np.atleast_1d(a) is a when a.ndim >= 1")
        return a
    if isinstance(a, Opaque) and I.lenient:
        return Opaque(f"atleast_1d({a.tag})")
    raise Unsupported("np.atleast_1d of a scalar or unknown value")


@model(np.abs)
def np_abs(I, args, kw):
    a = I.unwrap(args[0])
    if isinstance(a, Arr) and a.dtype in ("int", "real"):
        return Arr(a.shape, lambda *idx, _e=fz(a): z3.If(_e(*idx) >= 0, _e(*idx), -_e(*idx)), a.dtype, a.tag + ".abs")
    if isinstance(a, SV) and a.k in ("int", "real"):
        return mk(z3.If(a.e >= 0, a.e, -a.e), a.k)
    if isinstance(a, (int, float)) and not isinstance(a, bool):
        return abs(a)
    raise Unsupported("np.abs of a non-numeric value")


@model(np.isnan)
def np_isnan(I, args, kw):
    theory.use("T-fp.reals: no NaN in real-modelled arrays")
    a = args[0]
    if isinstance(a, Arr):
        return Arr(a.shape, lambda *idx: z3.BoolVal(False), "bool", "isnan")
    return False


@model(np.issubdtype)
def np_issubdtype(I, args, kw):
    a, b = args
    if I.is_concrete(a) and I.is_concrete(b):
        return bool(np.issubdtype(a, b))
    raise Unsupported("issubdtype on opaque dtype")


def contains(I, arr, x):
    q = [z3.Int(fresh_name("q")) for _ in arr.shape]
    rng = z3.And(*[z3.And(v >= 0, v < Z(s)) for v, s in zip(q, arr.shape)])
    return z3.Exists(q, z3.And(rng, arr.elem(*q) == zk(x, arr.dtype)))
