"""Shared axiom schemas (each is an assumed fact about Python/numpy, audited natively in
pyvc/audits.py)."""
from __future__ import annotations

import z3

from .core import fresh_name

USED_AXIOMS: set = set()


def use(name):
    USED_AXIOMS.add(name)


def mask_select(path, n, pred, tag="sel"):
    """Selection of the indices i in [0,n) with pred(i), in increasing order.

    Returns (m, pos, rank): m = number selected; pos : [0,m) -> [0,n) strictly increasing onto
    {i | pred(i)}; rank(i) = number of selected indices < i (so pos(rank(i)) = i when pred(i)).
    Axioms are added to the path as assumptions.
    """
    use("T-np.mask_select(pos/rank)")
    m = z3.Int(fresh_name(f"{tag}_m"))
    pos = z3.Function(fresh_name(f"{tag}_pos"), z3.IntSort(), z3.IntSort())
    rank = z3.Function(fresh_name(f"{tag}_rank"), z3.IntSort(), z3.IntSort())
    i, j = z3.Ints(f"{fresh_name('i')} {fresh_name('j')}")
    nz = n if z3.is_expr(n) else z3.IntVal(n)
    path.assume(z3.And(m >= 0, m <= nz))
    path.assume(
        z3.ForAll(
            [j],
            z3.Implies(z3.And(j >= 0, j < m), z3.And(pos(j) >= 0, pos(j) < nz, pred(pos(j)), rank(pos(j)) == j)),
            patterns=[pos(j)],
        )
    )
    path.assume(
        z3.ForAll(
            [i],
            z3.Implies(
                z3.And(i >= 0, i < nz),
                z3.And(rank(i) >= 0, rank(i) <= m, z3.Implies(pred(i), z3.And(rank(i) < m, pos(rank(i)) == i))),
            ),
            patterns=[rank(i)],
        )
    )
    # rank is monotone: rank(i+1) = rank(i) + [pred(i)]
    path.assume(rank(0) == 0)
    path.assume(rank(nz) == m)
    path.assume(
        z3.ForAll(
            [i],
            z3.Implies(z3.And(i >= 0, i < nz), rank(i + 1) == rank(i) + z3.If(pred(i), 1, 0)),
            patterns=[rank(i + 1)],
        )
    )
    i2 = z3.Int(fresh_name("i"))
    path.assume(
        z3.ForAll(
            [i, i2],
            z3.Implies(z3.And(i >= 0, i <= i2, i2 <= nz), rank(i) <= rank(i2)),
            patterns=[z3.MultiPattern(rank(i), rank(i2))],
        )
    )
    j2 = z3.Int(fresh_name("j"))
    path.assume(
        z3.ForAll(
            [j, j2],
            z3.Implies(z3.And(j >= 0, j < j2, j2 < m), pos(j) < pos(j2)),
            patterns=[z3.MultiPattern(pos(j), pos(j2))],
        )
    )
    return m, pos, rank
