"""Contract registry, contract base class, loop specifications."""
from __future__ import annotations

import z3

from . import reflect
from .core import BreakSig, ContinueSig, PathEnd, RaiseSig, Unsupported, fresh_name
from .values import SV, Arr, PDict, PList, SDict, SList, mk, snapshot, sym, to_z3, zbool

ALL: list = []
_FINDINGS = None


def _open_findings():
    global _FINDINGS
    if _FINDINGS is None:
        import json
        import os

        path = os.path.join(os.path.dirname(os.path.dirname(os.path.abspath(__file__))), "known_findings.json")
        _FINDINGS = {}
        if os.path.exists(path):
            with open(path) as fh:
                for f in json.load(fh).get("findings", []):
                    if f.get("status", "open") == "open":
                        _FINDINGS[f["id"]] = f
    return _FINDINGS


def register(cls):
    ALL.append(cls)
    return cls


class Ctx:
    """What a contract sees while one path is executed."""

    def __init__(self, path, interp, contract, case):
        self.path = path
        self.I = interp
        self.contract = contract
        self.case = case
        self.env: dict = {}

    def assume(self, cond):
        self.path.assume(zbool(cond))

    def oblige(self, label, goal, kind="post", note="", drop=()):
        name = f"{self.contract.name}/{kind}:{label}"
        ob_goal = zbool(goal)
        self.path.oblige(name, ob_goal, kind=kind, where=self.I.where(), note=note, drop=drop)
        self.path.explorer.obligations[-1].env = self.env
        self.path.explorer.obligations[-1].case = self.case

    def induct(self, label, P, n, lo=0):
        """Induction lemma: obliges P(lo) and P(j) => P(j+1) for lo <= j < n, then assumes
        forall lo <= j <= n. P(j).  (The induction principle itself is the meta-level step.)"""
        j = z3.Int(fresh_name("ind_j"))
        lo_z = lo if z3.is_expr(lo) else z3.IntVal(lo)
        self.oblige(f"{label}:base", P(lo_z), kind="lemma")
        self.oblige(f"{label}:step", z3.Implies(z3.And(j >= lo_z, j < n, P(j)), P(j + 1)), kind="lemma")
        self.assume(z3.ForAll([j], z3.Implies(z3.And(j >= lo_z, j <= n), P(j))))

    def finding_open(self, fid):
        """True when known_findings.json lists `fid` as an open finding: the contract then splits
        the affected obligation into the known failing input class and everything else."""
        return fid in _open_findings()

    def int(self, name, lo=None, hi=None):
        v = sym(name, "int")
        if lo is not None:
            self.assume(v.e >= lo)
        if hi is not None:
            self.assume(v.e <= hi)
        return v


class Contract:
    """Base class.  Subclasses set `target` ('file.py::Class.method') and `props`."""

    target: str = ""
    props: tuple = ()
    loops: dict = {}
    inline = None  # None = inline every uncontracted repo callee; or a set of qualnames
    uses: tuple = ()  # contract classes applied at call sites (modular reasoning)
    native_shards: int = 1  # the native case list is split over this many worker processes
    trusted: tuple = ()  # assumed contracts on callees (not verified in this property)
    assumptions: tuple = ()
    max_paths = 4000

    def __init__(self):
        self.func, self.owner = reflect.resolve(self.target)
        self.func = reflect.unwrap(self.func)
        self.name = self.target.split("::")[1] + (f"[{self.variant}]" if getattr(self, "variant", None) else "")

    # ---- verification of the function itself
    def cases(self):
        yield "default"

    def setup(self, ctx):  # -> (args, kwargs)
        raise NotImplementedError

    def post(self, ctx, result):
        raise NotImplementedError

    def post_raises(self, ctx, sig):
        ctx.oblige(f"no-exception[{sig.exc_class.__name__}@{sig.origin.rsplit(':', 1)[-1] if False else 'x'}]", False, kind="post-exc", note=f"unexpected {sig.exc_class.__name__} at {sig.origin}")

    # ---- use as a callee summary
    def matches(self, func):
        return reflect.unwrap(func) is self.func

    def apply(self, I, args, kwargs):
        raise Unsupported(f"contract {self.name} has no call summary")

    # ---- native side (replay / bounded stand-in / cross-check)
    def native_cases(self, tier, rng):
        return []

    def native_check(self, case):
        """Run the real function on a concrete case; return None if the contract holds,
        else a description of the failure."""
        raise NotImplementedError

    def witness(self, model, env, case):
        """Concrete native case from a solver model (or None)."""
        return None

    def size_terms(self, env):
        return []

    bounded_scope = ""


class Registry:
    def __init__(self, contracts):
        self.contracts = list(contracts)
        self.by_func = {}
        for c in self.contracts:
            self.by_func.setdefault(id(c.func), []).append(c)
        self.active_summaries: set = set()
        self.attr_overrides: dict = {}

    def enable(self, contract_classes):
        self.active_summaries = set(contract_classes)

    def summary_for(self, func):
        func = reflect.unwrap(func)
        for c in self.by_func.get(id(func), []):
            if type(c) in self.active_summaries:
                return c
        return None

    def attr_override(self, obj, name):
        return self.attr_overrides.get((obj.cls if hasattr(obj, "cls") else None, name)) or self.attr_overrides.get((None, name))


# -------------------------------------------------------------------------------------------
# loops
# -------------------------------------------------------------------------------------------


class LoopSpec:
    """Invariant for the `ordinal`-th loop of a function (ordinal counts for/while statements
    in execution order of first encounter inside one activation).

    inv(ctx, st, k) -> list[(label, z3 Bool)]   invariant after k iterations
    havoc(ctx, st, k) -> None                    replace loop-modified state by fresh values
    `st` is a small object: st.frame.locals, st.seq (iterated sequence), st.n (its length).
    """

    def __init__(self, inv, havoc, name="loop"):
        self.inv = inv
        self.havoc = havoc
        self.name = name

    def run_for(self, I, node, frame, it):
        path = I.path
        ctx = I.ctx
        seq = it
        if isinstance(seq, PList):
            seq = SList(len(seq.items), (lambda i, _s=seq: __import__("pyvc.models_py", fromlist=["x"]).index_seq(I, _s, i)), "plist")
        if isinstance(seq, Arr):
            from . import models_np

            seq = SList(seq.shape[0], lambda i, _a=seq: models_np.index_first(I, _a, i), "rows")
        if not isinstance(seq, SList):
            raise Unsupported(f"loop invariant over {type(seq).__name__}")
        n = to_z3(seq.length, "int")
        st = LoopState(frame, seq, n)
        # 1. invariant holds on entry (k = 0)
        for label, f in self.inv(ctx, st, z3.IntVal(0)):
            ctx.oblige(f"{self.name}:{label}", f, kind="inv-init")
        # 2. arbitrary iteration
        k = z3.Int(fresh_name("k"))
        path.cut()
        self.havoc(ctx, st, k)
        path.assume(z3.And(k >= 0, k <= n))
        for label, f in self.inv(ctx, st, k):
            path.assume(zbool(f))
        which = path.choose(2, f"loop-{self.name}")
        if which == 0:
            # exit path: k == n
            path.assume(k == n)
            I.exec_body(node.orelse, frame)
            return
        path.assume(k < n)
        I.assign(node.target, seq.elem(k), frame)
        try:
            I.exec_body(node.body, frame)
        except ContinueSig:
            pass
        except BreakSig:
            return  # continues after the loop from the state at the break
        for label, f in self.inv(ctx, st, k + 1):
            ctx.oblige(f"{self.name}:{label}", f, kind="inv-keep")
        raise PathEnd()


class LoopState:
    def __init__(self, frame, seq, n):
        self.frame = frame
        self.seq = seq
        self.n = n

    def __getitem__(self, name):
        return self.frame.locals[name]

    def __setitem__(self, name, value):
        self.frame.locals[name] = value
