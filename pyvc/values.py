"""Value domain of the symbolic interpreter.

Concrete Python values (int, bool, float, str, None, tuple, classes, functions, enum members,
UUIDs) are represented by themselves.  Symbolic scalars are `SV`.  Containers are small
Python classes with symbolic contents; they are ordinary mutable objects because paths are
explored by re-execution (see core.py).
"""
from __future__ import annotations

import fractions

import z3

from .core import Unsupported, fresh_name

# --------------------------------------------------------------------------------------------
# scalar kinds.  'str' and 'uid' atoms are encoded as integers: every string literal of the
# program gets a distinct concrete code, symbolic strings are integer variables (so a symbolic
# string may coincide with a literal, as it should).  No string theory is used.
# --------------------------------------------------------------------------------------------

_ATOMS: dict = {}
_ATOM_REV: dict = {}


def atom(s):
    """Integer code of a concrete string / bytes / UUID atom."""
    key = (type(s).__name__, s)
    if key not in _ATOMS:
        code = 1000 + len(_ATOMS)
        _ATOMS[key] = code
        _ATOM_REV[code] = s
    return _ATOMS[key]


def atom_rev(code):
    return _ATOM_REV.get(code)


class SV:
    """Typed symbolic scalar: kind in {'int','bool','real','str','uid','bytes'}."""

    __slots__ = ("e", "k")

    def __init__(self, e, k):
        self.e = e
        self.k = k

    def __repr__(self):
        return f"SV<{self.k}>({self.e})"

    def __bool__(self):
        raise Unsupported("implicit bool() of a symbolic value inside the engine")

    def __deepcopy__(self, memo):
        return self


def sym(name, kind):
    name = fresh_name(name)
    if kind == "bool":
        return SV(z3.Bool(name), "bool")
    if kind == "real":
        return SV(z3.Real(name), "real")
    return SV(z3.Int(name), kind)


def is_sym(v):
    return isinstance(v, SV)


def kind_of(v):
    if isinstance(v, SV):
        return v.k
    if isinstance(v, bool):
        return "bool"
    if isinstance(v, int):
        return "int"
    if isinstance(v, (float, fractions.Fraction)):
        return "real"
    if isinstance(v, str):
        return "str"
    if isinstance(v, bytes):
        return "bytes"
    if v is None:
        return "none"
    import uuid

    if isinstance(v, uuid.UUID):
        return "uid"
    return "py"


def to_z3(v, kind=None):
    """z3 term of a scalar value (concrete or symbolic)."""
    if isinstance(v, SV):
        if kind == "real" and v.k in ("int",):
            return z3.ToReal(v.e)
        if kind == "int" and v.k == "bool":
            return z3.If(v.e, 1, 0)
        return v.e
    if isinstance(v, DynV):
        return v.e
    if isinstance(v, bool):
        if kind in ("int",):
            return z3.IntVal(int(v))
        if kind == "real":
            return z3.RealVal(int(v))
        return z3.BoolVal(v)
    if isinstance(v, int):
        if kind == "real":
            return z3.RealVal(v)
        return z3.IntVal(v)
    if isinstance(v, float):
        if v != v or v in (float("inf"), float("-inf")):
            raise Unsupported("non-finite float constant in real arithmetic")
        return z3.RealVal(fractions.Fraction(v))
    if isinstance(v, fractions.Fraction):
        return z3.RealVal(v)
    if isinstance(v, (str, bytes)):
        return z3.IntVal(atom(v))
    import uuid

    if isinstance(v, uuid.UUID):
        return z3.IntVal(atom(v))
    if z3.is_expr(v):
        return v
    raise Unsupported(f"no z3 term for {type(v).__name__}")


def zbool(v):
    """z3 Bool (or python bool) from python bool / z3 expr / SV bool."""
    if isinstance(v, SV):
        return v.e
    return v


def mk(e, kind):
    """Wrap a z3 term; fold constants back to Python values."""
    if isinstance(e, (bool, int, float, str)) or e is None:
        return e
    e = z3.simplify(e)
    if kind == "bool":
        if z3.is_true(e):
            return True
        if z3.is_false(e):
            return False
    elif kind == "int" and z3.is_int_value(e):
        return e.as_long()
    elif kind in ("str", "uid", "bytes") and z3.is_int_value(e):
        back = atom_rev(e.as_long())
        if back is not None and kind_of(back) == kind:
            return back
    return SV(e, kind)


# --------------------------------------------------------------------------------------------
# dynamically typed scalar (universal value) for leaves whose Python type is not fixed by a
# contract: None | bool | int | real | str
# --------------------------------------------------------------------------------------------

_DynSort = None


def dyn_sort():
    global _DynSort
    if _DynSort is None:
        d = z3.Datatype("PyV")
        d.declare("none")
        d.declare("b", ("bval", z3.BoolSort()))
        d.declare("i", ("ival", z3.IntSort()))
        d.declare("r", ("rval", z3.RealSort()))
        d.declare("s", ("sval", z3.IntSort()))
        d.declare("o", ("oval", z3.IntSort()))  # opaque object (dict/list/other), by identity
        _DynSort = d.create()
    return _DynSort


class DynV:
    """Universal scalar; e is a term of sort PyV."""

    __slots__ = ("e",)

    def __init__(self, e):
        self.e = e

    def __repr__(self):
        return f"DynV({self.e})"

    def __bool__(self):
        raise Unsupported("implicit bool() of a dynamic symbolic value")

    def __deepcopy__(self, memo):
        return self


def dyn_from(v):
    """Inject a scalar into PyV."""
    D = dyn_sort()
    if isinstance(v, DynV):
        return v.e
    k = kind_of(v)
    if k == "none":
        return D.none
    if k == "bool":
        return D.b(to_z3(v))
    if k == "int":
        return D.i(to_z3(v))
    if k == "real":
        return D.r(to_z3(v, "real"))
    if k == "str":
        return D.s(to_z3(v))
    raise Unsupported(f"cannot inject {k} into PyV")


# --------------------------------------------------------------------------------------------
# containers
# --------------------------------------------------------------------------------------------


class PList:
    """List/sequence of concrete length (items are Values)."""

    def __init__(self, items=()):
        self.items = list(items)

    def __repr__(self):
        return f"PList({self.items})"


class PKeys(PList):
    """dict.keys() of a concrete-shape dictionary: a PList that also supports the set operators of key views."""


class SList:
    """Sequence of symbolic length.  elem(idx) -> Value for a z3 Int/py int index."""

    def __init__(self, length, elem, tag="seq"):
        self.length = length  # int or z3 Int
        self.elem = elem
        self.tag = tag

    def __repr__(self):
        return f"SList<{self.tag}>(len={self.length})"


class PDict:
    """Dict with concrete (Python-hashable) keys, insertion ordered."""

    def __init__(self, items=None):
        self.items = dict(items or {})

    def __repr__(self):
        return f"PDict({self.items})"


class SDict:
    """Symbolic map.  has(k)->z3 Bool, get(k)->Value.  Optional enumeration
    (n, key_at(i)) of the present keys in insertion order."""

    def __init__(self, kkind, has, get, n=None, key_at=None, tag="map"):
        self.kkind = kkind
        self.has = has
        self.get = get
        self.n = n
        self.key_at = key_at
        self.tag = tag

    def __repr__(self):
        return f"SDict<{self.tag}>"

    def store(self, key, value):
        old_has, old_get = self.has, self.get
        kz = to_z3(key)

        def has(k, _kz=kz, _old=old_has):
            return z3.Or(to_z3(k) == _kz, zbool(_old(k)))

        def get(k, _kz=kz, _old=old_get, _v=value):
            return ite_value(to_z3(k) == _kz, _v, lambda: _old(k))

        self.has, self.get = has, get
        # insertion order of an updated symbolic map is not tracked
        self.n, self.key_at = None, None
        self.enum = None

    def ensure_enum(self, path):
        """Every dict has an injective enumeration of its keys (T-py); the order of a dict
        whose history is not tracked is left unspecified (any order)."""
        if self.n is not None:
            return
        n = z3.Int(fresh_name(self.tag + "_n"))
        key_at = z3.Function(fresh_name(self.tag + "_key"), z3.IntSort(), z3.IntSort())
        idx = z3.Function(fresh_name(self.tag + "_idx"), z3.IntSort(), z3.IntSort())
        i, j, k = z3.Ints(f"{fresh_name('i')} {fresh_name('j')} {fresh_name('k')}")
        has = self.has
        kk = self.kkind
        path.assume(n >= 0)
        path.assume(z3.ForAll([i], z3.Implies(z3.And(i >= 0, i < n), z3.And(zbool(has(mk(key_at(i), kk))), idx(key_at(i)) == i)), patterns=[key_at(i)]))
        path.assume(z3.ForAll([k], z3.Implies(zbool(has(mk(k, kk))), z3.And(idx(k) >= 0, idx(k) < n, key_at(idx(k)) == k)), patterns=[idx(k)]))
        self.n = mk(n, "int")
        self.key_at = lambda i_, _f=key_at, _kk=kk: mk(_f(to_z3(i_, "int")), _kk)
        self.enum = (n, key_at, idx)

    def delete(self, key):
        old_has = self.has
        kz = to_z3(key)

        def has(k, _kz=kz, _old=old_has):
            return z3.And(to_z3(k) != _kz, zbool(_old(k)))

        self.has = has
        self.n, self.key_at = None, None


def promote_dict(pd, kkind):
    """Turn a concrete-key dict into a symbolic map in place (needed when a symbolic key is
    stored into a dict literal such as `parameters = {}`)."""
    items = list(pd.items.items())
    for k, _ in items:
        if kind_of(k) != kkind:
            raise Unsupported("mixed key kinds in a dict that receives a symbolic key")
    pd.__class__ = SDict
    pd.__dict__.clear()

    def has(k, _items=items):
        cs = [to_z3(k) == to_z3(c) for c, _ in _items]
        return z3.Or(*cs) if cs else z3.BoolVal(False)

    def get(k, _items=items):
        if not _items:
            return None  # never selected: has(k) is false for every key of an empty dict
        out = _items[-1][1]
        for c, v in reversed(_items[:-1]):
            out = ite_value(to_z3(k) == to_z3(c), v, lambda o=out: o)
        return out

    SDict.__init__(pd, kkind, has, get, tag="dict")
    if not items:
        pd.n, pd.key_at = 0, (lambda i: None)
    return pd


class Arr:
    """numpy array: concrete rank, symbolic shape, elementwise term function."""

    def __init__(self, shape, elem, dtype, tag="arr", fields=None):
        self.shape = tuple((x.e if isinstance(x, SV) else x) for x in shape)
        self.elem = elem  # elem(*idx) -> z3 term (or python scalar)
        self.dtype = dtype  # 'int' | 'bool' | 'real' | 'uid' | 'rec'
        self.tag = tag
        self.fields = fields  # for structured arrays: {name: Arr (column)}

    @property
    def ndim(self):
        return len(self.shape)

    def __repr__(self):
        return f"Arr<{self.dtype},{self.tag}>{self.shape}"


class Obj:
    """Heap object of a real class (concrete identity)."""

    _ids = 0

    def __init__(self, cls, fields=None, tag=None):
        self.cls = cls
        self.fields = dict(fields or {})
        Obj._ids += 1
        self.oid = Obj._ids
        self.tag = tag or f"{getattr(cls, '__name__', cls)}#{self.oid}"

    def __repr__(self):
        return f"Obj<{self.tag}>"


class WeakRef:
    """weakref.ref(target): calling it yields target or None; `alive` is a z3 Bool chosen
    once per reference (a referent cannot come back)."""

    def __init__(self, target, alive):
        self.target = target
        self.alive = alive


class BoundMethod:
    def __init__(self, func, self_val, owner=None):
        self.func = func
        self.self_val = self_val
        self.owner = owner


class Opaque:
    """Value the engine carries but does not interpret (e.g. the result of an uninterpreted
    library call).  `term` lets equal arguments give equal results."""

    def __init__(self, tag, term=None, cls=None, frozen=False, elem_frozen=False, origin=None):
        self.tag = tag
        self.term = term
        self.cls = cls  # optional real-class hint
        self.frozen = frozen  # mutating this object violates the frame of the current contract
        self.elem_frozen = elem_frozen  # objects obtained from it are frozen (deeply)
        self.origin = origin
        self.attrs: dict = {}
        self.cache: dict = {}

    def __repr__(self):
        return f"Opaque<{self.tag}>"

    def truth_var(self):
        if "truth" not in self.cache:
            self.cache["truth"] = z3.Bool(fresh_name(f"truthy({self.tag})"))
        return self.cache["truth"]

    def none_var(self):
        if "none" not in self.cache:
            self.cache["none"] = z3.Bool(fresh_name(f"isnone({self.tag})"))
        return self.cache["none"]

    def child(self, tag, **kw):
        """Value obtained from this one (attribute, element): inherits deep freezing."""
        return Opaque(tag, frozen=self.elem_frozen, elem_frozen=self.elem_frozen, origin=self, **kw)


# --------------------------------------------------------------------------------------------
# helpers
# --------------------------------------------------------------------------------------------


def ite_value(cond, a, b_thunk):
    """If(cond, a, b) lifted to Values (b lazily computed)."""
    if isinstance(cond, bool):
        return a if cond else b_thunk()
    cond = z3.simplify(cond)
    if z3.is_true(cond):
        return a
    b = b_thunk()
    if z3.is_false(cond):
        return b
    if a is b:
        return a
    ka, kb = kind_of(a), kind_of(b)
    if isinstance(a, DynV) or isinstance(b, DynV) or (ka != kb and {ka, kb} <= {"none", "bool", "int", "real", "str"}):
        return DynV(z3.If(cond, dyn_from(a), dyn_from(b)))
    if isinstance(a, Arr) and isinstance(b, Arr) and a.ndim == b.ndim and a.dtype == b.dtype:
        def pick(x, y):
            if isinstance(x, int) and isinstance(y, int) and x == y:
                return x
            return z3.If(cond, to_z3(x, "int"), to_z3(y, "int"))

        shape = tuple(pick(x, y) for x, y in zip(a.shape, b.shape))
        return Arr(shape, lambda *idx, _ea=a.elem, _eb=b.elem: z3.If(cond, _ea(*idx), _eb(*idx)), a.dtype, f"ite({a.tag},{b.tag})")
    if isinstance(a, WeakRef) and isinstance(b, WeakRef):
        return WeakRef(ite_value(cond, a.target, lambda: b.target), z3.If(cond, zbool(a.alive) if not isinstance(a.alive, bool) else z3.BoolVal(a.alive), zbool(b.alive) if not isinstance(b.alive, bool) else z3.BoolVal(b.alive)))
    if isinstance(a, tuple) and isinstance(b, tuple) and len(a) == len(b):
        return tuple(ite_value(cond, x, lambda y=y: y) for x, y in zip(a, b))
    if isinstance(a, Maybe) or isinstance(b, Maybe) or ((a is None) != (b is None)):
        pa = z3.BoolVal(a is not None) if not isinstance(a, Maybe) else a.present
        pb = z3.BoolVal(b is not None) if not isinstance(b, Maybe) else b.present
        va = a.value if isinstance(a, Maybe) else a
        vb = b.value if isinstance(b, Maybe) else b
        inner = va if vb is None else (vb if va is None else ite_value(cond, va, lambda: vb))
        return maybe(z3.If(cond, pa, pb), inner)
    if {ka, kb} == {"bool", "npbool"}:
        return mk(z3.If(cond, to_z3(a), to_z3(b)), "bool")
    if ka == kb and ka in ("int", "bool", "npbool", "real", "str", "uid", "bytes", "ref"):
        return mk(z3.If(cond, to_z3(a), to_z3(b)), ka)
    if {ka, kb} == {"int", "real"}:
        return mk(z3.If(cond, to_z3(a, "real"), to_z3(b, "real")), "real")
    if {ka, kb} == {"int", "bool"}:
        return mk(z3.If(cond, to_z3(a, "int"), to_z3(b, "int")), "int")
    raise Unsupported(f"cannot merge values of kinds {ka}/{kb} under a symbolic condition")


def snapshot(v, memo=None):
    """Deep copy of the mutable part of a value graph (for old())."""
    if memo is None:
        memo = {}
    if id(v) in memo:
        return memo[id(v)]
    if isinstance(v, PList):
        r = PList()
        memo[id(v)] = r
        r.items = [snapshot(x, memo) for x in v.items]
        return r
    if isinstance(v, PDict):
        r = PDict()
        memo[id(v)] = r
        r.items = {k: snapshot(x, memo) for k, x in v.items.items()}
        return r
    if isinstance(v, SList):
        r = SList(v.length, v.elem, v.tag)
        memo[id(v)] = r
        return r
    if isinstance(v, SDict):
        r = SDict(v.kkind, v.has, v.get, v.n, v.key_at, v.tag)
        memo[id(v)] = r
        return r
    if isinstance(v, Arr):
        r = Arr(v.shape, v.elem, v.dtype, v.tag, None)
        memo[id(v)] = r
        if v.fields is not None:
            r.fields = {k: snapshot(x, memo) for k, x in v.fields.items()}
        return r
    if isinstance(v, Obj):
        r = Obj.__new__(Obj)
        memo[id(v)] = r
        r.cls, r.oid, r.tag = v.cls, v.oid, v.tag
        r.fields = {k: snapshot(x, memo) for k, x in v.fields.items()}
        return r
    if isinstance(v, tuple):
        return tuple(snapshot(x, memo) for x in v)
    return v


class Maybe:
    """`value if present else None` with a symbolic `present` (Optional results: dict.get,
    weak references).  Lets `is None` tests stay branch-free."""

    def __init__(self, present, value):
        self.present = present
        self.value = value

    def __repr__(self):
        return f"Maybe({self.present}, {self.value})"


def maybe(present, value):
    if isinstance(present, bool):
        return value if present else None
    present = z3.simplify(present)
    if z3.is_true(present):
        return value
    if z3.is_false(present):
        return None
    if value is None:
        return None
    if isinstance(value, Maybe):
        return Maybe(z3.And(present, value.present), value.value)
    return Maybe(present, value)


class AbsObj:
    """Abstract collaborator built by a contract: attributes are engine values, methods are
    summaries `fn(I, args, kwargs)`.  `cls` (a real class) answers isinstance."""

    def __init__(self, tag, attrs=None, methods=None, cls=None):
        self.tag = tag
        self.attrs = dict(attrs or {})
        self.methods = dict(methods or {})
        self.cls = cls

    def __repr__(self):
        return f"AbsObj<{self.tag}>"
