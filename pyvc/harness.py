"""Running contracts: exploration, discharge, replay, bounded stand-ins, evidence, verdicts."""
from __future__ import annotations

import json
import multiprocessing as mp
import os
import random
import subprocess
import sys
import tempfile
import time
import traceback

import z3

from . import reflect, theory
from .contracts import Contract, Ctx, Registry
from .core import Explorer, PathEnd, RaiseSig, Unsupported
from .interp import Interp

VERIF = os.path.dirname(os.path.dirname(os.path.abspath(__file__)))

QUICK_TIMEOUT_MS = int(os.environ.get("PYVC_TIMEOUT_MS", "20000"))
THOROUGH_TIMEOUT_MS = 90000


def solve(pc, goal, timeout_ms):
    """Check validity of (pc => goal).  Returns (verdict, model|None, backend, seconds).
    For an undecided obligation `backend` is the trace of the stages tried (solver:answer@seconds)."""
    t0 = time.time()
    g = z3.simplify(goal)
    if z3.is_true(g):
        return "unsat", None, "trivial", 0.0
    trace = []

    def z3_try(budget_ms, seed=0):
        s_ = z3.Solver()
        s_.set("timeout", int(budget_ms))
        if seed:
            s_.set("random_seed", seed)
            s_.set("smt.random_seed", seed)
        s_.add(*pc)
        s_.add(z3.Not(goal))
        t1 = time.time()
        r_ = s_.check()
        trace.append(f"z3[{int(budget_ms / 1000)}s,seed{seed}]:{r_}@{time.time() - t1:.1f}")
        return r_, s_

    def cvc5_try(smt_, budget_ms):
        t1 = time.time()
        v = cvc5_check(smt_, budget_ms)
        trace.append(f"cvc5[{int(budget_ms / 1000)}s]:{v}@{time.time() - t1:.1f}")
        return v

    first = min(timeout_ms, 3000)
    # a short first attempt; obligations z3 does not settle at once go to cvc5 and then back to z3 with the
    # full budget and, if still open, with other random seeds (slow queries are the unstable ones: a retry
    # with another seed settles most of them, and a busy machine only moves work to the later stages)
    r, s = z3_try(first)
    if os.environ.get("PYVC_RSTATS"):
        st = s.statistics()
        print("RSTAT", r, round(time.time() - t0, 3), [st.get_key_value(k) for k in st.keys() if k == "rlimit count"], file=sys.stderr)
    if r == z3.unsat:
        return "unsat", None, "z3", time.time() - t0
    if r == z3.sat:
        return "sat", s.model(), "z3", time.time() - t0
    # z3 undecided within the short budget: cvc5 on the SMT-LIB text, then z3 with the full budget
    smt = s.to_smt2()
    if cvc5_try(smt, timeout_ms) == "unsat":
        return "unsat", None, "cvc5", time.time() - t0
    if timeout_ms > first:
        for seed in (0, 7, 23):
            r, s2 = z3_try(timeout_ms, seed)
            if r == z3.unsat:
                return "unsat", None, "z3", time.time() - t0
            if r == z3.sat:
                return "sat", s2.model(), "z3", time.time() - t0
            if time.time() - t0 > 4 * timeout_ms / 1000:
                break
        # last resort, for a machine whose cores are all busy (budgets are wall-clock): one long attempt per solver
        if cvc5_try(smt, 6 * timeout_ms) == "unsat":
            return "unsat", None, "cvc5", time.time() - t0
        r, s3 = z3_try(4 * timeout_ms)
        if r == z3.unsat:
            return "unsat", None, "z3", time.time() - t0
        if r == z3.sat:
            return "sat", s3.model(), "z3", time.time() - t0
    return "unknown", None, "; ".join(trace), time.time() - t0


def cvc5_check(smt, timeout_ms):
    if not os.path.exists("/usr/bin/cvc5"):
        return "unknown"
    with tempfile.NamedTemporaryFile("w", suffix=".smt2", delete=False) as fh:
        fh.write("(set-logic ALL)\n" + smt)
        name = fh.name
    try:
        out = subprocess.run(
            ["/usr/bin/cvc5", "--tlimit", str(timeout_ms), "--full-saturate-quant", name],
            capture_output=True, text=True, timeout=timeout_ms / 1000 + 5,
        )
        first = (out.stdout.strip().splitlines() or ["unknown"])[0].strip()
        if first in ("sat", "unsat"):
            return first
        return "unknown(" + (first or out.stderr.strip().splitlines()[-1] if (first or out.stderr.strip()) else "no output")[:60] + ")"
    except Exception as exc:
        return f"unknown({type(exc).__name__})"
    finally:
        os.unlink(name)


def minimise(pc, goal, terms, timeout_ms):
    """Smallest model by bounding the sum of size terms."""
    if not terms:
        return None
    total = sum(terms[1:], terms[0])
    for bound in (0, 1, 2, 3, 4, 6, 8, 12):
        s = z3.Solver()
        s.set("timeout", min(timeout_ms, 5000))
        s.add(*pc)
        s.add(z3.Not(goal))
        for t in terms:
            s.add(t >= 0)
        s.add(total <= bound)
        if s.check() == z3.sat:
            return s.model()
    return None


def run_contract_case(contract: Contract, case, registry: Registry, tier, seed):
    """Explore one (contract, case); discharge its obligations.  Returns a result dict."""
    t0 = time.time()
    timeout = QUICK_TIMEOUT_MS if tier == "quick" else THOROUGH_TIMEOUT_MS
    res = {
        "contract": contract.name, "target": contract.target, "case": str(case), "obligations": [],
        "unsupported": None, "where": reflect.where(contract.func), "src_hash": reflect.source_hash(contract.func),
        "notes": [], "paths": 0,
    }
    ex = Explorer(max_paths=contract.max_paths)
    registry.enable(contract.uses)
    registry.attr_overrides = {(None, k): v for k, v in getattr(contract, "attr_overrides", {}).items()}

    def body(path):
        I = Interp(path, registry)
        ctx = Ctx(path, I, contract, case)
        I.ctx = ctx
        I.loop_specs = {(contract.func.__qualname__, k) if not isinstance(k, tuple) else k: v for k, v in contract.loops.items()}
        if contract.inline is not None:
            I.inline_only = set(contract.inline)
        I.lenient = bool(getattr(contract, "lenient", False))
        args, kwargs = contract.setup(ctx)
        # reachability of the precondition (vacuity guard)
        try:
            result = I.call_function(contract.func, args, kwargs, cls_ctx=contract.owner if contract.owner is not None and contract.func.__name__ in getattr(contract.owner, "__dict__", {}) else None, entry=True)
        except RaiseSig as sig:
            contract.post_raises(ctx, sig)
            return f"raise:{sig.exc_class.__name__}"
        contract.post(ctx, result)
        return "return"

    try:
        ex.run(body)
    except Unsupported as u:
        res["unsupported"] = str(u)
        if os.environ.get("PYVC_DEBUG"):
            traceback.print_exc()
    except RecursionError:
        res["unsupported"] = "recursion limit in the symbolic interpreter"
    except (AttributeError, KeyError, TypeError, IndexError, ValueError, z3.Z3Exception, AssertionError, NotImplementedError) as exc:
        # a contract hook or a model met a program shape it does not cover: undecided, never an alarm
        res["unsupported"] = f"engine/contract hook failed on this program shape: {type(exc).__name__}: {exc} | " + " <- ".join(
            f"{fr.name}:{fr.lineno}" for fr in traceback.extract_tb(exc.__traceback__)[-4:]
        )
    res["paths"] = ex.stats["paths"]
    res["ended"] = ex.stats["ended"]
    res["notes"] = [list(n) for n in ex.notes]
    res["explore_s"] = ex.stats.get("explore_s", round(time.time() - t0, 3))
    if res["unsupported"] is None and not any(k for k in ex.stats["ended"] if k != "cut"):
        res["unsupported"] = "vacuous: no path reaches a return or raise (precondition unsatisfiable?)"
    if res["unsupported"]:
        return res
    # discharge (per contract-case budget: once exceeded, remaining obligations get a short timeout,
    # so that a tree on which proofs no longer go through is reported undecided/refuted in bounded time).
    # Only time spent on obligations that were *not* discharged counts against the budget: on a tree where
    # every proof goes through, a slow (busy) machine never shortens anybody's budget.
    budget_s = float(os.environ.get("PYVC_CASE_BUDGET_S", "90" if tier == "quick" else "600"))
    spent = 0.0
    for ob in ex.obligations:
        verdict, model, backend, dt = solve(ob.pc, ob.goal, timeout if spent < budget_s else 2000)
        if verdict != "unsat":
            spent += dt
        entry = {"name": ob.name, "kind": ob.kind, "path": ob.path, "verdict": verdict, "backend": backend, "s": round(dt, 3), "closed": ob.closed, "where": ob.where, "note": ob.note, "size": len(ob.pc)}
        if verdict == "sat":
            env = getattr(ob, "env", {})
            wit = None
            try:
                m2 = minimise(ob.pc, ob.goal, contract.size_terms(env), timeout)
                wit = contract.witness(m2 or model, env, case)
            except Exception as exc:  # witness construction must never fake a verdict
                entry["witness_error"] = f"{type(exc).__name__}: {exc}"
            entry["model"] = model_text(m2 or model if wit is not None else model)
            if wit is not None:
                entry["witness"] = wit
                try:
                    fail = contract.native_check(wit)
                except Exception as exc:
                    fail = None
                    entry["replay_error"] = f"{type(exc).__name__}: {exc}\n{traceback.format_exc(limit=3)}"
                entry["replay"] = "fails" if fail else "passes"
                if fail:
                    entry["replay_detail"] = fail
        res["obligations"].append(entry)
    res["total_s"] = round(time.time() - t0, 3)
    return res


def model_text(model, limit=1500):
    if model is None:
        return None
    s = str(model)
    return s if len(s) <= limit else s[:limit] + " ..."


def run_native(contract: Contract, tier, seed, shard=None):
    """Bounded stand-in / cross-check: real function on enumerated + random small cases.
    `shard` = (k, n): only the cases whose ordinal is k modulo n (the case generator is
    deterministic for a given seed, so the n shards partition the case list)."""
    rng = random.Random(seed)
    out = {"contract": contract.name, "cases": 0, "failures": [], "scope": contract.bounded_scope, "error": None, "samples": []}
    try:
        for ordinal, case in enumerate(contract.native_cases(tier, rng)):
            if shard is not None and ordinal % shard[1] != shard[0]:
                continue
            out["cases"] += 1
            fail = contract.native_check(case)
            if len(out["samples"]) < 2:
                out["samples"].append(repr(case)[:300])
            if fail:
                out["failures"].append({"case": case, "detail": fail})
                if len(out["failures"]) >= 5:
                    break
    except Exception as exc:
        out["error"] = f"{type(exc).__name__}: {exc}\n{traceback.format_exc(limit=6)}"
    return out


def _worker(job):
    kind, module_name, cls_name, case, tier, seed, all_specs = job
    try:
        import importlib

        reflect.ensure_repo_on_path()
        from . import models_np, models_py  # noqa: F401  (register models)

        try:
            from . import models_h5  # noqa: F401
        except ImportError:
            pass
        mod = importlib.import_module(module_name)
        cls = getattr(mod, cls_name)
        contract = cls()
        if kind == "native":
            return ("native", cls_name, run_native(contract, tier, seed, shard=case))
        others = []
        for m2, c2 in all_specs:
            k2 = getattr(importlib.import_module(m2), c2)
            others.append(k2())
        registry = Registry(others)
        r = run_contract_case(contract, case, registry, tier, seed)
        r["axioms"] = sorted(theory.USED_AXIOMS)
        return ("sym", cls_name, r)
    except Exception as exc:
        return ("error", cls_name, f"{type(exc).__name__}: {exc}\n{traceback.format_exc(limit=8)}")


def run_jobs(jobs, procs=None):
    procs = procs or min(16, max(1, len(jobs)))
    if len(jobs) <= 1 or os.environ.get("PYVC_SERIAL"):
        return [_worker(j) for j in jobs]
    ctx = mp.get_context("fork")
    with ctx.Pool(procs, maxtasksperchild=4) as pool:
        return pool.map(_worker, jobs, chunksize=1)
