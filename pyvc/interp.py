"""Symbolic interpreter over the real AST (see DESIGN.md section 2)."""
from __future__ import annotations

import ast
import builtins
import enum
import inspect
import types
import uuid

import z3

from . import reflect
from .core import (
    BreakSig,
    ContinueSig,
    PathEnd,
    RaiseSig,
    ReturnSig,
    Unsupported,
    fresh_name,
)
from .values import (
    SV,
    Arr,
    BoundMethod,
    DynV,
    Obj,
    Opaque,
    PDict,
    PList,
    SDict,
    SList,
    WeakRef,
    AbsObj,
    Maybe,
    maybe,
    dyn_sort,
    ite_value,
    kind_of,
    mk,
    sym,
    to_z3,
    zbool,
)

BOOLK = ("bool", "npbool")
NUMK = ("int", "real", "bool", "npbool")

MODELS: dict = {}  # id(real callable) -> (callable, model)
METHODS: dict = {}  # (value class, method name) -> model
CLASS_MODELS: dict = {}  # real class -> constructor model


def model(*targets):
    def deco(fn):
        for t in targets:
            MODELS[id(t)] = (t, fn)
        return fn

    return deco


def method(cls, *names):
    def deco(fn):
        for n in names:
            METHODS[(cls, n)] = fn
        return fn

    return deco


class Frame:
    def __init__(self, func, locs, cls_ctx=None, self_val=None, depth=0):
        self.func = func
        self.locals = locs
        self.cls_ctx = cls_ctx
        self.self_val = self_val
        self.globals = reflect.unwrap(func).__globals__ if func is not None else {}
        self.depth = depth
        self.loop_ord = 0
        self.qual = getattr(reflect.unwrap(func), "__qualname__", "?") if func else "?"


class SuperProxy:
    def __init__(self, obj, after):
        self.obj = obj
        self.after = after


class Interp:
    def __init__(self, path, registry=None, max_depth=12):
        self.path = path
        self.registry = registry
        self.max_depth = max_depth
        self.cur_line = 0
        self.cur_file = ""
        self.loop_specs: dict = {}  # (qualname, ordinal) -> LoopSpec
        self.lenient = False  # abstract mode: opaque leaves, lazy objects, bounded abstract loops
        self.inline_only = None  # optional set of qualnames allowed to be inlined

    # ------------------------------------------------------------------ utilities
    @property
    def ex(self):
        return self.path.explorer

    def where(self):
        return f"{self.cur_file}:{self.cur_line}"

    def truth(self, v):
        """Python truthiness -> python bool or z3 Bool."""
        if isinstance(v, bool):
            return v
        if v is None:
            return False
        if isinstance(v, SV):
            if v.k in BOOLK:
                return v.e
            if v.k in ("int",):
                return v.e != 0
            if v.k == "real":
                return v.e != 0
            if v.k in ("uid",):
                return True
            if v.k == "ref":
                # the referent of a registry entry is an entity or a type: none of those classes defines
                # __bool__ or __len__ (checked reflectively below), so it is truthy
                from . import theory as _th

                _th.use("T-py.entities are truthy (no __bool__/__len__ on Entity, EntityType, PropertyGroup)")
                return True
            if v.k in ("str", "bytes"):
                return v.e != to_z3("" if v.k == "str" else b"")
            raise Unsupported(f"truth of SV kind {v.k}")
        if isinstance(v, DynV):
            D = dyn_sort()
            e = v.e
            return z3.If(
                D.is_none(e),
                False,
                z3.If(
                    D.is_b(e),
                    D.bval(e),
                    z3.If(
                        D.is_i(e),
                        D.ival(e) != 0,
                        z3.If(D.is_r(e), D.rval(e) != 0, z3.If(D.is_s(e), D.sval(e) != to_z3(""), True)),
                    ),
                ),
            )
        if isinstance(v, Maybe):
            t = self.truth(v.value)
            return z3.And(v.present, zbool(t)) if not isinstance(t, bool) else (v.present if t else False)
        if isinstance(v, (int, float)):
            return v != 0
        if isinstance(v, (str, bytes, tuple, list, dict, frozenset, set)):
            return len(v) > 0
        if isinstance(v, PList):
            return len(v.items) > 0
        if isinstance(v, SList):
            return to_z3(v.length) > 0 if not isinstance(v.length, int) else v.length > 0
        if isinstance(v, PDict):
            return len(v.items) > 0
        if isinstance(v, SDict):
            v.ensure_enum(self.path)
            return to_z3(v.n) > 0 if not isinstance(v.n, int) else v.n > 0
        if isinstance(v, Arr):
            if v.ndim == 0:
                return self.truth(mk(v.elem(), v.dtype))
            raise Unsupported("truth value of an array")
        if isinstance(v, Opaque):
            if v.tag.startswith("h5") or not self.lenient:
                return True
            self.path.assume(z3.Implies(v.none_var(), z3.Not(v.truth_var())))
            return v.truth_var()
        if isinstance(v, AbsObj) and "__truth__" in v.attrs:
            return zbool(v.attrs["__truth__"])
        if isinstance(v, (Obj, WeakRef, BoundMethod, AbsObj)):
            return True
        if isinstance(v, (type, types.FunctionType, types.ModuleType, enum.Enum, uuid.UUID)):
            return True
        if type(v).__name__ == "ArrSet":
            return v.nonempty()
        if type(v).__name__ == "PSet":
            return len(v.items) > 0
        if isinstance(v, (int, float, complex, str, bytes, tuple, list, dict, set, frozenset, range)) or type(v).__module__ in ("numpy", "builtins", "datetime", "pathlib"):
            return bool(v)
        # an engine value without a truth model: never fall back to Python's object truthiness (always True)
        raise Unsupported(f"truth value of {type(v).__name__}")

    def is_none(self, v):
        if v is None:
            return True
        if isinstance(v, Maybe):
            return z3.Not(v.present)
        if isinstance(v, DynV):
            return dyn_sort().is_none(v.e)
        if isinstance(v, Opaque) and self.lenient and not v.tag.startswith("h5") and v.cls is None:
            self.path.assume(z3.Implies(v.none_var(), z3.Not(v.truth_var())))
            return v.none_var()
        return False

    def opaque_bool(self, key, label):
        cache = self.path.ghost.setdefault("opaque_bools", {})
        if key not in cache:
            cache[key] = z3.Bool(fresh_name(label))
        return cache[key]

    def event(self, kind, **payload):
        payload["where"] = self.where()
        self.path.events.append((kind, payload))

    def mutation(self, target, how):
        """Record an in-place mutation of an abstract object."""
        if isinstance(target, Opaque):
            self.event("mutate", target=target.tag, frozen=bool(target.frozen), how=how)

    def unwrap(self, v):
        """Force an Optional value: None or the value (branches on presence)."""
        if isinstance(v, Maybe):
            if self.path.branch(v.present, f"present@{self.cur_line}"):
                return self.unwrap(v.value)
            return None
        return v

    def eq(self, a, b):
        """Python == on Values -> bool / z3 Bool / Arr."""
        from . import models_py as _mp

        if isinstance(a, _mp.ArrSet) or isinstance(b, _mp.ArrSet):
            s_, other = (a, b) if isinstance(a, _mp.ArrSet) else (b, a)
            if (isinstance(other, (frozenset, set)) or type(other).__name__ == "PSet") and len(other) == 0:
                return z3.Not(s_.nonempty())
            raise Unsupported("comparison of a symbolic set with a non-empty set")
        if isinstance(a, Maybe) or isinstance(b, Maybe):
            if isinstance(b, Maybe) and not isinstance(a, Maybe):
                a, b = b, a
            if b is None:
                return z3.Not(a.present)
            if isinstance(b, Maybe):
                inner = self.eq(a.value, b.value)
                return z3.Or(z3.And(z3.Not(a.present), z3.Not(b.present)), z3.And(a.present, b.present, zbool(inner)))
            inner = self.eq(a.value, b)
            return z3.And(a.present, zbool(inner))
        if isinstance(a, Arr) or isinstance(b, Arr):
            from . import models_np

            return models_np.elementwise2(self, a, b, "eq")
        if isinstance(a, Opaque) and isinstance(b, Opaque) and a is not b and getattr(a, "distinct", False) and getattr(b, "distinct", False):
            return False  # distinct entities without __eq__ compare by identity
        if self.lenient and (isinstance(a, Opaque) or isinstance(b, Opaque)):
            if a is b:
                return True
            return self.opaque_bool(("eq", id(a) if isinstance(a, (Opaque, Obj)) else repr(a), id(b) if isinstance(b, (Opaque, Obj)) else repr(b)), "eq?")
        if isinstance(a, DynV) or isinstance(b, DynV):
            from .values import dyn_from

            try:
                return dyn_from(a) == dyn_from(b)
            except Unsupported:
                return False
        # an abstract collaborator that carries its own reference term compares by that term
        # with referents read back from a (symbolic) registry
        refs = [x.attrs["__ref__"] if isinstance(x, AbsObj) and "__ref__" in x.attrs else (x if isinstance(x, SV) and x.k == "ref" else None) for x in (a, b)]
        if (isinstance(a, AbsObj) or isinstance(b, AbsObj)) and refs[0] is not None and refs[1] is not None:
            return to_z3(refs[0]) == to_z3(refs[1])
        ka, kb = kind_of(a), kind_of(b)
        if ka == "none" or kb == "none":
            return ka == kb
        if isinstance(a, SV) or isinstance(b, SV):
            if ka in NUMK and kb in NUMK:
                if "real" in (ka, kb):
                    return to_z3(a, "real") == to_z3(b, "real")
                if ka in BOOLK and kb in BOOLK:
                    return to_z3(a) == to_z3(b)
                return to_z3(a, "int") == to_z3(b, "int")
            if ka == kb:
                return to_z3(a) == to_z3(b)
            if ka == "py" or kb == "py":
                return False
            return False
        if isinstance(a, tuple) and isinstance(b, tuple):
            if len(a) != len(b):
                return False
            return self.and_all([self.eq(x, y) for x, y in zip(a, b)])
        if isinstance(a, (Obj, PList, PDict, SList, SDict)) or isinstance(b, (Obj, PList, PDict, SList, SDict)):
            if isinstance(a, PList) and isinstance(b, PList):
                if len(a.items) != len(b.items):
                    return False
                return self.and_all([self.eq(x, y) for x, y in zip(a.items, b.items)])
            if isinstance(a, PList) and isinstance(b, (list, tuple)) and not isinstance(b, tuple):
                return self.eq(a, PList(list(b)))
            return a is b
        try:
            return bool(a == b)
        except Exception as exc:  # pragma: no cover
            raise Unsupported(f"== on {type(a).__name__}/{type(b).__name__}: {exc}")

    def and_all(self, conds):
        out = []
        for c in conds:
            if isinstance(c, bool):
                if not c:
                    return False
                continue
            out.append(zbool(c))
        if not out:
            return True
        return z3.And(*out) if len(out) > 1 else out[0]

    def or_all(self, conds):
        out = []
        for c in conds:
            if isinstance(c, bool):
                if c:
                    return True
                continue
            out.append(zbool(c))
        if not out:
            return False
        return z3.Or(*out) if len(out) > 1 else out[0]

    def neg(self, c):
        if isinstance(c, bool):
            return not c
        return z3.Not(zbool(c))

    def raise_(self, exc_class, origin=None):
        raise RaiseSig(exc_class, origin or self.where())

    # ------------------------------------------------------------------ calls
    def call_function(self, func, args, kwargs, cls_ctx=None, self_val=None, depth=0, entry=False):
        """Symbolically execute the body of a real repo function."""
        func = reflect.unwrap(func)
        node = reflect.funcdef_of(func)
        if depth > self.max_depth:
            raise Unsupported(f"inline depth exceeded at {func.__qualname__}")
        locs = self.bind_args(func, node, args, kwargs)
        if cls_ctx is None and "." in func.__qualname__ and args:
            first = args[0]
            if isinstance(first, Obj) and inspect.isclass(first.cls):
                name = func.__name__
                for k in first.cls.__mro__:
                    cand = k.__dict__.get(name)
                    if isinstance(cand, property):
                        cand = [f for f in (cand.fget, cand.fset, cand.fdel) if f is not None and reflect.unwrap(f) is func]
                        cand = cand[0] if cand else None
                    if cand is not None and reflect.unwrap(cand) is func:
                        cls_ctx = k
                        break
            elif inspect.isclass(first):
                for k in first.__mro__:
                    cand = k.__dict__.get(func.__name__)
                    if cand is not None and reflect.unwrap(cand) is func:
                        cls_ctx = k
                        break
        frame = Frame(func, locs, cls_ctx, args[0] if args else None, depth)
        saved = (self.cur_file, self.cur_line)
        self.cur_file = reflect.where(func).rsplit(":", 1)[0]
        if not entry:
            self.ex.note("inlined", f"{func.__qualname__} ({reflect.where(func)})")
        try:
            self.exec_body(node.body, frame)
            result = None
        except ReturnSig as r:
            result = r.value
        finally:
            self.cur_file, self.cur_line = saved
        return result

    def bind_args(self, func, node, args, kwargs):
        a = node.args
        params = [p.arg for p in a.posonlyargs + a.args]
        locs = {}
        args = list(args)
        kwargs = dict(kwargs)
        for name in params:
            if args:
                locs[name] = args.pop(0)
            elif name in kwargs:
                locs[name] = kwargs.pop(name)
        if a.vararg is not None:
            locs[a.vararg.arg] = tuple(args)
            args = []
        if args:
            raise Unsupported(f"too many positional arguments for {func.__qualname__}")
        defaults = func.__defaults__ or ()
        for name, dv in zip(params[len(params) - len(defaults):], defaults):
            if name not in locs:
                locs[name] = self.lift_const(dv)
        for p in a.kwonlyargs:
            if p.arg in kwargs:
                locs[p.arg] = kwargs.pop(p.arg)
            elif func.__kwdefaults__ and p.arg in func.__kwdefaults__:
                locs[p.arg] = self.lift_const(func.__kwdefaults__[p.arg])
        if a.kwarg is not None:
            locs[a.kwarg.arg] = PDict(kwargs)
            kwargs = {}
        if kwargs:
            raise Unsupported(f"unexpected keyword arguments {list(kwargs)} for {func.__qualname__}")
        for name in params:
            if name not in locs:
                raise Unsupported(f"missing argument {name} for {func.__qualname__}")
        return locs

    def lift_const(self, v):
        """Concrete Python default / global -> engine value."""
        if isinstance(v, list):
            return PList([self.lift_const(x) for x in v])
        if isinstance(v, dict):
            return PDict({k: self.lift_const(x) for k, x in v.items()})
        return v

    def call(self, f, args, kwargs, frame):
        """Call an engine-level callable value."""
        f = self.unwrap(f)
        if f is None:
            self.raise_(TypeError)
        if isinstance(f, WeakRef):
            return maybe(f.alive, f.target)
        if isinstance(f, Opaque):
            if self.lenient:
                if getattr(f, "maybe_method", None) is not None:
                    return f.maybe_method(self, args, kwargs)
                return Opaque(f"{f.tag}()")
            raise Unsupported(f"call of opaque value {f.tag}")
        if isinstance(f, BoundMethod):
            if f.self_val is not None or f.owner is not None:
                return self.call_real(f.func, [f.self_val] + list(args), kwargs, frame, cls_ctx=f.owner)
            return self.call_real(f.func, list(args), kwargs, frame, cls_ctx=f.owner)
        if isinstance(f, EngineCallable):
            return f.fn(self, args, kwargs)
        return self.call_real(f, list(args), kwargs, frame)

    def call_real(self, f, args, kwargs, frame, cls_ctx=None):
        key = id(f)
        if key in MODELS and MODELS[key][0] is f:
            try:
                return MODELS[key][1](self, args, kwargs)
            except Unsupported:
                if self.lenient:
                    self.ex.note("opaque-call", f"{getattr(f, '__module__', '')}.{getattr(f, '__name__', 'model')} (model not applicable to these arguments)")
                    return self.opaque_result(f"{getattr(f, '__name__', 'model')}()", list(args) + list(kwargs.values()))
                raise
        if isinstance(f, types.MethodType):
            # bound method of a concrete real object (classmethod, module-level instance...)
            inner = f.__func__
            if id(inner) in MODELS and MODELS[id(inner)][0] is inner:
                return MODELS[id(inner)][1](self, [f.__self__] + args, kwargs)
            if reflect.is_repo_function(inner):
                return self.call_repo(inner, [f.__self__] + args, kwargs, frame, cls_ctx)
        if inspect.isclass(f):
            return self.construct(f, args, kwargs, frame)
        if reflect.is_repo_function(f):
            return self.call_repo(f, args, kwargs, frame, cls_ctx)
        name = getattr(f, "__qualname__", getattr(f, "__name__", repr(f)))
        mod = getattr(f, "__module__", "") or ""
        # pure numeric library functions on concrete arguments are evaluated natively
        import numpy as _np

        if (isinstance(f, _np.ufunc) or mod.split(".")[0] in ("numpy", "math")) and all(self.is_concrete(a) and not isinstance(a, (PList, PDict)) for a in list(args) + list(kwargs.values())):
            try:
                out = f(*args, **kwargs)
            except Exception as exc:
                self.raise_(type(exc))
            if isinstance(out, _np.generic):
                out = out.item()
            return out
        if self.lenient:
            self.ex.note("opaque-call", f"{mod}.{name}")
            return self.opaque_result(f"{mod}.{name}()", list(args) + list(kwargs.values()))
        raise Unsupported(f"call to unmodelled callable {mod}.{name}")

    def has_opaque(self, vals):
        for v in vals:
            if isinstance(v, Opaque):
                return True
            if isinstance(v, (tuple, list)) and self.has_opaque(v):
                return True
            if isinstance(v, PList) and self.has_opaque(v.items):
                return True
        return False

    def opaque_result(self, tag, inputs):
        ef = any(isinstance(x, Opaque) and x.elem_frozen for x in inputs)
        return Opaque(tag, frozen=False, elem_frozen=False if not ef else False)

    def call_repo(self, f, args, kwargs, frame, cls_ctx=None):
        f = reflect.unwrap(f)
        if self.registry is not None:
            c = self.registry.summary_for(f)
            if c is not None:
                return c.apply(self, args, kwargs)
        if self.inline_only is not None and f.__qualname__ not in self.inline_only:
            raise Unsupported(f"callee {f.__qualname__} has no contract and is not in the inline list")
        return self.call_function(f, args, kwargs, cls_ctx=cls_ctx, depth=(frame.depth + 1 if frame else 1))

    def construct(self, cls, args, kwargs, frame):
        if cls in CLASS_MODELS:
            return CLASS_MODELS[cls](self, args, kwargs)
        if isinstance(cls, type) and issubclass(cls, BaseException):
            return Obj(cls, {"args": tuple(args)}, tag=f"exc:{cls.__name__}")
        if reflect.is_repo_function(getattr(cls, "__init__", None)):
            if self.registry is not None:
                c = self.registry.summary_for(cls.__init__)
                if c is not None:
                    obj = Obj(cls)
                    c.apply(self, [obj] + list(args), kwargs)
                    return obj
            obj = Obj(cls)
            self.call_repo(cls.__init__, [obj] + list(args), kwargs, frame, cls_ctx=reflect.defining_class(cls, "__init__"))
            return obj
        if self.lenient:
            self.ex.note("opaque-call", f"{cls.__module__}.{cls.__qualname__}(...)")
            hook = getattr(getattr(self, "ctx", None), "env", {}).get("construct_hook") if getattr(self, "ctx", None) is not None else None
            if hook is not None:
                out = hook(self, cls, list(args), dict(kwargs))
                if out is not None:
                    return out
            self.event("construct", cls=cls.__qualname__, args=list(args), kwargs=dict(kwargs))
            return Opaque(f"{cls.__qualname__}()", cls=None)
        raise Unsupported(f"construction of unmodelled class {cls.__module__}.{cls.__qualname__}")

    # ------------------------------------------------------------------ attribute access
    def getattr(self, v, name, frame=None):
        v = self.unwrap(v)
        if v is None:
            self.raise_(AttributeError, f"{self.where()} None.{name}")
        if isinstance(v, SuperProxy):
            mro = v.obj.cls.__mro__ if isinstance(v.obj, (Obj, Opaque, AbsObj)) else v.obj.__mro__
            idx = mro.index(v.after)
            for k in mro[idx + 1:]:
                if name in k.__dict__:
                    raw = k.__dict__[name]
                    if isinstance(raw, property):
                        return self.call_repo(raw.fget, [v.obj], {}, frame, cls_ctx=k)
                    if isinstance(raw, classmethod):
                        return BoundMethod(raw.__func__, v.obj if not isinstance(v.obj, (Obj, Opaque, AbsObj)) else v.obj.cls, k)
                    if isinstance(raw, staticmethod):
                        return raw.__func__
                    if isinstance(raw, types.FunctionType):
                        return BoundMethod(raw, v.obj, k)
                    return self.lift_const(raw)
            raise Unsupported(f"super().{name} not found")
        if isinstance(v, Obj):
            return self.getattr_obj(v, name, frame)
        if isinstance(v, AbsObj):
            if name in getattr(v, "getters", {}):  # computed attribute (a getter with effects)
                return v.getters[name](self)
            if name in v.attrs:
                return v.attrs[name]
            if name in v.methods:
                return EngineCallable(lambda interp, a, kw, _m=v.methods[name]: _m(interp, a, kw), f"{v.tag}.{name}")
            if name == "__class__" and v.cls is not None:
                return v.cls
            if getattr(v, "is_class", False) and inspect.isclass(v.cls):
                # a stand-in for the class itself (the `cls` of a classmethod): helpers defined on the real
                # class are found there, so extracting a private helper does not change the outcome
                for k in v.cls.__mro__:
                    if name in k.__dict__:
                        raw = k.__dict__[name]
                        if isinstance(raw, staticmethod):
                            return raw.__func__
                        if isinstance(raw, classmethod):
                            return BoundMethod(raw.__func__, v, k)
                        if isinstance(raw, types.FunctionType):
                            return raw
                        if not isinstance(raw, property):
                            return self.lift_const(raw)
                        break
            self.raise_(AttributeError, f"{self.where()} {v.tag}.{name}")
        if isinstance(v, Opaque) and self.lenient and not v.tag.startswith("h5"):
            return self.getattr_opaque(v, name, frame)
        if hasattr(v, "guard"):
            v.guard(self)
        key = None
        for k in type(v).__mro__:
            if (k, name) in METHODS:
                key = (k, name)
                break
        if key is not None:
            fn = METHODS[key]
            if getattr(fn, "is_property", False):
                return fn(self, v)
            def _call(interp, a, kw, _fn=fn, _v=v, _n=name):
                try:
                    return _fn(interp, _v, *a, **kw)
                except Unsupported:
                    if interp.lenient and interp.has_opaque(list(a) + list(kw.values())):
                        return Opaque(f"{type(_v).__name__}.{_n}()")
                    raise

            return EngineCallable(_call, f"{type(v).__name__}.{name}")
        if isinstance(v, (SV, DynV, PList, SList, PDict, SDict, Arr, Opaque, WeakRef)):
            raise Unsupported(f"attribute {name} of {type(v).__name__}")
        # concrete python object (module, class, enum member, uuid, str ...)
        try:
            if inspect.isclass(v):
                raw = inspect.getattr_static(v, name)
                if isinstance(raw, classmethod):
                    return BoundMethod(raw.__func__, v, reflect.defining_class(v, name))
                if isinstance(raw, staticmethod):
                    return raw.__func__
                if isinstance(raw, property):
                    return raw
            got = getattr(v, name)
        except AttributeError:
            self.raise_(AttributeError)
        if isinstance(got, types.MethodType) and not inspect.isclass(v) and not isinstance(v, types.ModuleType):
            recv = got.__self__
            return EngineCallable(
                lambda interp, a, kw, _g=got: interp.call_concrete_method(_g, a, kw), f"{type(recv).__name__}.{name}"
            )
        if isinstance(got, (types.BuiltinMethodType, types.MethodWrapperType)) and not isinstance(v, types.ModuleType):
            return EngineCallable(
                lambda interp, a, kw, _g=got: interp.call_concrete_method(_g, a, kw), f"{type(v).__name__}.{name}"
            )
        return self.lift_const(got) if isinstance(got, (list, dict)) and isinstance(v, types.ModuleType) else got

    MUTATORS = frozenset("append extend insert remove pop clear update setdefault popitem sort reverse add discard __setitem__ __delitem__".split())

    def getattr_opaque(self, v, name, frame):
        if name in v.attrs:
            return v.attrs[name]
        cls = v.cls
        if cls is not None and inspect.isclass(cls):
            raw, owner = None, None
            for k in cls.__mro__:
                if name in k.__dict__:
                    raw, owner = k.__dict__[name], k
                    break
            if isinstance(raw, property) and raw.fget is not None and reflect.is_repo_function(raw.fget):
                if self.registry is not None:
                    ov = self.registry.attr_override(v, name)  # a contract's summary of that getter
                    if ov is not None:
                        return ov(self, v)
                return self.call_repo(raw.fget, [v], {}, frame, cls_ctx=owner)
            if isinstance(raw, types.FunctionType) and reflect.is_repo_function(raw):
                return BoundMethod(raw, v, owner)
            if isinstance(raw, classmethod):
                return BoundMethod(raw.__func__, cls, owner)
            if isinstance(raw, staticmethod):
                return raw.__func__
            if raw is not None and not callable(raw) and not isinstance(raw, property):
                return self.lift_const(raw)
        # data attribute (lazily materialised) or a method of an unknown object
        def method_call(interp, a, kw, _v=v, _n=name):
            if _n in Interp.MUTATORS:
                interp.mutation(_v, _n)
                return Opaque(f"{_v.tag}.{_n}()", frozen=_v.elem_frozen, elem_frozen=_v.elem_frozen)
            if _n in ("copy", "keys", "values", "items"):
                # shallow: a new container holding the same elements
                return Opaque(f"{_v.tag}.{_n}()", frozen=False, elem_frozen=_v.elem_frozen, origin=_v)
            if _n == "get":
                return _v.child(f"{_v.tag}.get()")
            interp.ex.note("opaque-call", f"<{_v.tag}>.{_n}")
            return Opaque(f"{_v.tag}.{_n}()", frozen=False, elem_frozen=_v.elem_frozen)

        if name in Interp.MUTATORS or name in ("copy", "keys", "values", "items", "get"):
            return EngineCallable(method_call, f"{v.tag}.{name}")
        child = v.child(f"{v.tag}.{name}")
        child.maybe_method = method_call
        v.attrs[name] = child
        return child

    def call_concrete_method(self, bound, args, kwargs):
        """Method of a concrete Python value with concrete arguments (str.replace, dict.get on
        class-level constants, ...) is evaluated natively."""
        if all(self.is_concrete(a) for a in args) and all(self.is_concrete(a) for a in kwargs.values()):
            try:
                return self.lift_const(bound(*[self.lower(a) for a in args], **{k: self.lower(a) for k, a in kwargs.items()}))
            except Exception as exc:
                self.raise_(type(exc))
        recv = getattr(bound, "__self__", None)
        if isinstance(recv, dict) and bound.__name__ == "get":
            return METHODS[(PDict, "get")](self, PDict(recv), *args, **kwargs)
        if isinstance(recv, (str, bytes)):
            from . import models_py

            return models_py.str_method(self, recv, bound.__name__, args, kwargs)
        raise Unsupported(f"concrete method {getattr(bound, '__qualname__', bound)} with symbolic arguments")

    def is_concrete(self, v):
        if isinstance(v, (SV, DynV, SList, SDict, Arr, Obj, Opaque, WeakRef, BoundMethod)):
            return False
        if isinstance(v, PList):
            return all(self.is_concrete(x) for x in v.items)
        if isinstance(v, PDict):
            return all(self.is_concrete(x) for x in v.items.values())
        if isinstance(v, tuple):
            return all(self.is_concrete(x) for x in v)
        return True

    def lower(self, v):
        if isinstance(v, PList):
            return [self.lower(x) for x in v.items]
        if isinstance(v, PDict):
            return {k: self.lower(x) for k, x in v.items.items()}
        if isinstance(v, tuple):
            return tuple(self.lower(x) for x in v)
        return v

    def getattr_obj(self, obj, name, frame):
        cls = obj.cls
        raw = None
        owner = None
        if inspect.isclass(cls):
            for k in cls.__mro__:
                if name in k.__dict__:
                    raw = k.__dict__[name]
                    owner = k
                    break
        if isinstance(raw, property):
            if self.registry is not None:
                ov = self.registry.attr_override(obj, name)
                if ov is not None:
                    return ov(self, obj)
            if raw.fget is None:
                self.raise_(AttributeError)
            return self.call_repo(raw.fget, [obj], {}, frame, cls_ctx=owner)
        if name in obj.fields:
            return obj.fields[name]
        if raw is None:
            if name == "__class__":
                return cls
            if name == "__dict__":
                return PDict(obj.fields)
            self.raise_(AttributeError, f"{self.where()} .{name}")
        if isinstance(raw, types.FunctionType):
            return BoundMethod(raw, obj, owner)
        if isinstance(raw, classmethod):
            return BoundMethod(raw.__func__, cls, owner)
        if isinstance(raw, staticmethod):
            return raw.__func__
        return self.lift_const(raw)

    def setattr(self, obj, name, value, frame):
        if isinstance(obj, Obj):
            raw = None
            owner = None
            if inspect.isclass(obj.cls):
                for k in obj.cls.__mro__:
                    if name in k.__dict__:
                        raw = k.__dict__[name]
                        owner = k
                        break
            if isinstance(raw, property):
                if raw.fset is None:
                    self.raise_(AttributeError)
                self.call_repo(raw.fset, [obj, value], {}, frame, cls_ctx=owner)
                return
            obj.fields[name] = value
            return
        if isinstance(obj, Opaque) and self.lenient:
            cls = obj.cls
            if cls is not None and inspect.isclass(cls):
                for k in cls.__mro__:
                    raw = k.__dict__.get(name)
                    if isinstance(raw, property):
                        if raw.fset is None:
                            self.raise_(AttributeError)
                        self.call_repo(raw.fset, [obj, value], {}, frame, cls_ctx=k)
                        return
                    if raw is not None:
                        break
            self.event("setattr", target=obj.tag, name=name, frozen=bool(obj.frozen), value_tag=str(getattr(value, "tag", "")))
            obj.attrs[name] = value
            return
        if isinstance(obj, AbsObj):
            if "__setattr__" in obj.methods:
                obj.methods["__setattr__"](self, [name, value], {})
            else:
                obj.attrs[name] = value
            return
        raise Unsupported(f"attribute store on {type(obj).__name__}")

    # ------------------------------------------------------------------ statements
    def exec_body(self, stmts, frame):
        for s in stmts:
            self.exec_stmt(s, frame)

    def exec_stmt(self, node, frame):
        self.cur_line = getattr(node, "lineno", self.cur_line)
        m = getattr(self, "st_" + type(node).__name__, None)
        if m is None:
            raise Unsupported(f"statement {type(node).__name__} at {self.where()}")
        return m(node, frame)

    def st_Expr(self, node, frame):
        if isinstance(node.value, ast.Constant):
            return  # docstring (dropped)
        self.ev(node.value, frame)

    def st_Pass(self, node, frame):
        return

    def st_Import(self, node, frame):
        import importlib

        for a in node.names:
            mod = importlib.import_module(a.name)
            frame.locals[a.asname or a.name.split(".")[0]] = mod if a.asname else importlib.import_module(a.name.split(".")[0])

    def st_ImportFrom(self, node, frame):
        import importlib

        base = frame.globals.get("__package__") or frame.globals.get("__name__", "").rpartition(".")[0]
        modname = ("." * node.level) + (node.module or "")
        mod = importlib.import_module(modname, base) if node.level else importlib.import_module(node.module)
        for a in node.names:
            frame.locals[a.asname or a.name] = getattr(mod, a.name)

    def st_Return(self, node, frame):
        raise ReturnSig(self.ev(node.value, frame) if node.value is not None else None)

    def st_Raise(self, node, frame):
        if node.exc is None:
            cur = frame.locals.get("$exc")
            if cur is None:
                raise Unsupported("bare raise outside handler")
            raise RaiseSig(cur, self.where())
        exc = node.exc
        cls = None
        if isinstance(exc, ast.Call):
            cls = self.ev(exc.func, frame)
            # message arguments are dropped (only evaluated when trivially pure)
            if not (inspect.isclass(cls) and issubclass(cls, BaseException)):
                v = self.call(cls, [self.ev(a, frame) for a in exc.args], {}, frame)
                cls = v.cls if isinstance(v, (Obj, AbsObj)) else v
        else:
            v = self.ev(exc, frame)
            cls = v.cls if isinstance(v, (Obj, AbsObj)) else v
        if not (inspect.isclass(cls) and issubclass(cls, BaseException)):
            raise Unsupported(f"raise of non-exception {cls}")
        raise RaiseSig(cls, self.where())

    def st_Assert(self, node, frame):
        c = self.truth(self.ev(node.test, frame))
        if not self.path.branch(zbool(c), f"assert@{self.cur_line}"):
            self.raise_(AssertionError)

    def st_Assign(self, node, frame):
        v = self.ev(node.value, frame)
        for t in node.targets:
            self.assign(t, v, frame)

    def st_AnnAssign(self, node, frame):
        if node.value is not None:
            self.assign(node.target, self.ev(node.value, frame), frame)

    def st_AugAssign(self, node, frame):
        from . import models_np

        tgt = node.target
        if isinstance(tgt, ast.Name):
            cur = self.lookup(tgt.id, frame)
            rhs = self.ev(node.value, frame)
            if isinstance(cur, Arr):
                new = models_np.binop(self, node.op, cur, rhs)
                # in-place on the same array object
                cur.shape, cur.elem, cur.dtype = new.shape, new.elem, new.dtype
                return
            if isinstance(cur, PList) and isinstance(node.op, ast.Add):
                cur.items.extend(self.iter_concrete(rhs))
                return
            frame.locals[tgt.id] = self.binop(node.op, cur, rhs)
            return
        if isinstance(tgt, ast.Attribute):
            obj = self.ev(tgt.value, frame)
            cur = self.getattr(obj, tgt.attr, frame)
            rhs = self.ev(node.value, frame)
            self.setattr(obj, tgt.attr, self.binop(node.op, cur, rhs), frame)
            return
        if isinstance(tgt, ast.Subscript):
            base = self.ev(tgt.value, frame)
            idx = self.ev_index(tgt.slice, frame)
            cur = self.getitem(base, idx)
            rhs = self.ev(node.value, frame)
            self.setitem(base, idx, self.binop(node.op, cur, rhs))
            return
        raise Unsupported("augmented assignment target")

    def st_Delete(self, node, frame):
        for t in node.targets:
            if isinstance(t, ast.Subscript):
                base = self.ev(t.value, frame)
                idx = self.ev_index(t.slice, frame)
                self.delitem(base, idx)
            elif isinstance(t, ast.Name):
                frame.locals.pop(t.id, None)
            else:
                raise Unsupported("del target")

    def st_If(self, node, frame):
        c = self.truth(self.ev(node.test, frame))
        if self.path.branch(zbool(c), f"if@{self.cur_line}"):
            self.exec_body(node.body, frame)
        else:
            self.exec_body(node.orelse, frame)

    def st_Break(self, node, frame):
        raise BreakSig()

    def st_Continue(self, node, frame):
        raise ContinueSig()

    def st_Global(self, node, frame):
        raise Unsupported("global statement")

    def st_FunctionDef(self, node, frame):
        raise Unsupported("nested function definition")

    def st_With(self, node, frame):
        from . import models_py

        return models_py.exec_with(self, node, frame)

    def st_Try(self, node, frame):
        def run_final():
            if node.finalbody:
                self.exec_body(node.finalbody, frame)

        try:
            self.exec_body(node.body, frame)
        except RaiseSig as sig:
            for h in node.handlers:
                if self.handler_matches(h, sig, frame):
                    if h.name:
                        frame.locals[h.name] = Obj(sig.exc_class, {}, tag=f"exc:{sig.exc_class.__name__}")
                    saved = frame.locals.get("$exc")
                    frame.locals["$exc"] = sig.exc_class
                    try:
                        self.exec_body(h.body, frame)
                    except BaseException:
                        run_final()
                        raise
                    finally:
                        frame.locals["$exc"] = saved
                    run_final()
                    return
            run_final()
            raise
        except (ReturnSig, BreakSig, ContinueSig):
            run_final()
            raise
        else:
            try:
                self.exec_body(node.orelse, frame)
            except BaseException:
                run_final()
                raise
            run_final()

    def handler_matches(self, h, sig, frame):
        if h.type is None:
            return True
        t = self.ev(h.type, frame)
        classes = t if isinstance(t, tuple) else (t,)
        return any(inspect.isclass(c) and issubclass(sig.exc_class, c) for c in classes)

    # ---- loops
    def st_While(self, node, frame):
        frame.loop_ord += 1
        spec = self.loop_specs.get((frame.qual, frame.loop_ord))
        if spec is not None:
            return spec.run_while(self, node, frame)
        n = 0
        while True:
            c = self.truth(self.ev(node.test, frame))
            if not self.path.branch(zbool(c), f"while@{node.lineno}"):
                self.exec_body(node.orelse, frame)
                return
            n += 1
            if n > 64:
                raise Unsupported(f"while loop without invariant not bounded at {self.where()}")
            try:
                self.exec_body(node.body, frame)
            except BreakSig:
                return
            except ContinueSig:
                continue

    def st_For(self, node, frame):
        frame.loop_ord += 1
        ordinal = frame.loop_ord
        spec = self.loop_specs.get((frame.qual, ordinal))
        it = self.ev(node.iter, frame)
        if spec is not None:
            return spec.run_for(self, node, frame, it)
        items = self.iter_concrete(it, live=True)
        i = 0
        while True:
            # Python iterates a list by index against its live length
            if isinstance(items, PList):
                if i >= len(items.items):
                    break
                x = items.items[i]
            else:
                if i >= len(items):
                    break
                x = items[i]
            i += 1
            self.assign(node.target, x, frame)
            try:
                self.exec_body(node.body, frame)
            except BreakSig:
                return
            except ContinueSig:
                continue
        self.exec_body(node.orelse, frame)

    def iter_concrete(self, it, live=False):
        """Materialise an iterable of concrete length."""
        if isinstance(it, PList):
            return it if live else list(it.items)
        if isinstance(it, (tuple, list)):
            return list(it)
        if isinstance(it, PDict):
            return list(it.items.keys())
        if isinstance(it, range):
            return list(it)
        if isinstance(it, (dict,)):
            return list(it.keys())
        if isinstance(it, (set, frozenset)):
            return sorted(it, key=repr)
        if isinstance(it, SList):
            if isinstance(it.length, int):
                return [it.elem(i) for i in range(it.length)]
            raise Unsupported(f"iteration over a sequence of symbolic length without invariant at {self.where()}")
        if isinstance(it, Arr):
            if it.ndim >= 1 and isinstance(it.shape[0], int):
                from . import models_np

                return [models_np.index_first(self, it, i) for i in range(it.shape[0])]
            raise Unsupported(f"iteration over an array of symbolic length without invariant at {self.where()}")
        if isinstance(it, SDict):
            it.ensure_enum(self.path)
            if isinstance(it.n, int):
                return [it.key_at(i) for i in range(it.n)]
            raise Unsupported(f"iteration over a symbolic map without invariant at {self.where()}")
        if isinstance(it, str):
            return list(it)
        if inspect.isclass(it) and issubclass(it, enum.Enum):
            return list(it)
        from . import models_h5 as _h5

        if isinstance(it, _h5.H5Node):
            return _h5.members(self, it)
        if isinstance(it, (SV, DynV)) and self.lenient:
            it = Opaque("iterable")
        if isinstance(it, Opaque) and self.lenient:
            # abstract loop: 0, 1 or 2 arbitrary elements (bounded; reported in the evidence)
            self.ex.note("abstract-loop", f"iteration over <{it.tag}> unrolled 0..2 times with arbitrary elements")
            k = self.path.choose(3, f"abstract-loop@{self.cur_line}")
            return [it.child(f"{it.tag}[{i}]", cls=getattr(it, "elem_cls", None)) for i in range(k)]
        raise Unsupported(f"iteration over {type(it).__name__} at {self.where()}")

    # ------------------------------------------------------------------ assignment targets
    def assign(self, target, value, frame):
        if isinstance(target, ast.Name):
            frame.locals[target.id] = value
        elif isinstance(target, (ast.Tuple, ast.List)):
            vals = self.unpack(value, len(target.elts))
            for t, v in zip(target.elts, vals):
                self.assign(t, v, frame)
        elif isinstance(target, ast.Attribute):
            obj = self.ev(target.value, frame)
            self.setattr(obj, target.attr, value, frame)
        elif isinstance(target, ast.Subscript):
            base = self.ev(target.value, frame)
            idx = self.ev_index(target.slice, frame)
            self.setitem(base, idx, value)
        else:
            raise Unsupported(f"assignment target {type(target).__name__}")

    def unpack(self, value, n):
        if isinstance(value, tuple):
            vals = list(value)
        elif isinstance(value, PList):
            vals = list(value.items)
        elif isinstance(value, Arr) and isinstance(value.shape[0], int):
            from . import models_np

            vals = [models_np.index_first(self, value, i) for i in range(value.shape[0])]
        elif isinstance(value, list):
            vals = value
        elif isinstance(value, Opaque) and self.lenient:
            vals = [value.child(f"{value.tag}[{i}]") for i in range(n)]
        else:
            raise Unsupported(f"unpacking of {type(value).__name__}")
        if len(vals) != n:
            self.raise_(ValueError)
        return vals

    # ------------------------------------------------------------------ expressions
    def ev(self, node, frame):
        m = getattr(self, "ex_" + type(node).__name__, None)
        if m is None:
            raise Unsupported(f"expression {type(node).__name__} at {self.where()}")
        return m(node, frame)

    def lookup(self, name, frame):
        if name in frame.locals:
            return frame.locals[name]
        if name in frame.globals:
            g = frame.globals[name]
            return self.lift_const(g) if isinstance(g, (list, dict)) else g
        if hasattr(builtins, name):
            return getattr(builtins, name)
        raise Unsupported(f"unbound name {name} at {self.where()}")

    def ex_Name(self, node, frame):
        return self.lookup(node.id, frame)

    def ex_Constant(self, node, frame):
        return node.value

    def ex_JoinedStr(self, node, frame):
        from . import models_py

        return models_py.fstring(self, node, frame)

    def ex_Tuple(self, node, frame):
        return tuple(self.ev_elts(node.elts, frame))

    def ex_List(self, node, frame):
        return PList(self.ev_elts(node.elts, frame))

    def ex_Set(self, node, frame):
        vals = self.ev_elts(node.elts, frame)
        if all(self.is_concrete(v) for v in vals):
            return frozenset(vals)
        raise Unsupported("set display with symbolic members")

    def ev_elts(self, elts, frame):
        out = []
        for e in elts:
            if isinstance(e, ast.Starred):
                out.extend(self.iter_concrete(self.ev(e.value, frame)))
            else:
                out.append(self.ev(e, frame))
        return out

    def ex_Dict(self, node, frame):
        d = PDict()
        for k, v in zip(node.keys, node.values):
            if k is None:
                src = self.ev(v, frame)
                if isinstance(src, PDict):
                    d.items.update(src.items)
                else:
                    raise Unsupported("** of a symbolic map in dict display")
                continue
            kv = self.ev(k, frame)
            if not self.is_concrete(kv) and isinstance(kv, (SV, tuple)):
                d.items[kv] = self.ev(v, frame)  # symbolic key kept by identity, compared with ==
                continue
            if not self.is_concrete(kv) and self.lenient:
                for vn in node.values:
                    self.ev(vn, frame)
                return Opaque("dict-display")
            if not self.is_concrete(kv):
                raise Unsupported("dict display with symbolic key")
            d.items[kv] = self.ev(v, frame)
        return d

    def ex_Attribute(self, node, frame):
        return self.getattr(self.ev(node.value, frame), node.attr, frame)

    def ex_Subscript(self, node, frame):
        base = self.ev(node.value, frame)
        idx = self.ev_index(node.slice, frame)
        return self.getitem(base, idx)

    def ev_index(self, node, frame):
        if isinstance(node, ast.Slice):
            return slice(
                self.ev(node.lower, frame) if node.lower is not None else None,
                self.ev(node.upper, frame) if node.upper is not None else None,
                self.ev(node.step, frame) if node.step is not None else None,
            )
        if isinstance(node, ast.Tuple):
            return tuple(self.ev_index(e, frame) for e in node.elts)
        return self.ev(node, frame)

    def ex_IfExp(self, node, frame):
        c = self.truth(self.ev(node.test, frame))
        if self.path.branch(zbool(c), f"ifexp@{self.cur_line}"):
            return self.ev(node.body, frame)
        return self.ev(node.orelse, frame)

    def ex_BoolOp(self, node, frame):
        # short-circuit with branching (operands may have effects / raise)
        is_and = isinstance(node.op, ast.And)
        val = None
        for i, e in enumerate(node.values):
            val = self.ev(e, frame)
            if i == len(node.values) - 1:
                return val
            t = self.truth(val)
            taken = self.path.branch(zbool(t), f"boolop@{self.cur_line}")
            if is_and and not taken:
                return val if not isinstance(val, (SV, DynV)) else self.falsy_of(val)
            if (not is_and) and taken:
                return val
        return val

    def falsy_of(self, val):
        # value of `a and b` when a is falsy: a itself; for symbolic bools that is False
        if isinstance(val, SV) and val.k in BOOLK:
            return False
        return val

    def ex_UnaryOp(self, node, frame):
        v = self.ev(node.operand, frame)
        if isinstance(node.op, ast.Not):
            return mk(self.neg(self.truth(v)), "bool") if not isinstance(self.truth(v), bool) else (not self.truth(v))
        if isinstance(v, Arr):
            from . import models_np

            return models_np.unop(self, node.op, v)
        if isinstance(v, Opaque) and self.lenient:
            return Opaque(f"unop({v.tag})")
        if isinstance(node.op, ast.USub):
            if isinstance(v, SV):
                return mk(-to_z3(v, "int" if v.k in BOOLK else None), "real" if v.k == "real" else "int")
            return -v
        if isinstance(node.op, ast.UAdd):
            return v
        if isinstance(node.op, ast.Invert):
            if isinstance(v, SV):
                if v.k == "npbool":
                    return mk(z3.Not(v.e), "npbool")
                if v.k == "bool":
                    return mk(-1 - z3.If(v.e, 1, 0), "int")
                if v.k == "int":
                    return mk(-1 - v.e, "int")
            if isinstance(v, (bool, int)):
                return ~v
        raise Unsupported(f"unary {type(node.op).__name__} on {type(v).__name__}")

    def ex_BinOp(self, node, frame):
        a = self.ev(node.left, frame)
        b = self.ev(node.right, frame)
        return self.binop(node.op, a, b)

    def binop(self, op, a, b):
        from . import models_np, models_py

        if isinstance(a, models_py.ArrSet) and isinstance(op, ast.Sub) and isinstance(b, (frozenset, set)):
            return models_py.ArrSet(a.arr, a.excluded | frozenset(b))

        if isinstance(a, Arr) or isinstance(b, Arr):
            return models_np.binop(self, op, a, b)
        if self.lenient and (isinstance(a, Opaque) or isinstance(b, Opaque)):
            is_str = lambda x: isinstance(x, str) or (isinstance(x, Opaque) and x.cls is str)
            if isinstance(op, ast.Add) and is_str(a) and is_str(b):
                return Opaque("str-concat", cls=str)
            return Opaque(f"binop({type(op).__name__})")
        if isinstance(a, DynV) or isinstance(b, DynV):
            return self.dyn_binop(op, a, b)
        ka, kb = kind_of(a), kind_of(b)
        if not isinstance(a, SV) and not isinstance(b, SV):
            return self.concrete_binop(op, a, b)
        if isinstance(op, (ast.BitAnd, ast.BitOr, ast.BitXor)) and ka in BOOLK and kb in BOOLK:
            za, zb = to_z3(a), to_z3(b)
            r = {ast.BitAnd: z3.And, ast.BitOr: z3.Or, ast.BitXor: z3.Xor}[type(op)](za, zb)
            return mk(r, "npbool" if "npbool" in (ka, kb) else "bool")
        if ka in ("str",) and kb in ("str",) and isinstance(op, ast.Add):
            from . import models_py

            return models_py.str_concat(self, a, b)
        if ka in NUMK and kb in NUMK:
            real = "real" in (ka, kb) or isinstance(op, ast.Div)
            k = "real" if real else "int"
            za, zb = to_z3(a, k), to_z3(b, k)
            if isinstance(op, ast.Add):
                return mk(za + zb, k)
            if isinstance(op, ast.Sub):
                return mk(za - zb, k)
            if isinstance(op, ast.Mult):
                return mk(za * zb, k)
            if isinstance(op, ast.Div):
                if not self.path.branch(zb != 0, f"div@{self.cur_line}"):
                    self.raise_(ZeroDivisionError)
                return mk(za / zb, "real")
            if isinstance(op, (ast.FloorDiv, ast.Mod)) and k == "int":
                if not self.path.branch(zb != 0, f"div@{self.cur_line}"):
                    self.raise_(ZeroDivisionError)
                # Python floor semantics: z3 div/mod are Euclidean (agree when divisor > 0)
                if isinstance(op, ast.FloorDiv):
                    fl = z3.If(zb > 0, za / zb, z3.If(za % zb == 0, za / zb, (za / zb) - 1))
                    return mk(fl, "int")
                md = z3.If(zb > 0, za % zb, z3.If(za % zb == 0, 0, (za % zb) + zb))
                return mk(md, "int")
            if isinstance(op, ast.Pow) and isinstance(b, int) and b >= 0:
                r = z3.IntVal(1) if k == "int" else z3.RealVal(1)
                for _ in range(b):
                    r = r * za
                return mk(r, k)
        raise Unsupported(f"binary {type(op).__name__} on {ka}/{kb} at {self.where()}")

    def concrete_binop(self, op, a, b):
        import operator as o

        table = {
            ast.Add: o.add, ast.Sub: o.sub, ast.Mult: o.mul, ast.Div: o.truediv, ast.FloorDiv: o.floordiv,
            ast.Mod: o.mod, ast.Pow: o.pow, ast.BitAnd: o.and_, ast.BitOr: o.or_, ast.BitXor: o.xor,
            ast.LShift: o.lshift, ast.RShift: o.rshift, ast.MatMult: o.matmul,
        }
        from .values import PKeys

        if isinstance(a, PKeys) and isinstance(b, (PKeys, set, frozenset)) and isinstance(op, (ast.BitAnd, ast.BitOr, ast.Sub)):
            # key views behave like sets (T-py); the result is a set, modelled by a duplicate-free PList (iteration order
            # of a set is unspecified: code that depends on it is outside the model anyway)
            other = list(b.items) if isinstance(b, PKeys) else list(b)
            if isinstance(op, ast.BitAnd):
                return PList([k for k in a.items if k in other])
            if isinstance(op, ast.Sub):
                return PList([k for k in a.items if k not in other])
            return PList(list(a.items) + [k for k in other if k not in a.items])
        if isinstance(a, PList) and isinstance(b, PList) and isinstance(op, ast.Add):
            return PList(a.items + b.items)
        if isinstance(a, PList) and isinstance(b, int) and isinstance(op, ast.Mult):
            return PList(a.items * b)
        if isinstance(a, PDict) and isinstance(b, PDict) and isinstance(op, ast.BitOr):
            return PDict({**a.items, **b.items})
        if isinstance(a, (PList, PDict, SList, SDict, Obj, Opaque)) or isinstance(b, (PList, PDict, SList, SDict, Obj, Opaque)):
            raise Unsupported(f"binary {type(op).__name__} on {type(a).__name__}/{type(b).__name__}")
        try:
            return table[type(op)](a, b)
        except ZeroDivisionError:
            self.raise_(ZeroDivisionError)
        except TypeError:
            self.raise_(TypeError)

    def dyn_binop(self, op, a, b):
        """Binary operator with a dynamically typed operand: case split on the tag."""
        D = dyn_sort()
        for side in (0, 1):
            v = (a, b)[side]
            if isinstance(v, DynV):
                e = v.e
                if self.path.branch(D.is_b(e), f"dyn-is-bool@{self.cur_line}"):
                    nv = mk(D.bval(e), "bool")
                elif self.path.branch(D.is_i(e), f"dyn-is-int@{self.cur_line}"):
                    nv = mk(D.ival(e), "int")
                elif self.path.branch(D.is_r(e), f"dyn-is-real@{self.cur_line}"):
                    nv = mk(D.rval(e), "real")
                elif self.path.branch(D.is_s(e), f"dyn-is-str@{self.cur_line}"):
                    nv = mk(D.sval(e), "str")
                else:
                    self.raise_(TypeError)
                if side == 0:
                    a = nv
                else:
                    b = nv
        return self.binop(op, a, b)

    def ex_Compare(self, node, frame):
        left = self.ev(node.left, frame)
        conds = []
        for op, rnode in zip(node.ops, node.comparators):
            right = self.ev(rnode, frame)
            conds.append(self.compare(op, left, right))
            left = right
        if len(conds) == 1:
            c = conds[0]
        else:
            if any(isinstance(c, Arr) for c in conds):
                raise Unsupported("chained comparison on arrays")
            c = self.and_all(conds)
        if isinstance(c, (bool, Arr, SV)):
            return c
        return mk(c, "bool")

    def compare(self, op, a, b):
        from . import models_np

        if isinstance(op, ast.Is):
            return self.identical(a, b)
        if isinstance(op, ast.IsNot):
            return self.neg(self.identical(a, b))
        if isinstance(op, ast.In):
            return self.contains(b, a)
        if isinstance(op, ast.NotIn):
            return self.neg(self.contains(b, a))
        if isinstance(a, Arr) or isinstance(b, Arr):
            return models_np.compare(self, op, a, b)
        if self.lenient and (isinstance(a, Opaque) or isinstance(b, Opaque)) and not isinstance(op, (ast.Eq, ast.NotEq)):
            return self.opaque_bool(("cmp", type(op).__name__, id(a), id(b)), "cmp?")
        if isinstance(op, ast.Eq):
            return self.eq(a, b)
        if isinstance(op, ast.NotEq):
            return self.neg(self.eq(a, b))
        if isinstance(a, DynV) or isinstance(b, DynV):
            raise Unsupported("ordering comparison on a dynamic value")
        ka, kb = kind_of(a), kind_of(b)
        if not isinstance(a, SV) and not isinstance(b, SV):
            import operator as o

            fn = {ast.Lt: o.lt, ast.LtE: o.le, ast.Gt: o.gt, ast.GtE: o.ge}[type(op)]
            try:
                return fn(a, b)
            except TypeError:
                self.raise_(TypeError)
        if ka in NUMK and kb in NUMK:
            k = "real" if "real" in (ka, kb) else "int"
            za, zb = to_z3(a, k), to_z3(b, k)
            return {ast.Lt: za < zb, ast.LtE: za <= zb, ast.Gt: za > zb, ast.GtE: za >= zb}[type(op)]
        raise Unsupported(f"comparison {type(op).__name__} on {ka}/{kb}")

    def identical(self, a, b):
        if isinstance(a, Maybe) and isinstance(b, Maybe):
            return self.eq(a, b) if a.value is b.value else z3.And(z3.Not(a.present), z3.Not(b.present))
        if isinstance(a, Maybe) and b is not None:
            return z3.And(a.present, zbool(self.identical(a.value, b)))
        if isinstance(b, Maybe) and a is not None:
            return z3.And(b.present, zbool(self.identical(b.value, a)))
        if a is None or b is None:
            other = b if a is None else a
            return self.is_none(other)
        if isinstance(a, Opaque) and isinstance(b, Opaque) and a is not b and getattr(a, "distinct", False) and getattr(b, "distinct", False):
            return False  # two entities the contract declares to be different objects
        if self.lenient and (isinstance(a, Opaque) or isinstance(b, Opaque)) and a is not b:
            if isinstance(a, (bool, enum.Enum, str, int)) or isinstance(b, (bool, enum.Enum, str, int)) or (isinstance(a, Opaque) and isinstance(b, Opaque)):
                return self.opaque_bool(("is", id(a) if isinstance(a, Opaque) else repr(a), id(b) if isinstance(b, Opaque) else repr(b)), "is?")
            return False
        if isinstance(a, SV) and isinstance(b, SV) and a.k in BOOLK and b.k in BOOLK:
            return a.e == b.e
        if isinstance(a, bool) or isinstance(b, bool):
            if isinstance(a, SV) and a.k in BOOLK:
                return a.e == b
            if isinstance(b, SV) and b.k in BOOLK:
                return b.e == a
            if isinstance(a, DynV) or isinstance(b, DynV):
                return self.eq(a, b)
            return a is b
        if isinstance(a, enum.Enum) or isinstance(b, enum.Enum):
            if isinstance(a, SV) or isinstance(b, SV):
                return self.eq(a, b)
        return a is b

    def contains(self, cont, x):
        cont = self.unwrap(cont)
        from . import models_h5 as _h5

        if isinstance(cont, (_h5.H5Node, _h5.H5Attrs)):
            return _h5.contains(self, cont, x)
        if isinstance(x, Opaque) and isinstance(cont, (PList, tuple, list)):
            items = cont.items if isinstance(cont, PList) else list(cont)
            if any(y is x for y in items):
                return True
            if getattr(x, "distinct", False) and all(isinstance(y, Opaque) and getattr(y, "distinct", False) for y in items):
                return False
        if self.lenient and (isinstance(cont, Opaque) or (isinstance(x, Opaque) and not isinstance(cont, (SDict, SList)))):
            kx = id(x) if isinstance(x, (Opaque, Obj)) else repr(x)
            return self.opaque_bool(("in", id(cont), kx), "in?")
        if hasattr(cont, "guard"):
            cont.guard(self)
        if isinstance(cont, PList):
            return self.or_all([self.eq(x, y) for y in cont.items])
        if isinstance(cont, (tuple, list, frozenset, set)):
            return self.or_all([self.eq(x, y) for y in cont])
        if type(cont).__name__ == "PSet":
            return self.or_all([self.eq(x, y) for y in cont.items])
        if isinstance(cont, PDict):
            if self.is_concrete(x):
                try:
                    return x in cont.items
                except TypeError:
                    self.raise_(TypeError)
            return self.or_all([self.eq(x, y) for y in cont.items])
        if isinstance(cont, dict):
            return self.contains(PDict(cont), x)
        if isinstance(cont, SDict):
            if isinstance(x, DynV):
                from . import models_py

                x = models_py.coerce_key(self, x, cont.kkind, None)
                if x is None:
                    return False
            return cont.has(x)
        if isinstance(cont, SList) and getattr(cont, "keys_of", None) is not None:
            return self.contains(cont.keys_of, x)
        if isinstance(cont, SList):
            i = z3.Int(fresh_name("m"))
            ev = cont.elem(i)
            return z3.Exists([i], z3.And(i >= 0, i < to_z3(cont.length), zbool(self.eq(ev, x))))
        if isinstance(cont, str) and isinstance(x, str):
            return x in cont
        if isinstance(cont, Arr):
            from . import models_np

            return models_np.contains(self, cont, x)
        if isinstance(cont, Obj):
            raw = None
            for k in cont.cls.__mro__:
                if "__contains__" in k.__dict__:
                    raw = k.__dict__["__contains__"]
                    break
            if raw is not None:
                return self.truth(self.call_repo(raw, [cont, x], {}, None))
        if isinstance(cont, SV) and cont.k == "str":
            from . import models_py

            return models_py.str_contains(self, cont, x)
        if inspect.isclass(cont) and issubclass(cont, enum.Enum):
            return x in cont
        raise Unsupported(f"`in` on {type(cont).__name__} at {self.where()}")

    def ex_Call(self, node, frame):
        # super()
        if isinstance(node.func, ast.Name) and node.func.id == "super" and not node.args:
            return SuperProxy(frame.self_val, frame.cls_ctx)
        f = self.ev(node.func, frame)
        args = []
        for a in node.args:
            if isinstance(a, ast.Starred):
                args.extend(self.iter_concrete(self.ev(a.value, frame)))
            else:
                args.append(self.ev(a, frame))
        kwargs = {}
        opaque_kwargs = False
        for kw in node.keywords:
            if kw.arg is None:
                d = self.ev(kw.value, frame)
                if isinstance(d, PDict):
                    kwargs.update(d.items)
                elif isinstance(d, Opaque) and self.lenient:
                    opaque_kwargs = True
                else:
                    raise Unsupported("** of a symbolic map in call")
            else:
                kwargs[kw.arg] = self.ev(kw.value, frame)
        self.cur_line = node.lineno
        if opaque_kwargs:
            self.ex.note("opaque-call", f"call with **<opaque> at {self.where()}")
            return self.opaque_result("call(**opaque)", args)
        return self.call(f, args, kwargs, frame)

    def ex_Lambda(self, node, frame):
        def fn(interp, args, kwargs, _node=node, _frame=frame):
            locs = dict(_frame.locals)
            for p, a in zip(_node.args.args, args):
                locs[p.arg] = a
            sub = Frame(_frame.func, locs, _frame.cls_ctx, _frame.self_val, _frame.depth)
            return interp.ev(_node.body, sub)

        return EngineCallable(fn, "lambda")

    def ex_ListComp(self, node, frame):
        from . import models_py

        return models_py.comprehension(self, node, frame, "list")

    def ex_GeneratorExp(self, node, frame):
        from . import models_py

        return models_py.comprehension(self, node, frame, "gen")

    def ex_DictComp(self, node, frame):
        from . import models_py

        return models_py.comprehension(self, node, frame, "dict")

    def ex_SetComp(self, node, frame):
        from . import models_py

        return models_py.comprehension(self, node, frame, "set")

    def ex_Starred(self, node, frame):
        raise Unsupported("starred expression")

    def ex_Yield(self, node, frame):
        """`yield` inside a @contextmanager generator: the with-body runs here; it either
        completes (execution continues) or raises (the exception is thrown in at the yield)."""
        val = self.ev(node.value, frame) if node.value is not None else None
        self.event("yield", value=val)
        if self.path.choose(2, f"with-body-outcome@{self.cur_line}") == 1:
            self.event("with-body-raised")
            raise RaiseSig(WithBodyError, self.where())
        return None

    def ex_NamedExpr(self, node, frame):
        v = self.ev(node.value, frame)
        self.assign(node.target, v, frame)
        return v

    # ------------------------------------------------------------------ item access
    def getitem(self, base, idx):
        from . import models_np, models_py

        base = self.unwrap(base)
        if base is None:
            self.raise_(TypeError)
        if hasattr(base, "guard"):
            base.guard(self)

        if isinstance(base, Arr):
            return models_np.getitem(self, base, idx)
        return models_py.getitem(self, base, idx)

    def setitem(self, base, idx, value):
        from . import models_np, models_py

        if isinstance(base, Arr):
            return models_np.setitem(self, base, idx, value)
        return models_py.setitem(self, base, idx, value)

    def delitem(self, base, idx):
        from . import models_py

        return models_py.delitem(self, base, idx)


class WithBodyError(Exception):
    """Stands for any exception escaping the body of a with-block."""


class EngineCallable:
    def __init__(self, fn, name="callable"):
        self.fn = fn
        self.name = name

    def __repr__(self):
        return f"EngineCallable<{self.name}>"
