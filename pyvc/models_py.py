"""T-py: models of Python builtins, containers, strings, weakref, uuid, warnings, copy."""
from __future__ import annotations

import ast
import builtins
import copy as _copy
import enum
import inspect
import uuid as _uuid
import warnings as _warnings
import weakref as _weakref

import z3

from . import theory
from .core import RaiseSig, Unsupported, fresh_name
from .interp import CLASS_MODELS, METHODS, EngineCallable, Frame, method, model
from .values import (
    SV,
    AbsObj,
    Arr,
    BoundMethod,
    DynV,
    Maybe,
    Obj,
    Opaque,
    PDict,
    PList,
    SDict,
    SList,
    WeakRef,
    dyn_sort,
    ite_value,
    kind_of,
    maybe,
    mk,
    sym,
    to_z3,
    zbool,
)

# ------------------------------------------------------------------------------ item access


def norm_index(I, idx, n):
    """Python index normalisation with IndexError."""
    if isinstance(idx, int) and isinstance(n, int):
        if idx < -n or idx >= n:
            I.raise_(IndexError)
        return idx % n if n else idx
    zi, zn = to_z3(idx, "int"), to_z3(n, "int")
    if not I.path.branch(z3.And(zi >= -zn, zi < zn), f"index-in-range@{I.cur_line}"):
        I.raise_(IndexError)
    if isinstance(idx, int):
        return idx if idx >= 0 else mk(zn + idx, "int")
    return mk(z3.If(zi >= 0, zi, zi + zn), "int")


def coerce_key(I, idx, kkind, absent_exc=KeyError):
    """A dynamically typed value used as key of a map whose keys have kind `kkind`."""
    if not isinstance(idx, DynV):
        return idx
    d = dyn_sort()
    if kkind == "str":
        if not I.path.branch(d.is_s(idx.e), f"key-is-str@{I.cur_line}"):
            if absent_exc is None:
                return None
            I.raise_(absent_exc)
        return mk(d.sval(idx.e), "str")
    raise Unsupported(f"dynamic key for a map keyed by {kkind}")


def getitem(I, base, idx):
    if isinstance(base, Maybe):
        base = I.unwrap(base)
    if isinstance(base, SDict):
        idx = coerce_key(I, idx, base.kkind)
    if isinstance(base, PList):
        if isinstance(idx, slice):
            if all(x is None or isinstance(x, int) for x in (idx.start, idx.stop, idx.step)):
                return PList(base.items[idx])
            raise Unsupported("symbolic slice of a list")
        if isinstance(idx, (int, bool)):
            i = norm_index(I, int(idx), len(base.items))
            return base.items[i]
        if isinstance(idx, SV) and idx.k == "int":
            n = len(base.items)
            i = norm_index(I, idx, n)
            if n == 0:
                I.raise_(IndexError)
            out = base.items[n - 1]
            for k in range(n - 2, -1, -1):
                out = ite_value(to_z3(i) == k, base.items[k], lambda o=out: o)
            return out
        raise Unsupported(f"list index {type(idx).__name__}")
    if isinstance(base, tuple):
        if isinstance(idx, slice):
            return base[idx]
        if isinstance(idx, (int, bool)):
            if idx < -len(base) or idx >= len(base):
                I.raise_(IndexError)
            return base[idx]
        return getitem(I, PList(list(base)), idx)
    if isinstance(base, SList):
        if isinstance(idx, slice):
            lo = idx.start if idx.start is not None else 0
            hi = idx.stop if idx.stop is not None else base.length
            if idx.step is not None:
                raise Unsupported("slice step on symbolic sequence")
            zlo, zhi, zn = to_z3(lo, "int"), to_z3(hi, "int"), to_z3(base.length, "int")
            # assume 0 <= lo <= hi <= n (non-negative slices only)
            if not I.path.branch(z3.And(zlo >= 0, zlo <= zhi, zhi <= zn), f"slice-normal@{I.cur_line}"):
                raise Unsupported("non-normal slice of a symbolic sequence")
            return SList(mk(zhi - zlo, "int"), lambda i, _b=base.elem, _lo=zlo: _b(to_z3(i, "int") + _lo), base.tag + "[:]")
        i = norm_index(I, idx, base.length)
        return base.elem(i)
    if isinstance(base, PDict):
        if I.lenient and isinstance(idx, Opaque):
            if idx in base.items:
                return base.items[idx]
            return Opaque(f"dict[{idx.tag}]")
        if I.is_concrete(idx):
            try:
                if idx in base.items:
                    return base.items[idx]
            except TypeError:
                I.raise_(TypeError)
            I.raise_(KeyError)
        # symbolic key against concrete keys
        keys = list(base.items)
        for k in keys:
            if k is idx:
                return base.items[k]
            if kind_of(k) != kind_of(idx) and not (kind_of(idx) == "str" and isinstance(k, str)):
                continue
            if I.path.branch(zbool(I.eq(idx, k)), f"key=={k!r}@{I.cur_line}"):
                return base.items[k]
        I.raise_(KeyError)
    if isinstance(base, dict):
        return getitem(I, PDict(base), idx)
    if isinstance(base, SDict):
        if not I.path.branch(zbool(base.has(idx)), f"key-present@{I.cur_line}"):
            I.raise_(KeyError)
        return base.get(idx)
    if isinstance(base, (str, bytes)) and (isinstance(idx, (int, slice))):
        try:
            return base[idx]
        except IndexError:
            I.raise_(IndexError)
    if isinstance(base, Obj):
        raw = None
        for k in base.cls.__mro__:
            if "__getitem__" in k.__dict__:
                raw = k.__dict__["__getitem__"]
                break
        if raw is not None:
            return I.call_repo(raw, [base, idx], {}, None)
    import numpy as _np

    from . import models_np as _mnp

    if isinstance(base, _mnp.Record):
        return _mnp.rec_get(I, base, idx)
    if base is _np.c_ or base is _np.r_:
        from . import models_np

        try:
            return models_np.np_c_getitem(I, idx) if base is _np.c_ else models_np.np_r_getitem(I, idx)
        except Unsupported:
            if I.lenient and I.has_opaque(list(idx) if isinstance(idx, tuple) else [idx]):
                return Opaque("np.r_/c_[...]")
            raise
    from . import models_h5 as _h5

    if isinstance(base, (_h5.H5Node, _h5.H5Attrs)):
        return _h5.getitem(I, base, idx)
    if isinstance(base, Opaque) and I.lenient:
        key = ("item", repr(idx) if I.is_concrete(idx) else id(idx))
        if key not in base.cache:
            base.cache[key] = base.child(f"{base.tag}[{idx if I.is_concrete(idx) else '?'}]")
        return base.cache[key]
    if inspect.isclass(base):
        return base  # typing subscripts: list[int]
    raise Unsupported(f"subscript of {type(base).__name__} at {I.where()}")


def setitem(I, base, idx, value):
    if isinstance(base, PList):
        if isinstance(idx, int):
            i = norm_index(I, idx, len(base.items))
            base.items[i] = value
            return
        raise Unsupported("list store with symbolic index")
    if isinstance(base, PDict):
        if I.is_concrete(idx) or (I.lenient and isinstance(idx, Opaque)) or isinstance(idx, tuple):
            base.items[idx] = value  # opaque / symbolic tuple keys are kept by identity, compared with ==
            return
        from .values import promote_dict

        promote_dict(base, kind_of(idx))
        base.store(idx, value)
        return
    if isinstance(base, SDict):
        base.store(idx, value)
        return
    if isinstance(base, SList):
        i = norm_index(I, idx, base.length)
        old = base.elem
        iz = to_z3(i, "int")
        base.elem = lambda j, _o=old, _iz=iz, _v=value: ite_value(to_z3(j, "int") == _iz, _v, lambda: _o(j))
        return
    if isinstance(base, Obj):
        raw = None
        for k in base.cls.__mro__:
            if "__setitem__" in k.__dict__:
                raw = k.__dict__["__setitem__"]
                break
        if raw is not None:
            I.call_repo(raw, [base, idx, value], {}, None)
            return
    from . import models_h5 as _h5

    if isinstance(base, (_h5.H5Node, _h5.H5Attrs)):
        return _h5.setitem(I, base, idx, value)
    if isinstance(base, Opaque) and I.lenient:
        I.mutation(base, "__setitem__")
        key = ("item", repr(idx) if I.is_concrete(idx) else id(idx))
        base.cache[key] = value
        return
    raise Unsupported(f"item store on {type(base).__name__} at {I.where()}")


def delitem(I, base, idx):
    base = I.unwrap(base)  # an optional value that the code has already tested against None
    if base is None:
        I.raise_(TypeError)
    if isinstance(base, PDict):
        if I.is_concrete(idx):
            if idx not in base.items:
                I.raise_(KeyError)
            del base.items[idx]
            return
        raise Unsupported("del of symbolic key from concrete dict")
    if isinstance(base, SDict):
        if not I.path.branch(zbool(base.has(idx)), f"del-key-present@{I.cur_line}"):
            I.raise_(KeyError)
        base.delete(idx)
        return
    if isinstance(base, PList) and isinstance(idx, int):
        i = norm_index(I, idx, len(base.items))
        del base.items[i]
        return
    from . import models_h5 as _h5

    if isinstance(base, (_h5.H5Node, _h5.H5Attrs)):
        return _h5.delitem(I, base, idx)
    if isinstance(base, Opaque) and I.lenient:
        I.mutation(base, "__delitem__")
        return
    raise Unsupported(f"del item on {type(base).__name__}")


# ------------------------------------------------------------------------------ builtins


def seq_len(I, v):
    if isinstance(v, PList):
        return len(v.items)
    if isinstance(v, SList):
        return v.length
    if isinstance(v, PDict):
        return len(v.items)
    if isinstance(v, SDict):
        v.ensure_enum(I.path)
        return v.n
    if isinstance(v, Arr):
        if v.ndim == 0:
            I.raise_(TypeError)
        return v.shape[0]
    if isinstance(v, (tuple, list, str, bytes, dict, set, frozenset)):
        return len(v)
    if isinstance(v, Opaque) and I.lenient:
        if "len" not in v.cache:
            n = sym("len", "int")
            I.path.assume(n.e >= 0)
            v.cache["len"] = n
        return v.cache["len"]
    if isinstance(v, Obj):
        raw = None
        for k in v.cls.__mro__:
            if "__len__" in k.__dict__:
                raw = k.__dict__["__len__"]
                break
        if raw is not None:
            return I.call_repo(raw, [v], {}, None)
    I.raise_(TypeError)


@model(builtins.len)
def m_len(I, args, kw):
    v = I.unwrap(args[0])
    n = seq_len(I, v)
    return n if isinstance(n, int) else mk(to_z3(n), "int")


def class_of(I, v):
    """Python class of an engine value (for isinstance)."""
    import numpy as np

    if isinstance(v, Obj):
        return v.cls
    if isinstance(v, AbsObj):
        if v.cls is None:
            raise Unsupported(f"class of abstract object {v.tag}")
        return v.cls
    if isinstance(v, SV):
        return {"int": int, "bool": bool, "npbool": np.bool_, "real": float, "str": str, "uid": _uuid.UUID, "bytes": bytes}[v.k]
    if isinstance(v, (PList, SList)):
        return list
    if isinstance(v, (PDict, SDict)):
        return dict
    if isinstance(v, Arr):
        return np.ndarray
    if isinstance(v, (BoundMethod, EngineCallable)):
        return type(len)
    if isinstance(v, WeakRef):
        return _weakref.ReferenceType
    from . import models_h5 as _h5

    if isinstance(v, _h5.H5Node):
        import h5py

        return h5py.File if v.is_file else h5py.Group
    if isinstance(v, Opaque):
        if inspect.isclass(getattr(v, "cls", None)):
            return v.cls
        if v.tag.startswith("h5file"):
            import h5py

            return h5py.File
        if v.tag.startswith("h5group"):
            import h5py

            return h5py.Group
        if v.tag.startswith("h5dataset"):
            import h5py

            return h5py.Dataset
        raise Unsupported(f"class of opaque {v.tag}")
    return type(v)


@model(builtins.isinstance)
def m_isinstance(I, args, kw):
    v, cls = args
    if isinstance(v, Maybe):
        v = I.unwrap(v)
    classes = cls if isinstance(cls, tuple) else (cls,)
    classes = tuple(_untype(c) for c in classes)
    if hasattr(v, "sym_isinstance"):
        return v.sym_isinstance(I, classes)
    if isinstance(v, Opaque) and I.lenient and not v.tag.startswith("h5"):
        if v.cls is not None:
            return issubclass(v.cls, classes)
        return mk(I.opaque_bool(("isinstance", id(v), tuple(getattr(c, "__name__", repr(c)) for c in classes)), "isinstance?"), "bool")
    if isinstance(v, DynV):
        D = dyn_sort()
        conds = []
        for c in classes:
            if c is bool:
                conds.append(D.is_b(v.e))
            elif c is int:
                conds.append(z3.Or(D.is_i(v.e), D.is_b(v.e)))
            elif c is float:
                conds.append(D.is_r(v.e))
            elif c is str:
                conds.append(D.is_s(v.e))
            elif c is type(None):
                conds.append(D.is_none(v.e))
            elif c in (dict, list, tuple):
                conds.append(D.is_o(v.e) if False else z3.BoolVal(False))
        return mk(z3.Or(*conds) if conds else z3.BoolVal(False), "bool")
    return issubclass(class_of(I, v), classes)


def _untype(c):
    import types
    import typing

    if isinstance(c, types.GenericAlias):
        return c.__origin__
    origin = typing.get_origin(c)
    if origin is not None:
        return origin
    return c


@model(builtins.issubclass)
def m_issubclass(I, args, kw):
    return issubclass(args[0], args[1])


@model(builtins.hasattr)
def m_hasattr(I, args, kw):
    obj, name = args
    obj = I.unwrap(obj)
    if isinstance(obj, Obj):
        if name in obj.fields:
            return True
        return inspect.isclass(obj.cls) and any(name in k.__dict__ for k in obj.cls.__mro__)
    if isinstance(obj, AbsObj):
        return name in obj.attrs or name in obj.methods
    if isinstance(obj, Opaque) and I.lenient:
        if name in obj.attrs:
            return True
        if obj.cls is not None:
            return hasattr(obj.cls, name) or name.startswith("_")
        return mk(I.opaque_bool(("hasattr", id(obj), name), "hasattr?"), "bool")
    if isinstance(obj, (SV, DynV, PList, PDict, SList, SDict)):
        return hasattr(class_of(I, obj) if not isinstance(obj, DynV) else object, name)
    if isinstance(obj, Arr):
        import numpy as np

        return hasattr(np.ndarray, name)
    return hasattr(obj, name)


@model(builtins.getattr)
def m_getattr(I, args, kw):
    obj, name = args[0], args[1]
    if not isinstance(name, str):
        raise Unsupported("getattr with symbolic name")
    if len(args) == 3:
        try:
            return I.getattr(obj, name)
        except RaiseSig as sig:
            if issubclass(sig.exc_class, AttributeError):
                return args[2]
            raise
    return I.getattr(obj, name)


@model(builtins.setattr)
def m_setattr(I, args, kw):
    obj, name, value = args
    if not isinstance(name, str):
        raise Unsupported("setattr with symbolic name")
    I.setattr(obj, name, value, None)


@model(builtins.range)
def m_range(I, args, kw):
    if all(isinstance(a, int) for a in args):
        return range(*args)
    if len(args) == 1:
        return SList(args[0], lambda i: mk(to_z3(i, "int"), "int"), "range")
    if len(args) == 2:
        lo, hi = args
        n = mk(z3.If(to_z3(hi, "int") > to_z3(lo, "int"), to_z3(hi, "int") - to_z3(lo, "int"), 0), "int")
        return SList(n, lambda i, _lo=lo: mk(to_z3(i, "int") + to_z3(_lo, "int"), "int"), "range")
    raise Unsupported("range with symbolic step")


@model(builtins.zip)
def m_zip(I, args, kw):
    seqs = [a for a in args]
    if all(isinstance(s, (PList, tuple, list, range)) or (isinstance(s, SList) and isinstance(s.length, int)) or (isinstance(s, Arr) and isinstance(s.shape[0], int)) for s in seqs):
        lists = [I.iter_concrete(s) for s in seqs]
        n = min(len(x) for x in lists) if lists else 0
        strict = kw.get("strict", False)
        if strict and any(len(x) != n for x in lists):
            I.raise_(ValueError)
        return PList([tuple(x[i] for x in lists) for i in range(n)])
    # symbolic lengths: length is the minimum
    lens = [to_z3(seq_len(I, s), "int") for s in seqs]
    n = lens[0]
    for l in lens[1:]:
        n = z3.If(l < n, l, n)

    def elem(i, _seqs=seqs):
        return tuple(index_seq(I, s, i) for s in _seqs)

    return SList(mk(n, "int"), elem, "zip")


def index_seq(I, s, i):
    """Element i of a sequence-like value (no bounds check; used under quantified indices)."""
    if isinstance(s, SList):
        return s.elem(i)
    if isinstance(s, PList):
        if isinstance(i, int):
            return s.items[i]
        out = s.items[-1]
        for k in range(len(s.items) - 2, -1, -1):
            out = ite_value(to_z3(i, "int") == k, s.items[k], lambda o=out: o)
        return out
    if isinstance(s, Arr):
        from . import models_np

        return models_np.index_first(I, s, i)
    if isinstance(s, (tuple, list)):
        return index_seq(I, PList(list(s)), i)
    raise Unsupported(f"indexing {type(s).__name__} as a sequence")


@model(builtins.enumerate)
def m_enumerate(I, args, kw):
    s = args[0]
    start = args[1] if len(args) > 1 else kw.get("start", 0)
    if isinstance(s, SList) and not isinstance(s.length, int):
        return SList(s.length, lambda i, _s=s: (mk(to_z3(i, "int") + to_z3(start, "int"), "int"), _s.elem(i)), "enumerate")
    items = I.iter_concrete(s)
    return PList([(i + start, x) for i, x in enumerate(items)])


@model(builtins.list)
def m_list(I, args, kw):
    if not args:
        return PList()
    s = I.unwrap(args[0])
    if isinstance(s, Opaque) and I.lenient and not s.tag.startswith("h5"):
        return Opaque(f"list({s.tag})", elem_frozen=s.elem_frozen)
    if isinstance(s, SList) and not isinstance(s.length, int):
        return SList(s.length, s.elem, s.tag)
    if isinstance(s, SDict):
        s.ensure_enum(I.path)
        return SList(s.n, s.key_at, "keys")
    from . import models_h5 as _h5

    if isinstance(s, _h5.H5Node):
        return _h5.list_keys(I, s)
    return PList(I.iter_concrete(s))


@model(builtins.tuple)
def m_tuple(I, args, kw):
    if not args:
        return ()
    return tuple(I.iter_concrete(args[0]))


@model(builtins.dict)
def m_dict(I, args, kw):
    d = PDict()
    if args and isinstance(args[0], Opaque) and I.lenient:
        return Opaque(f"dict({args[0].tag})", elem_frozen=args[0].elem_frozen)
    if args:
        src = args[0]
        if isinstance(src, PDict):
            d.items.update(src.items)
        elif isinstance(src, SDict):
            if kw:
                raise Unsupported("dict(symbolic, **kw)")
            return SDict(src.kkind, src.has, src.get, src.n, src.key_at, src.tag)
        else:
            for pair in I.iter_concrete(src):
                k, v = I.unpack(pair, 2)
                d.items[k] = v
    d.items.update(kw)
    return d


class ArrSet:
    """set(array) minus a concrete set: only (in)equality with the empty set is supported."""

    def __init__(self, arr, excluded=frozenset()):
        self.arr = arr
        self.excluded = frozenset(excluded)

    def nonempty(self):
        a = self.arr
        q = [z3.Int(fresh_name("q")) for _ in a.shape]
        rng = z3.And(*[z3.And(x >= 0, x < to_z3(s_, "int")) for x, s_ in zip(q, a.shape)])
        e = a.elem(*q)
        if a.dtype == "bool":
            e = z3.If(e, 1, 0)
        notin = z3.And(*[e != (z3.RealVal(int(c)) if a.dtype == "real" else z3.IntVal(int(c))) for c in self.excluded]) if self.excluded else z3.BoolVal(True)
        return z3.Exists(q, z3.And(rng, notin))


class PSet:
    """A mutable Python set of concrete hashable members (created empty by `set()`, grown by
    update/add with concrete members)."""

    def __init__(self, items=()):
        self.items = set(items)

    def __iter__(self):
        return iter(sorted(self.items, key=repr))

    def __len__(self):
        return len(self.items)


def _pset_members(I, it):
    vals = list(it.items.keys()) if isinstance(it, PDict) else I.iter_concrete(it)
    if not all(I.is_concrete(x) for x in vals):
        raise Unsupported("set update with symbolic members")
    return [I.lower(x) if hasattr(I, "lower") else x for x in vals]


METHODS[(PSet, "update")] = lambda I, self, *its: [self.items.update(_pset_members(I, it)) for it in its] and None
METHODS[(PSet, "add")] = lambda I, self, x: self.items.add(_pset_members(I, [x])[0])
METHODS[(PSet, "discard")] = lambda I, self, x: self.items.discard(_pset_members(I, [x])[0])


@model(builtins.set, builtins.frozenset)
def m_set(I, args, kw):
    if not args:
        return PSet()
    if isinstance(args[0], Arr) and args[0].ndim >= 1 and not isinstance(args[0].shape[0], int):
        return ArrSet(args[0])
    items = I.iter_concrete(args[0])
    if all(I.is_concrete(x) for x in items):
        return frozenset(items)
    raise Unsupported("set() of symbolic members")


@model(builtins.sorted)
def m_sorted(I, args, kw):
    items = I.iter_concrete(args[0])
    if all(I.is_concrete(x) for x in items) and not kw:
        return PList(sorted(items))
    raise Unsupported("sorted() of symbolic members")


def _reduce_bool(I, it, is_any):
    it = I.unwrap(it)
    if isinstance(it, SList) and not isinstance(it.length, int):
        i = z3.Int(fresh_name("q"))
        t = zbool(I.truth(it.elem(i)))
        rng = z3.And(i >= 0, i < to_z3(it.length, "int"))
        if is_any:
            return mk(z3.Exists([i], z3.And(rng, t)), "bool")
        return mk(z3.ForAll([i], z3.Implies(rng, t)), "bool")
    if isinstance(it, Arr):
        from . import models_np

        return models_np.np_reduce_bool(I, it, is_any)
    conds = [I.truth(x) for x in I.iter_concrete(it)]
    r = I.or_all(conds) if is_any else I.and_all(conds)
    return r if isinstance(r, bool) else mk(r, "bool")


@model(builtins.any)
def m_any(I, args, kw):
    return _reduce_bool(I, args[0], True)


@model(builtins.all)
def m_all(I, args, kw):
    return _reduce_bool(I, args[0], False)


def _minmax(I, args, kw, is_max):
    vals = list(args) if len(args) > 1 else I.iter_concrete(I.unwrap(args[0]))
    if not vals:
        I.raise_(ValueError)
    out = vals[0]
    for v in vals[1:]:
        if not isinstance(out, SV) and not isinstance(v, SV):
            out = max(out, v) if is_max else min(out, v)
            continue
        k = "real" if "real" in (kind_of(out), kind_of(v)) else "int"
        zo, zv = to_z3(out, k), to_z3(v, k)
        # python max/min return the first on ties
        out = mk(z3.If(zv > zo, zv, zo) if is_max else z3.If(zv < zo, zv, zo), k)
    return out


@model(builtins.max)
def m_max(I, args, kw):
    return _minmax(I, args, kw, True)


@model(builtins.min)
def m_min(I, args, kw):
    return _minmax(I, args, kw, False)


@model(builtins.abs)
def m_abs(I, args, kw):
    v = args[0]
    if isinstance(v, SV):
        return mk(z3.If(v.e >= 0, v.e, -v.e), v.k)
    if isinstance(v, Arr):
        from . import models_np

        return models_np.map1(v, lambda e: z3.If(e >= 0, e, -e), v.dtype)
    return abs(v)


@model(builtins.sum)
def m_sum(I, args, kw):
    items = I.iter_concrete(args[0])
    out = args[1] if len(args) > 1 else 0
    for x in items:
        out = I.binop(ast.Add(), out, x)
    return out


@model(builtins.int)
def m_int(I, args, kw):
    v = args[0] if args else 0
    if isinstance(v, Opaque) and I.lenient:
        return Opaque(f"int({v.tag})")
    if isinstance(v, SV):
        if v.k == "int":
            return v
        if v.k in ("bool", "npbool"):
            return mk(z3.If(v.e, 1, 0), "int")
        if v.k == "real":
            # truncation toward zero
            fl = z3.ToInt(v.e)
            return mk(z3.If(v.e >= 0, fl, z3.If(z3.ToReal(fl) == v.e, fl, fl + 1)), "int")
        raise Unsupported(f"int() of {v.k}")
    try:
        return int(v, *args[1:])
    except (ValueError, TypeError) as exc:
        I.raise_(type(exc))


@model(builtins.float)
def m_float(I, args, kw):
    v = args[0] if args else 0.0
    if isinstance(v, Opaque) and I.lenient:
        return Opaque(f"float({v.tag})")
    if isinstance(v, SV):
        if v.k == "real":
            return v
        if v.k == "int":
            return mk(z3.ToReal(v.e), "real")
        raise Unsupported(f"float() of {v.k}")
    try:
        return float(v)
    except (ValueError, TypeError) as exc:
        I.raise_(type(exc))


@model(builtins.bool)
def m_bool(I, args, kw):
    t = I.truth(args[0]) if args else False
    return t if isinstance(t, bool) else mk(t, "bool")


@model(builtins.str)
def m_str(I, args, kw):
    v = args[0] if args else ""
    if isinstance(v, Opaque) and I.lenient:
        return Opaque(f"str({v.tag})", cls=str)
    if isinstance(v, SV):
        if v.k == "str":
            return v
        if v.k == "uid":
            theory.use("T-py.str(uuid) injective")
            return mk(_str_of_uid()(v.e), "str")
        raise Unsupported(f"str() of {v.k}")
    if I.is_concrete(v) and not isinstance(v, (PList, PDict)):
        return str(v)
    return Opaque("str()")


_STR_OF_UID = None


def _str_of_uid():
    global _STR_OF_UID
    if _STR_OF_UID is None:
        _STR_OF_UID = z3.Function("str_of_uid", z3.IntSort(), z3.IntSort())
    return _STR_OF_UID


@model(builtins.type)
def m_type(I, args, kw):
    if len(args) == 1:
        v = I.unwrap(args[0])
        return class_of(I, v)
    raise Unsupported("dynamic class creation with type()")


@model(builtins.callable)
def m_callable(I, args, kw):
    v = args[0]
    return isinstance(v, (BoundMethod, EngineCallable, WeakRef)) or callable(v)


@model(builtins.id)
def m_id(I, args, kw):
    v = args[0]
    if isinstance(v, Obj):
        return v.oid
    return id(v)


@model(builtins.print)
def m_print(I, args, kw):
    return None


@model(builtins.vars)
def m_vars(I, args, kw):
    v = args[0]
    if isinstance(v, Obj):
        return PDict(v.fields)
    raise Unsupported("vars() of non-object")


@model(builtins.iter)
def m_iter(I, args, kw):
    return args[0]


@model(builtins.repr)
def m_repr(I, args, kw):
    return Opaque("repr")


@model(_warnings.warn)
def m_warn(I, args, kw):
    I.ex.note("dropped", "warnings.warn(...)")
    return None


@model(_copy.deepcopy, _copy.copy)
def m_deepcopy(I, args, kw):
    from .values import snapshot

    v = args[0]
    if isinstance(v, Opaque) and I.lenient:
        return Opaque(f"deepcopy({v.tag})")
    if isinstance(v, Obj):
        raise Unsupported("deepcopy of an entity")
    return snapshot(v)


@model(_weakref.ref)
def m_weakref(I, args, kw):
    # a freshly created reference to a value the caller holds is alive; an abstract collaborator
    # that carries its own reference term is referred to by that term
    tgt = args[0]
    if hasattr(tgt, "attrs") and isinstance(getattr(tgt, "attrs", None), dict) and "__ref__" in tgt.attrs:
        tgt = tgt.attrs["__ref__"]
    return WeakRef(tgt, True)


CLASS_MODELS[_weakref.ref] = m_weakref
CLASS_MODELS[_weakref.ReferenceType] = m_weakref


def m_uuid(I, args, kw):
    v = args[0] if args else kw.get("hex")
    if isinstance(v, Opaque) and I.lenient:
        # parsing an unknown string: succeeds or raises ValueError
        if I.path.choose(2, f"uuid-parse@{I.cur_line}") == 1:
            I.raise_(ValueError)
        return Opaque(f"UUID({v.tag})", cls=_uuid.UUID)
    if isinstance(v, str):
        try:
            return _uuid.UUID(v)
        except ValueError:
            I.raise_(ValueError)
    if isinstance(v, SV) and v.k == "str":
        # parse: succeeds iff the string is uuid-shaped (uninterpreted predicate), inverse of str()
        theory.use("T-py.UUID(str) partial inverse of str(uuid)")
        ok = z3.Function("is_uuid_str", z3.IntSort(), z3.BoolSort())
        parse = z3.Function("uid_of_str", z3.IntSort(), z3.IntSort())
        if not I.path.branch(ok(v.e), f"uuid-parse@{I.cur_line}"):
            I.raise_(ValueError)
        return mk(parse(v.e), "uid")
    raise Unsupported("uuid.UUID of unsupported argument")


CLASS_MODELS[_uuid.UUID] = m_uuid


@model(_uuid.uuid4)
def m_uuid4(I, args, kw):
    theory.use("T-py.uuid4() fresh")
    u = sym("uuid4", "uid")
    fresh_set = I.path.ghost.setdefault("fresh_uids", [])
    for other in fresh_set:
        I.path.assume(u.e != other.e)
    fresh_set.append(u)
    for known in I.path.ghost.get("known_uids", []):
        I.path.assume(u.e != to_z3(known))
    return u


# ------------------------------------------------------------------------------ methods


@method(PList, "append")
def l_append(I, self, x):
    self.items.append(x)


@method(PList, "extend")
def l_extend(I, self, xs):
    self.items.extend(I.iter_concrete(xs))


@method(PList, "insert")
def l_insert(I, self, i, x):
    if not isinstance(i, int):
        raise Unsupported("list.insert with symbolic index")
    self.items.insert(i, x)


@method(PList, "copy")
def l_copy(I, self):
    return PList(list(self.items))


@method(PList, "pop")
def l_pop(I, self, i=-1):
    if not self.items:
        I.raise_(IndexError)
    if not isinstance(i, int):
        raise Unsupported("list.pop with symbolic index")
    return self.items.pop(i)


@method(PList, "remove")
def l_remove(I, self, x):
    for k, y in enumerate(self.items):
        if I.path.branch(zbool(I.eq(y, x)), f"list.remove-match[{k}]@{I.cur_line}"):
            del self.items[k]
            return None
    I.raise_(ValueError)


@method(PList, "index")
def l_index(I, self, x):
    for k, y in enumerate(self.items):
        if I.path.branch(zbool(I.eq(y, x)), f"list.index-match[{k}]@{I.cur_line}"):
            return k
    I.raise_(ValueError)


@method(PList, "count")
def l_count(I, self, x):
    out = 0
    for y in self.items:
        c = I.eq(y, x)
        out = I.binop(ast.Add(), out, c if isinstance(c, bool) else mk(z3.If(zbool(c), 1, 0), "int"))
    return out


@method(SList, "copy")
def sl_copy(I, self):
    return SList(self.length, self.elem, self.tag)


@method(SList, "append")
def sl_append(I, self, x):
    old, n = self.elem, to_z3(self.length, "int")
    self.elem = lambda i, _o=old, _n=n, _x=x: ite_value(to_z3(i, "int") == _n, _x, lambda: _o(i))
    self.length = mk(n + 1, "int")


@method(SList, "pop")
def sl_pop(I, self, *args):
    if args:
        raise Unsupported("SList.pop(i)")
    n = to_z3(self.length, "int")
    if not I.path.branch(n > 0, f"pop-nonempty@{I.cur_line}"):
        I.raise_(IndexError)
    v = self.elem(n - 1)
    self.length = mk(n - 1, "int")
    return v


@method(PDict, "get")
def d_get(I, self, key, default=None):
    if I.is_concrete(key):
        try:
            return self.items.get(key, default)
        except TypeError:
            I.raise_(TypeError)
    for k in list(self.items):
        if kind_of(k) != kind_of(key):
            continue
        if I.path.branch(zbool(I.eq(key, k)), f"get-key=={k!r}@{I.cur_line}"):
            return self.items[k]
    return default


@method(PDict, "items")
def d_items(I, self):
    return PList([(k, v) for k, v in self.items.items()])


@method(PDict, "keys")
def d_keys(I, self):
    from .values import PKeys

    return PKeys(list(self.items.keys()))


@method(PDict, "values")
def d_values(I, self):
    return PList(list(self.items.values()))


@method(PDict, "copy")
def d_copy(I, self):
    return PDict(dict(self.items))


@method(PDict, "update")
def d_update(I, self, other=None, **kw):
    if other is not None:
        if isinstance(other, PDict):
            self.items.update(other.items)
        elif isinstance(other, dict):
            self.items.update(other)
        elif isinstance(other, (PList, list, tuple)) and all((isinstance(p, (tuple, list)) and len(p) == 2) or (isinstance(p, PList) and len(p.items) == 2) for p in (other.items if isinstance(other, PList) else other)):
            # an iterable of (key, value) pairs of concrete length
            for p in (other.items if isinstance(other, PList) else other):
                k, v = (p.items if isinstance(p, PList) else p)
                self.items[k] = v
        else:
            raise Unsupported("dict.update with symbolic map")
    self.items.update(kw)


@method(PDict, "pop")
def d_pop(I, self, key, *default):
    if not I.is_concrete(key):
        raise Unsupported("dict.pop with symbolic key")
    if key in self.items:
        return self.items.pop(key)
    if default:
        return default[0]
    I.raise_(KeyError)


@method(PDict, "setdefault")
def d_setdefault(I, self, key, default=None):
    if not I.is_concrete(key):
        raise Unsupported("dict.setdefault with symbolic key")
    return self.items.setdefault(key, default)


@method(SDict, "get")
def sd_get(I, self, key, default=None):
    key = coerce_key(I, key, self.kkind, None)
    if key is None:
        return default
    has = zbool(self.has(key))
    if default is None:
        return maybe(has, self.get(key))
    val = self.get(key)
    try:
        return ite_value(has, val, lambda: default)
    except Unsupported:
        if I.path.branch(has, f"get-present@{I.cur_line}"):
            return val
        return default


@method(SDict, "items")
def sd_items(I, self):
    self.ensure_enum(I.path)
    return SList(self.n, lambda i, _s=self: (_s.key_at(i), _s.get(_s.key_at(i))), "items")


@method(SDict, "keys")
def sd_keys(I, self):
    self.ensure_enum(I.path)
    out = SList(self.n, self.key_at, "keys")
    out.keys_of = self  # x in d.keys()  <=>  x in d
    return out


@method(SDict, "values")
def sd_values(I, self):
    self.ensure_enum(I.path)
    return SList(self.n, lambda i, _s=self: _s.get(_s.key_at(i)), "values")


@method(SDict, "copy")
def sd_copy(I, self):
    return SDict(self.kkind, self.has, self.get, self.n, self.key_at, self.tag)


@method(SDict, "pop")
def sd_pop(I, self, key, *default):
    has = zbool(self.has(key))
    if I.path.branch(has, f"pop-present@{I.cur_line}"):
        v = self.get(key)
        self.delete(key)
        return v
    if default:
        return default[0]
    I.raise_(KeyError)


# strings ---------------------------------------------------------------------------------

_STRFUN: dict = {}


def strfun(name, arity=1):
    key = (name, arity)
    if key not in _STRFUN:
        _STRFUN[key] = z3.Function("str_" + name, *([z3.IntSort()] * arity), z3.IntSort())
    return _STRFUN[key]


def str_concat(I, a, b):
    """String concatenation as an injective-in-each-argument uninterpreted function."""
    theory.use("T-py.str concat (uninterpreted, injective per prefix)")
    f = strfun("concat", 2)
    za, zb = to_z3(a), to_z3(b)
    inv = strfun("concat_suffix", 2)
    r = f(za, zb)
    I.path.assume(inv(za, r) == zb)  # injective in the suffix for a fixed prefix
    return mk(r, "str")


def str_contains(I, s, x):
    f = z3.Function("str_contains", z3.IntSort(), z3.IntSort(), z3.BoolSort())
    return f(to_z3(s), to_z3(x))


def str_method(I, recv, name, args, kwargs):
    raise Unsupported(f"str.{name} with symbolic arguments")


def sv_str_method(name):
    def fn(I, self, *args, **kw):
        if self.k not in ("str", "bytes"):
            raise Unsupported(f".{name} on SV {self.k}")
        theory.use(f"T-py.str.{name} (uninterpreted)")
        if all(I.is_concrete(a) for a in args):
            f = z3.Function(f"str_{name}_" + "_".join(str(to_z3(a)) for a in args), z3.IntSort(), z3.IntSort())
            return mk(f(self.e), "bytes" if name == "encode" else ("str" if name == "decode" else self.k))
        raise Unsupported(f"str.{name} with symbolic arguments")

    return fn


for _n in ("replace", "lower", "upper", "capitalize", "strip", "encode", "decode", "title"):
    METHODS[(SV, _n)] = sv_str_method(_n)


def fstring(I, node, frame):
    parts = []
    for v in node.values:
        if isinstance(v, ast.Constant):
            parts.append(v.value)
        else:
            try:
                val = I.ev(v.value, frame)
            except RaiseSig:
                raise
            # conversions: !s is str(), which is what an unconverted field does for the kinds handled below;
            # !r / !a and format specs are evaluated natively on concrete values only
            if v.format_spec is not None or v.conversion not in (-1, 115):
                if I.is_concrete(val) and not isinstance(val, (PList, PDict)):
                    try:
                        spec = "" if v.format_spec is None else "".join(x.value for x in v.format_spec.values if isinstance(x, ast.Constant))
                        conv = {114: repr, 97: ascii, 115: str, -1: (lambda z: z)}[v.conversion]
                        parts.append(format(conv(I.lower(val) if hasattr(I, "lower") else val), spec))
                        continue
                    except Exception:
                        return Opaque("fstring")
                return Opaque("fstring")
            if isinstance(val, str):
                parts.append(val)
            elif isinstance(val, SV) and val.k == "str":
                parts.append(val)
            elif isinstance(val, SV) and val.k == "uid":
                parts.append(m_str(I, [val], {}))
            elif I.is_concrete(val) and not isinstance(val, (PList, PDict)):
                parts.append(str(val))
            else:
                return Opaque("fstring")
    out = None
    for p in parts:
        if out is None:
            out = p
        elif isinstance(out, str) and isinstance(p, str):
            out = out + p
        else:
            out = str_concat(I, out, p)
    return out if out is not None else ""


# comprehensions --------------------------------------------------------------------------


def comprehension(I, node, frame, kind):
    if len(node.generators) != 1:
        # nested generators only over concrete sequences
        return _comp_concrete(I, node, frame, kind)
    gen = node.generators[0]
    src = I.unwrap(I.ev(gen.iter, frame))
    symbolic = (isinstance(src, SList) and not isinstance(src.length, int)) or (
        isinstance(src, Arr) and not isinstance(src.shape[0], int)
    )
    if not symbolic:
        return _comp_concrete(I, node, frame, kind)
    if isinstance(src, Arr):
        from . import models_np

        src = SList(src.shape[0], lambda i, _a=src: models_np.index_first(I, _a, i), "rows")
    if kind == "dict":
        raise Unsupported("dict comprehension over a symbolic sequence")

    def sub_eval(expr, i):
        locs = dict(frame.locals)
        sub = Frame(frame.func, locs, frame.cls_ctx, frame.self_val, frame.depth)
        I.assign(gen.target, src.elem(i), sub)
        I.path.explorer.stats["quantified_evals"] = I.path.explorer.stats.get("quantified_evals", 0) + 1
        return I.ev(expr, sub)

    if not gen.ifs:
        return SList(src.length, lambda i: sub_eval(node.elt, i), "comp")
    # filtered: selection through pos/rank
    def pred(i):
        conds = [zbool(I.truth(sub_eval(c, i))) for c in gen.ifs]
        return z3.And(*conds) if len(conds) > 1 else conds[0]

    m, pos, rank = theory.mask_select(I.path, to_z3(src.length, "int"), pred, "filter")
    out = SList(mk(m, "int"), lambda j: sub_eval(node.elt, pos(to_z3(j, "int"))), "filter")
    out.sel = (src, pred, pos, rank)
    return out


def _comp_concrete(I, node, frame, kind):
    results = []
    locs = dict(frame.locals)
    sub = Frame(frame.func, locs, frame.cls_ctx, frame.self_val, frame.depth)

    def rec(gi):
        if gi == len(node.generators):
            if kind == "dict":
                results.append((I.ev(node.key, sub), I.ev(node.value, sub)))
            else:
                results.append(I.ev(node.elt, sub))
            return
        gen = node.generators[gi]
        for x in I.iter_concrete(I.unwrap(I.ev(gen.iter, sub))):
            I.assign(gen.target, x, sub)
            ok = True
            for c in gen.ifs:
                if not I.path.branch(zbool(I.truth(I.ev(c, sub))), f"comp-if@{I.cur_line}"):
                    ok = False
                    break
            if ok:
                rec(gi + 1)

    rec(0)
    if kind == "dict":
        d = PDict()
        for k, v in results:
            if not I.is_concrete(k):
                raise Unsupported("dict comprehension with symbolic key")
            d.items[k] = v
        return d
    if kind == "set":
        return frozenset(results)
    return PList(results)


# with ------------------------------------------------------------------------------------

WITH_MODELS: list = []


def exec_with(I, node, frame):
    if len(node.items) != 1:
        raise Unsupported("with statement with several items")
    item = node.items[0]
    cm = I.ev(item.context_expr, frame)
    for handler in WITH_MODELS:
        r = handler(I, cm, item, node, frame)
        if r is not NotImplemented:
            return r
    raise Unsupported(f"with statement on {cm!r} at {I.where()}")
