"""Conformance audits of the trusted base.

Every axiom schema the engine relies on registers itself through `theory.use(<name>)`.  For
each name used by a run, the audit below exercises the *real* library (numpy, h5py, uuid, the
repository's own helper where the axiom summarises one) on seeded random inputs and compares
the outcome with the statement the axiom encodes.  A disagreement means the engine's trusted
base is wrong: the run ends with an engine error (exit 3), never with a verdict.

Audits are tests of the axioms, not proofs of them: each is listed in the evidence as
"audited (n samples)"; modelling assumptions that cannot be tested (reals for floats) are listed
as unaudited.
"""
from __future__ import annotations

import itertools
import random
import uuid

import numpy as np

N = 60


def _mask_select(rng):
    for _ in range(N):
        n = rng.randint(0, 9)
        mask = np.array([rng.random() < 0.5 for _ in range(n)], dtype=bool)
        a = np.arange(n) * 10
        pos = np.flatnonzero(mask)
        if not np.array_equal(a[mask], a[pos]) or not np.all(np.diff(pos) > 0) or set(pos.tolist()) != {i for i in range(n) if mask[i]}:
            return f"a[mask] is not the increasing selection for {mask.tolist()}"
        rank = np.r_[0, np.cumsum(mask)]
        for i in range(n):
            if mask[i] and pos[rank[i]] != i:
                return f"rank/pos not inverse at {i} for {mask.tolist()}"
        if int(mask.sum()) != len(pos) or rank[n] != len(pos):
            return "count mismatch"
    return None


def _delete(rng):
    for _ in range(N):
        n = rng.randint(1, 8)
        a = np.arange(n * 2).reshape(n, 2)
        k = rng.randint(0, 4)
        idx = [rng.randint(-n, n - 1) for _ in range(k)]
        gone = {i % n for i in idx}
        keep = [i for i in range(n) if i not in gone]
        if not np.array_equal(np.delete(a, idx, axis=0), a[keep]):
            return f"np.delete({idx}) differs from a[keep]"
        try:
            np.delete(a, [n], axis=0)
            return "np.delete out of range did not raise"
        except IndexError:
            pass
    return None


def _vstack(rng):
    for _ in range(N):
        blocks = [np.arange(rng.randint(0, 4) * 2).reshape(-1, 2) + 100 * b for b in range(rng.randint(1, 4))]
        out = np.vstack(blocks)
        off = 0
        for b in blocks:
            if not np.array_equal(out[off:off + len(b)], b):
                return "vstack block not at the prefix-sum offset"
            off += len(b)
        if off != len(out):
            return "vstack row count"
    return None


def _ravel2(rng):
    for _ in range(N):
        d0, d1 = rng.randint(1, 5), rng.randint(1, 5)
        a = np.arange(d0 * d1).reshape(d0, d1)
        for i in range(d0):
            for j in range(d1):
                if a.ravel()[i * d1 + j] != a[i, j] or a.flatten()[i * d1 + j] != a[i, j]:
                    return "rank-2 C-order"
    return None


def _ravel3(rng):
    for _ in range(20):
        d = [rng.randint(1, 4) for _ in range(3)]
        a = np.arange(d[0] * d[1] * d[2]).reshape(d)
        for i, j, k in itertools.product(*[range(x) for x in d]):
            if a.ravel()[(i * d[1] + j) * d[2] + k] != a[i, j, k]:
                return "rank-3 C-order"
    return None


def _modf(rng):
    for _ in range(N):
        x = rng.choice([-1, 1]) * rng.random() * 100
        f, i = np.modf(x)
        if i != float(int(x)) or abs(f + i - x) > 1e-12:
            return f"modf({x})"
    return None


def _astype(rng):
    for _ in range(N):
        bits, signed, name = rng.choice([(8, True, "int8"), (32, True, "int32"), (32, False, "uint32"), (8, False, "uint8")])
        v = rng.randint(-2 ** 33, 2 ** 33)
        got = int(np.array([v], dtype="int64").astype(name)[0])
        w = v % (2 ** bits)
        exp = w - 2 ** bits if signed and w >= 2 ** (bits - 1) else w
        if got != exp:
            return f"astype({name}) of {v}: {got} != {exp}"
        x = rng.choice([-1, 1]) * rng.random() * 1000
        if int(np.array([x]).astype("int32")[0]) != int(x):
            return f"float->int32 truncation of {x}"
    return None


def _extrema(rng):
    for _ in range(N):
        n = rng.randint(1, 6)
        a = np.array([[rng.randint(-5, 5) for _ in range(3)] for _ in range(n)], dtype=float)
        lo, hi = a.min(axis=0), a.max(axis=0)
        for c in range(3):
            if not (np.all(a[:, c] >= lo[c]) and lo[c] in a[:, c] and np.all(a[:, c] <= hi[c]) and hi[c] in a[:, c]):
                return "min/max(axis=0) bound not attained"
        if not (a.min() in a and a.max() in a and np.all(a >= a.min())):
            return "min/max"
    for f in (lambda: np.zeros((0, 3)).min(axis=0), lambda: np.zeros(0).max()):
        try:
            f()
            return "extremum of empty array did not raise"
        except ValueError:
            pass
    return None


def _meshgrid(rng):
    x, y, z = np.arange(3.0), np.arange(4.0) + 10, np.arange(2.0) + 100
    X, Y = np.meshgrid(x, y)
    for j in range(4):
        for i in range(3):
            if X[j, i] != x[i] or Y[j, i] != y[j]:
                return "meshgrid 2-D xy indexing"
    X, Y, Z_ = np.meshgrid(x, y, z)
    for j, i, k in itertools.product(range(4), range(3), range(2)):
        if X[j, i, k] != x[i] or Y[j, i, k] != y[j] or Z_[j, i, k] != z[k]:
            return "meshgrid 3-D xy indexing"
    return None


def _cumsum(rng):
    for _ in range(N):
        n, c = rng.randint(0, 12), rng.choice([0.5, 1.0, 2.0, -2.0, 3.0])
        s = np.cumsum(np.ones(n) * c)
        if not np.array_equal(s, (np.arange(n) + 1) * c):
            return "cumsum of a constant array"
        a = np.array([rng.randint(0, 5) for _ in range(n)])
        ps = np.r_[0, np.cumsum(a)]
        if int(a.sum()) != ps[n] or any(ps[k + 1] != ps[k] + a[k] for k in range(n)):
            return "sum as prefix sum"
    return None


def _fancy_assign(rng):
    for _ in range(N):
        n = rng.randint(1, 8)
        a = np.zeros(n)
        idx = [rng.randint(0, n - 1) for _ in range(rng.randint(0, 4))]
        a[idx] = 7.0
        if any((a[i] == 7.0) != (i in idx) for i in range(n)):
            return "a[idx] = scalar"
    return None


def _divide(rng):
    for _ in range(N):
        n = rng.randint(1, 6)
        a = np.array([rng.random() + 1 for _ in range(n)])
        b = np.array([rng.choice([0.0, 2.0, 4.0]) for _ in range(n)])
        out = np.divide(a, b, where=b != 0, out=np.full(n, -1.0))
        if any(b[i] != 0 and out[i] != a[i] / b[i] for i in range(n)):
            return "divide(where=)"
    return None


def _rec(rng):
    r = np.core.records.fromarrays([1.0, 2.0, 3.0], dtype=[("x", float), ("y", float), ("z", float)])
    return None if (r["x"], r["y"], r["z"]) == (1.0, 2.0, 3.0) else "fromarrays"


def _uuid(rng):
    seen = {}
    for _ in range(N):
        u = uuid.uuid4()
        s = str(u)
        if s in seen or uuid.UUID(s) != u or uuid.UUID("{" + s + "}") != u:
            return "uuid str/parse"
        seen[s] = u
    return None


def _concat(rng):
    for _ in range(N):
        a, b, p = (str(rng.random()) for _ in range(3))
        if (p + a == p + b) != (a == b):
            return "concat injective per prefix"
    return None


def _h5(rng):
    import h5py

    with h5py.File("audit", "w", driver="core", backing_store=False) as f:
        g = f.create_group("G")
        if len(g) or len(g.attrs):
            return "create_group not empty"
        for fn in (lambda: f.create_group("G"), lambda: f.create_dataset("G", data=1), lambda: f.__setitem__("G", g)):
            try:
                fn()
                return "creating an existing name did not raise"
            except (ValueError, OSError, RuntimeError):
                pass
        f["L"] = g  # hard link: same node
        g.create_group("inside")
        if "inside" not in f["L"] or f["L"] != g:
            return "g[name] = handle is not a hard link to the same node"
        del f["G"]
        if "inside" not in f["L"]:
            return "unlinking one name destroyed a node still linked elsewhere"
        d = f.create_dataset("D", data=np.arange(3))
        if not np.array_equal(d[:], np.arange(3)):
            return "create_dataset data"
        g.attrs.create("A", 1)
        g.attrs.create("A", "x")
        if g.attrs["A"] != "x" or list(g.attrs) != ["A"]:
            return "attrs.create does not replace"
        from geoh5py.shared.utils import fetch_h5_handle

        with fetch_h5_handle(f) as h:
            if h is not f:
                return "fetch_h5_handle(handle) did not yield the handle"
        if not f.id.valid:
            return "fetch_h5_handle closed a handle it was given"
    return None


def _one_project(rng):
    import tempfile, os, h5py
    from geoh5py.workspace import Workspace

    d = tempfile.mkdtemp()
    try:
        p = os.path.join(d, "a.geoh5")
        Workspace.create(p).close()
        with h5py.File(p, "r") as f:
            return None if len(list(f)) == 1 else "a new geoh5 file has more than one top-level group"
    finally:
        import shutil

        shutil.rmtree(d, ignore_errors=True)


def _entities_truthy(rng):
    import inspect

    import geoh5py
    from geoh5py.groups import PropertyGroup
    from geoh5py.shared.entity import Entity
    from geoh5py.shared.entity_type import EntityType

    import importlib, pkgutil

    for m in pkgutil.walk_packages(geoh5py.__path__, "geoh5py."):
        try:
            mod = importlib.import_module(m.name)
        except Exception:
            continue
        for _, c in inspect.getmembers(mod, inspect.isclass):
            if issubclass(c, (Entity, EntityType, PropertyGroup)) and any("__bool__" in k.__dict__ or "__len__" in k.__dict__ for k in c.__mro__):
                return f"{c.__name__} defines __bool__/__len__"
    return None


def _argsort(rng):
    for _ in range(N):
        n = rng.randint(0, 8)
        a = np.array([rng.randint(0, 4) + rng.random() * rng.choice([0, 1]) for _ in range(n)])
        p = np.argsort(a)
        if sorted(p.tolist()) != list(range(n)) or np.any(np.diff(a[p]) < 0):
            return "argsort is not a sorting permutation"
        q = np.argsort(p)
        if not np.array_equal(p[q], np.arange(n)) or not np.array_equal(q[p], np.arange(n)):
            return "argsort of a permutation is not its inverse"
        d = np.diff(a)
        if len(d) != max(n - 1, 0) or any(d[i] != a[i + 1] - a[i] for i in range(len(d))):
            return "np.diff"
        w = rng.randint(1, 3)
        b = np.arange(w * rng.randint(0, 4))
        r = b.reshape((-1, w))
        if any(r[c, j] != b[c * w + j] for c in range(r.shape[0]) for j in range(w)):
            return "reshape (-1, w)"
    return None


def _equivalents(rng):
    for _ in range(N):
        n = rng.randint(0, 7)
        a = np.arange(n * 2, dtype=float).reshape(n, 2)
        m = np.array([rng.random() < 0.5 for _ in range(n)], dtype=bool)
        if not np.array_equal(np.compress(m, a, axis=0), a[m]) or not np.array_equal(np.flatnonzero(m), np.where(m)[0]):
            return "compress / flatnonzero"
        x, y = np.arange(n, dtype=float), np.arange(n, dtype=float) * 2
        if not np.array_equal(np.column_stack((x, y)), np.c_[x, y]):
            return "column_stack"
        if np.atleast_1d(x) is not x or np.atleast_1d(a) is not a:
            return "atleast_1d of an array with an axis is the array"
    return None


def _truediv(rng):
    for _ in range(N):
        a, b = rng.random() * 10 - 5, rng.choice([0.5, 2.0, 4.0, -8.0])
        if np.float64(a) / np.float64(b) != a / b:
            return "true division"
    return None


# axiom-name prefix -> audit
AUDITS = [
    ("T-np.mask_select", _mask_select), ("T-np.delete", _delete), ("T-np.vstack", _vstack), ("T-np.ravel C-order of rank-2", _ravel2),
    ("T-np.ravel C-order of rank-3", _ravel3), ("T-np.modf", _modf), ("T-np.astype", _astype), ("T-np.min/max", _extrema), ("T-np.max/min", _extrema),
    ("T-np.meshgrid", _meshgrid), ("T-np.cumsum", _cumsum), ("T-np.sum", _cumsum), ("T-np.fancy assignment", _fancy_assign), ("T-np.divide", _divide),
    ("T-np.true division", _truediv), ("T-np.compress", _equivalents), ("T-np.column_stack", _equivalents), ("T-np.atleast_1d", _equivalents), ("T-np.argsort", _argsort), ("T-np.diff", _argsort), ("T-np.reshape", _argsort), ("T-rec.fromarrays", _rec), ("T-py.uuid4", _uuid), ("T-py.str(uuid)", _uuid), ("T-py.UUID(str)", _uuid),
    ("T-py.str concat", _concat), ("T-py.entities are truthy", _entities_truthy), ("T-h5: a geoh5 file has exactly one", _one_project), ("T-h5", _h5),
]
# names that assume nothing (a function left uninterpreted) or a modelling choice that no test can confirm
NOTHING_ASSUMED = ("T-py.str.", "T-fp.np.", "T-fp.real modulo uninterpreted")
UNTESTABLE = ("T-fp.reals",)


def run(axioms, seed=1):
    rng = random.Random(seed)
    out = {"audited": [], "uninterpreted": [], "unaudited": [], "failed": []}
    done = {}
    for name in sorted(axioms):
        if name.startswith(NOTHING_ASSUMED):
            out["uninterpreted"].append(name)
            continue
        if name.startswith(UNTESTABLE):
            out["unaudited"].append(name + " (modelling assumption; cannot be tested)")
            continue
        fn = next((f for p, f in AUDITS if name.startswith(p)), None)
        if fn is None:
            out["unaudited"].append(name)
            continue
        if fn not in done:
            try:
                done[fn] = fn(rng)
            except Exception as exc:  # an audit that cannot run is a failed audit
                done[fn] = f"{type(exc).__name__}: {exc}"
        (out["failed"] if done[fn] else out["audited"]).append(name + (f": {done[fn]}" if done[fn] else ""))
    return out
