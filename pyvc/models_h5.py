"""T-h5: an HDF5 file as a symbolic link graph.

  links : Node -> (Name -> Node)      0 = no link; hard links are node equality
  attrs : Node -> (Name -> Val)       0 = no attribute (values are opaque integers)
  dset  : Node -> Val                 content of a dataset node
  kind  : Node -> {0 unused, 1 group, 2 dataset}
  next  : first unused node id (create_group / create_dataset return fresh nodes)

Every h5py operation used by the contracted code gets the contract written here (KeyError on a
missing link, ValueError on create over an existing name, ...).  These are assumed contracts on
the dependency, audited against the real h5py by pyvc/audits.py."""
from __future__ import annotations

import z3

from . import theory
from .core import RaiseSig, Unsupported, fresh_name
from .interp import METHODS, MODELS, EngineCallable
from .models_py import WITH_MODELS
from .values import SV, Maybe, Opaque, PList, maybe, mk, to_z3, zbool

I_ = z3.IntSort()
NameMap = z3.ArraySort(I_, I_)


class H5State:
    def __init__(self, tag="F"):
        self.links = z3.Const(fresh_name(tag + "_links"), z3.ArraySort(I_, NameMap))
        self.attrs = z3.Const(fresh_name(tag + "_attrs"), z3.ArraySort(I_, NameMap))
        self.dset = z3.Const(fresh_name(tag + "_dset"), z3.ArraySort(I_, I_))
        self.kind = z3.Const(fresh_name(tag + "_kind"), z3.ArraySort(I_, I_))
        self.next = z3.Int(fresh_name(tag + "_next"))
        self.root = z3.Int(fresh_name(tag + "_root"))
        self.mode = "r+"
        self.ops: list = []  # log of mutating operations (for frame reports)
        self.universe: dict = {}  # str(node term) -> candidate member names (finite shape declared by a contract)
        self.attr_universe: dict = {}

    def snapshot(self):
        s = H5State.__new__(H5State)
        s.links, s.attrs, s.dset, s.kind, s.next, s.root, s.mode, s.ops = self.links, self.attrs, self.dset, self.kind, self.next, self.root, self.mode, list(self.ops)
        s.universe, s.attr_universe = self.universe, self.attr_universe
        return s

    def declare_members(self, node, names):
        """The node has no member outside `names` (shape bound declared by a contract)."""
        self.universe[str(z3.simplify(node))] = list(names)

    def declare_attrs(self, node, names):
        self.attr_universe[str(z3.simplify(node))] = list(names)

    def link(self, node, name):
        return z3.Select(z3.Select(self.links, node), name)

    def attr(self, node, name):
        return z3.Select(z3.Select(self.attrs, node), name)

    def set_link(self, node, name, target):
        self.links = z3.Store(self.links, node, z3.Store(z3.Select(self.links, node), name, target))

    def set_attr(self, node, name, val):
        self.attrs = z3.Store(self.attrs, node, z3.Store(z3.Select(self.attrs, node), name, val))

    def fresh_node(self, path, kind):
        n = self.next
        # a fresh node is unused so far: no links, no attributes
        self.next = z3.simplify(self.next + 1)
        self.kind = z3.Store(self.kind, n, z3.IntVal(kind))
        self.links = z3.Store(self.links, n, z3.K(I_, z3.IntVal(0)))
        self.attrs = z3.Store(self.attrs, n, z3.K(I_, z3.IntVal(0)))
        return n


class H5Node:
    def __init__(self, st, node, is_file=False):
        self.st = st
        self.node = node
        self.is_file = is_file

    def __repr__(self):
        return f"H5Node({self.node})"


class H5Attrs:
    def __init__(self, node):
        self.h = node


def name_term(I, name):
    if isinstance(name, str):
        return to_z3(name)
    if isinstance(name, SV) and name.k in ("str", "bytes"):
        return name.e
    raise Unsupported(f"h5 name of type {type(name).__name__}")


_VAL = {}


def val_of(I, v):
    """Opaque stored value of an engine value (injective on distinct terms is NOT assumed)."""
    if isinstance(v, (SV,)):
        f = _VAL.setdefault(v.k, z3.Function("h5val_" + v.k, z3.RealSort() if v.k == "real" else (z3.BoolSort() if v.k in ("bool", "npbool") else I_), I_))
        return f(v.e)
    if isinstance(v, (int, float, str, bool, bytes)) or v is None:
        return z3.IntVal(hash(("const", repr(v))) % (2 ** 40) + 1)
    key = id(v)
    cache = I.path.ghost.setdefault("h5vals", {})
    if key not in cache:
        cache[key] = (z3.Int(fresh_name("h5val")), v)
    return cache[key][0]


# ---- item access (called from models_py.getitem/setitem/delitem and Interp.contains) ----------


def getitem(I, base, idx):
    if isinstance(base, H5Attrs):
        st, n = base.h.st, base.h.node
        nm = name_term(I, idx)
        if not I.path.branch(st.attr(n, nm) != 0, f"h5-attr-present@{I.cur_line}"):
            I.raise_(KeyError)
        return Opaque(f"attr[{idx}]", term=st.attr(n, nm))
    st, n = base.st, base.node
    if isinstance(idx, (slice, tuple)) or idx is Ellipsis:
        return Opaque("dataset-values", term=z3.Select(st.dset, n))  # dataset[:] / dataset[()]
    nm = name_term(I, idx)
    child = st.link(n, nm)
    if not I.path.branch(child != 0, f"h5-link-present@{I.cur_line}"):
        I.raise_(KeyError)
    return H5Node(st, z3.simplify(child))


def contains(I, base, idx):
    if isinstance(base, H5Attrs):
        return base.h.st.attr(base.h.node, name_term(I, idx)) != 0
    return base.st.link(base.node, name_term(I, idx)) != 0


def setitem(I, base, idx, value):
    if isinstance(base, H5Attrs):
        base.h.st.set_attr(base.h.node, name_term(I, idx), val_of(I, value))
        base.h.st.ops.append(("attr", base.h.node, idx))
        return
    if not isinstance(value, H5Node):
        raise Unsupported("h5 item assignment of a non-handle (dataset creation by assignment)")
    st, n = base.st, base.node
    nm = name_term(I, idx)
    theory.use("T-h5: g[name] = handle creates a hard link (same node); ValueError/OSError if the name exists")
    if not I.path.branch(st.link(n, nm) == 0, f"h5-link-free@{I.cur_line}"):
        I.raise_(ValueError)
    st.set_link(n, nm, value.node)
    st.ops.append(("link", n, idx, value.node))


def delitem(I, base, idx):
    if isinstance(base, H5Attrs):
        st, n = base.h.st, base.h.node
        nm = name_term(I, idx)
        if not I.path.branch(st.attr(n, nm) != 0, f"h5-attr-present@{I.cur_line}"):
            I.raise_(KeyError)
        st.set_attr(n, nm, z3.IntVal(0))
        return
    st, n = base.st, base.node
    nm = name_term(I, idx)
    if not I.path.branch(st.link(n, nm) != 0, f"h5-link-present@{I.cur_line}"):
        I.raise_(KeyError)
    st.set_link(n, nm, z3.IntVal(0))
    st.ops.append(("unlink", n, idx))


def list_keys(I, base):
    if isinstance(base, H5Node) and not base.is_file and str(z3.simplify(base.node)) in base.st.universe:
        return PList(members(I, base))
    if isinstance(base, H5Node) and base.is_file:
        theory.use("T-h5: a geoh5 file has exactly one top-level group (the project) -- precondition WF(a)")
        return PList([mk(I.path.ghost["h5_project_name"], "str")])
    raise Unsupported("listing the names of an arbitrary h5 group")


def members(I, h):
    """Present member names of a node, in the declared order (h5py iterates names in a fixed
    order; the order among symbolic names is the declared one)."""
    uni = h.st.universe.get(str(z3.simplify(h.node)))
    if uni is None:
        raise Unsupported("iteration over the members of an h5 node without a declared shape")
    out = []
    for name in uni:
        nm = name_term(I, name)
        if I.path.branch(h.st.link(h.node, nm) != 0, f"h5-member-present@{I.cur_line}"):
            out.append(name)
    return out


def attr_members(I, a):
    uni = a.h.st.attr_universe.get(str(z3.simplify(a.h.node)))
    if uni is None:
        raise Unsupported("iteration over the attributes of an h5 node without a declared shape")
    out = []
    for name in uni:
        if I.path.branch(a.h.st.attr(a.h.node, name_term(I, name)) != 0, f"h5-attr-present@{I.cur_line}"):
            out.append(name)
    return out


# ---- methods -----------------------------------------------------------------------------------


def _m(name):
    def deco(fn):
        METHODS[(H5Node, name)] = fn
        return fn

    return deco


@_m("get")
def h_get(I, self, name, default=None):
    child = self.st.link(self.node, name_term(I, name))
    return maybe(child != 0, H5Node(self.st, z3.simplify(child)))


@_m("create_group")
def h_create_group(I, self, name, **kw):
    theory.use("T-h5: create_group returns a fresh empty group; ValueError if the name exists")
    nm = name_term(I, name)
    if not I.path.branch(self.st.link(self.node, nm) == 0, f"h5-name-free@{I.cur_line}"):
        I.raise_(ValueError)
    n = self.st.fresh_node(I.path, 1)
    self.st.set_link(self.node, nm, n)
    self.st.ops.append(("create_group", self.node, name, n))
    return H5Node(self.st, n)


@_m("create_dataset")
def h_create_dataset(I, self, name, *args, **kw):
    theory.use("T-h5: create_dataset returns a fresh dataset node; ValueError if the name exists")
    nm = name_term(I, name)
    if not I.path.branch(self.st.link(self.node, nm) == 0, f"h5-name-free@{I.cur_line}"):
        I.raise_(ValueError)
    n = self.st.fresh_node(I.path, 2)
    self.st.set_link(self.node, nm, n)
    data = kw.get("data", args[0] if args else None)
    self.st.dset = z3.Store(self.st.dset, n, val_of(I, data))
    self.st.ops.append(("create_dataset", self.node, name, n))
    return H5Node(self.st, n)


@_m("items")
def h_items(I, self):
    return PList([(n, H5Node(self.st, z3.simplify(self.st.link(self.node, name_term(I, n))))) for n in members(I, self)])


@_m("keys")
def h_keys(I, self):
    return PList(members(I, self))


class NotText:
    """class of a stored attribute value that is not a str (number, array, ...)"""


def a_items(I, self):
    if getattr(I, "ctx", None) is not None and I.ctx.env.get("typed_attr_values"):
        # each stored attribute value is either a text (a symbolic str whose term is the stored value) or something else
        out = []
        for n in attr_members(I, self):
            term = self.h.st.attr(self.h.node, name_term(I, n))
            out.append((n, mk(term, "str") if I.path.choose(2, f"attr-{n}-is-text") else Opaque(f"attr[{n}]", term=term, cls=NotText)))
        return PList(out)
    return PList([(n, Opaque(f"attr[{n}]", term=self.h.st.attr(self.h.node, name_term(I, n)))) for n in attr_members(I, self)])


METHODS[(H5Attrs, "items")] = a_items


def _attrs_prop(I, self):
    return H5Attrs(self)


_attrs_prop.is_property = True
METHODS[(H5Node, "attrs")] = _attrs_prop


def _mode_prop(I, self):
    return self.st.mode


_mode_prop.is_property = True
METHODS[(H5Node, "mode")] = _mode_prop


def a_create(I, self, name, data=None, dtype=None, **kw):
    theory.use("T-h5: attrs.create(name, value) sets (or replaces) one attribute of that node")
    self.h.st.set_attr(self.h.node, name_term(I, name), val_of(I, data))
    self.h.st.ops.append(("attr", self.h.node, name))
    return None


METHODS[(H5Attrs, "create")] = a_create


# ---- context managers ----------------------------------------------------------------------


class CtxMgr:
    def __init__(self, value):
        self.value = value


def _install():
    from geoh5py.shared import utils

    f = utils.fetch_h5_handle

    def model(I, args, kw):
        theory.use("T-h5.fetch_h5_handle(handle) yields the same handle (no re-open, no close)")
        return CtxMgr(args[0])

    MODELS[id(f)] = (f, model)


def with_handler(I, cm, item, node, frame):
    from .values import AbsObj, Obj, zbool as zb

    if isinstance(cm, CtxMgr):
        if item.optional_vars is not None:
            I.assign(item.optional_vars, cm.value, frame)
        I.exec_body(node.body, frame)
        return None
    if isinstance(cm, (Obj, AbsObj)):
        entered = I.call(I.getattr(cm, "__enter__", frame), [], {}, frame)
        if item.optional_vars is not None:
            I.assign(item.optional_vars, entered, frame)
        try:
            I.exec_body(node.body, frame)
        except RaiseSig as sig:
            swallow = I.call(I.getattr(cm, "__exit__", frame), [sig.exc_class, Opaque("exc"), Opaque("tb")], {}, frame)
            t = I.truth(swallow)
            if swallow is None or (isinstance(t, bool) and not t):
                raise
            if I.path.branch(zb(t), "exit-swallows"):
                return None
            raise
        I.call(I.getattr(cm, "__exit__", frame), [None, None, None], {}, frame)
        return None
    if isinstance(cm, Opaque) and I.lenient:
        if item.optional_vars is not None:
            I.assign(item.optional_vars, cm, frame)
        I.exec_body(node.body, frame)
        return None
    return NotImplemented


WITH_MODELS.append(with_handler)
try:
    _install()
except Exception:  # geoh5py not importable yet
    pass
