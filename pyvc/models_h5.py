"""T-h5 (part): context managers around h5py handles.

`fetch_h5_handle(file)` given an open handle yields that same handle and does not close it (this
is what its source does for `isinstance(file, h5py.File)`; the path-string branch opens a new
file and is not used by any contracted caller)."""
from __future__ import annotations

from . import theory
from .core import Unsupported
from .interp import MODELS
from .models_py import WITH_MODELS
from .values import Opaque, zbool as zb


class CtxMgr:
    def __init__(self, value):
        self.value = value


def _install():
    from geoh5py.shared import utils

    f = utils.fetch_h5_handle

    def model(I, args, kw):
        theory.use("T-h5.fetch_h5_handle(handle) yields the same handle (no re-open, no close)")
        return CtxMgr(args[0])

    MODELS[id(f)] = (f, model)
    # other modules import the name directly: same function object


def with_handler(I, cm, item, node, frame):
    if isinstance(cm, CtxMgr):
        if item.optional_vars is not None:
            I.assign(item.optional_vars, cm.value, frame)
        I.exec_body(node.body, frame)
        return None
    from .values import AbsObj, Obj
    from .core import RaiseSig

    if isinstance(cm, (Obj, AbsObj)):
        # the context-manager protocol on a real class: __enter__ / __exit__ are executed
        entered = I.call(I.getattr(cm, "__enter__", frame), [], {}, frame)
        if item.optional_vars is not None:
            I.assign(item.optional_vars, entered, frame)
        try:
            I.exec_body(node.body, frame)
        except RaiseSig as sig:
            swallow = I.call(I.getattr(cm, "__exit__", frame), [sig.exc_class, Opaque("exc"), Opaque("tb")], {}, frame)
            t = I.truth(swallow)
            if isinstance(t, bool) and not t or swallow is None:
                raise
            if I.path.branch(zb(t), "exit-swallows"):
                return None
            raise
        I.call(I.getattr(cm, "__exit__", frame), [None, None, None], {}, frame)
        return None
    if isinstance(cm, Opaque) and I.lenient:
        if item.optional_vars is not None:
            I.assign(item.optional_vars, cm, frame)
        I.exec_body(node.body, frame)
        return None
    return NotImplemented


WITH_MODELS.append(with_handler)
try:
    _install()
except Exception:  # geoh5py not importable yet (setup phase)
    pass


def getitem(I, base, idx):
    raise Unsupported("h5 item access (T-h5 link graph not installed for this contract)")


def delitem(I, base, idx):
    raise Unsupported("h5 item deletion")


def list_keys(I, base):
    raise Unsupported("h5 key listing")
