"""bin/check <PID> [--tier quick|thorough] [--replay FILE]

Exit codes: 0 all obligations discharged (bounded stand-ins clean, known findings listed),
1 VIOLATION, 2 undecided, 3 engine error.
"""
from __future__ import annotations

import argparse
import importlib
import tempfile
import json
import os
import sys
import time
import traceback

VERIF = os.path.dirname(os.path.dirname(os.path.abspath(__file__)))


def load_known(pid):
    path = os.path.join(VERIF, "known_findings.json")
    if not os.path.exists(path):
        return []
    with open(path) as fh:
        data = json.load(fh)
    return [f for f in data.get("findings", []) if (f.get("property") == pid or pid in (f.get("also") or [])) and f.get("status", "open") == "open"]


def load_lock(pid):
    path = os.path.join(VERIF, "obligations", f"{pid}.lock.json")
    if not os.path.exists(path):
        return None
    with open(path) as fh:
        return json.load(fh)


def jsonable(x):
    try:
        json.dumps(x)
        return x
    except TypeError:
        return repr(x)


def write_replay(pid, name, payload):
    d = os.path.join(VERIF, "replays", pid)
    os.makedirs(d, exist_ok=True)
    safe = "".join(c if c.isalnum() or c in "-_." else "_" for c in name)[:120]
    path = os.path.join(d, f"{safe}.json")
    with open(path, "w") as fh:
        json.dump(payload, fh, indent=1, default=repr)
    return path


def main(argv=None):
    ap = argparse.ArgumentParser()
    ap.add_argument("pid")
    ap.add_argument("--tier", default=os.environ.get("VERIF_TIER", "quick"))
    ap.add_argument("--replay")
    ap.add_argument("--update-lock", action="store_true")
    ap.add_argument("--only")
    args = ap.parse_args(argv)
    pid = args.pid
    tier = args.tier if args.tier in ("quick", "thorough") else "quick"
    seed = int(os.environ.get("VERIF_SEED", "0") or 0)
    t0 = time.time()

    from . import harness, reflect

    try:
        reflect.ensure_repo_on_path()
        prop = importlib.import_module(f"props.{pid}")
    except Exception:
        traceback.print_exc()
        print(f"ENGINE-ERROR property={pid} cannot load property module")
        return 3

    if args.replay:
        return replay(prop, args.replay)

    contracts = list(prop.CONTRACTS)
    all_specs = [(c.__module__, c.__name__) for c in contracts]
    jobs = []
    for c in contracts:
        if args.only and args.only not in c.__name__:
            continue
        inst = c()
        if getattr(c, "symbolic", True):
            for case in inst.cases():
                jobs.append(("sym", c.__module__, c.__name__, case, tier, seed, all_specs))
        if getattr(c, "has_native", False):
            shards = int(getattr(c, "native_shards", 1) or 1)
            for k in range(shards):
                jobs.append(("native", c.__module__, c.__name__, (k, shards) if shards > 1 else None, tier, seed, all_specs))
    results = harness.run_jobs(jobs)

    extra = []
    for fn in getattr(prop, "EXTRA_CHECKS", []):
        try:
            extra.append(fn(tier, seed))
        except Exception:
            extra.append({"name": getattr(fn, "__name__", "extra"), "error": traceback.format_exc(limit=6)})

    return decide(pid, prop, tier, seed, results, extra, t0, args)


def decide(pid, prop, tier, seed, results, extra, t0, args):
    known = load_known(pid)
    lock = load_lock(pid)
    violations, undecided, engine_errors, known_hits = [], [], [], []
    kf_obligations = []
    informational = []
    discharged, ob_total = 0, 0
    names_ok, names_all = set(), set()
    by_backend = {}
    solver_s = 0.0
    functions = []
    standins = []
    samples = []
    native_by_contract = {}
    unsupported = []
    axioms = set()
    notes = set()
    n_paths = 0

    for kind, cname, r in results:
        if kind == "error":
            engine_errors.append(f"{cname}: {r}")
        elif kind == "native":
            prev = native_by_contract.get(r["contract"])
            if prev is None:
                native_by_contract[r["contract"]] = r
            else:  # another shard of the same stand-in
                prev["cases"] += r["cases"]
                prev["failures"].extend(r["failures"])
                prev["samples"] = (prev["samples"] + r["samples"])[:2]
                prev["error"] = prev["error"] or r["error"]
            if r["error"]:
                engine_errors.append(f"native {cname}: {r['error']}")

    def match_known(contract_name, ob_name, detail_case):
        """A finding suppresses exactly one named obligation (the one the contract restricts to the
        recorded failing input class) or, for native findings, one recorded input."""
        for f in known:
            if f.get("contract") and f["contract"] != contract_name:
                continue
            if f.get("contracts") and contract_name not in f["contracts"]:
                continue
            if f.get("obligations"):
                if ob_name in f["obligations"]:
                    return f
                continue
            if f.get("obligation"):
                if ob_name != f["obligation"]:
                    continue
                return f
            if f.get("native_input") is not None and jsonable(detail_case) == f["native_input"]:
                return f
            if f.get("native_inputs") and jsonable(detail_case) in f["native_inputs"]:
                return f
        return None

    for kind, cname, r in results:
        if kind != "sym":
            continue
        n_paths += r.get("paths", 0)
        functions.append({"contract": r["contract"], "case": r["case"], "where": r["where"], "src_hash": r["src_hash"], "paths": r.get("paths"), "ended": r.get("ended"), "unsupported": r["unsupported"]})
        axioms.update(r.get("axioms", []))
        for n in r.get("notes", []):
            notes.add(tuple(n))
        if r["unsupported"]:
            unsupported.append((r["contract"], r["case"], r["unsupported"]))
            continue
        for ob in r["obligations"]:
            ob_total += 1
            names_all.add(ob["name"])
            solver_s += ob["s"]
            if ob["verdict"] == "unsat":
                discharged += 1
                by_backend[ob["backend"]] = by_backend.get(ob["backend"], 0) + 1
                if len(samples) < 6 and ob["kind"] not in ("cover",):
                    samples.append({"obligation": ob["name"], "verdict": "discharged", "backend": ob["backend"], "s": ob["s"], "assumptions_in_pc": ob["size"], "where": ob["where"]})
                continue
            # not discharged
            if ob["kind"] == "info":
                ob_total -= 1
                informational.append({"obligation": ob["name"], "note": ob.get("note")})
                continue
            nat = native_by_contract.get(r["contract"])
            rec = {"contract": r["contract"], "case": r["case"], "obligation": ob["name"], "verdict": ob["verdict"], "closed_path": ob["closed"], "where": ob["where"], "note": ob.get("note"), "model": ob.get("model"), "witness": ob.get("witness"), "replay": ob.get("replay"), "replay_detail": ob.get("replay_detail"), "replay_error": ob.get("replay_error"), "witness_error": ob.get("witness_error")}
            kf = match_known(r["contract"], ob["name"], None)
            if kf is not None and (kf.get("obligation") == ob["name"] or ob["name"] in kf.get("obligations", [])):
                known_hits.append((kf, rec))
                ob_total -= 1  # counted separately: an obligation restricted to a recorded failing input class
                kf_obligations.append(ob["name"])
            elif ob["verdict"] == "sat" and ob.get("replay") == "fails":
                rec["how"] = "solver counterexample replayed on the real code"
                violations.append(rec)
            elif nat and nat["failures"]:
                rec["how"] = "bounded native refuter"
                rec["witness"] = jsonable(nat["failures"][0]["case"])
                rec["replay_detail"] = nat["failures"][0]["detail"]
                violations.append(rec)
            elif ob["verdict"] == "sat" and ob["closed"] and lock and ob["name"] in lock.get("discharged", []):
                rec["how"] = "no-failing-input-found"
                violations.append(rec)
            elif ob["verdict"] == "sat" and ob["closed"] and lock and ob["kind"] in ("post", "post-exc") and any(n.startswith(r["contract"] + "/") for n in lock.get("discharged", [])):
                # an obligation that did not exist on the pinned tree because its path did not exist there (a new
                # normal return or a new exception of a function whose contract is locked): the contract's
                # postconditions bind every path, so a refuted one is a regression of that contract
                rec["how"] = "no-failing-input-found"
                rec["note"] = ((rec.get("note") or "") + " [obligation of a locked contract on a path that is new on this tree]").strip()
                violations.append(rec)
            else:
                if ob["verdict"] == "unknown":
                    rec["note"] = ((rec.get("note") or "") + " [solver stages: " + str(ob.get("backend")) + "]").strip()
                undecided.append(rec)

    # names: an obligation name counts as discharged only if every instance is
    bad_names = {v["obligation"] for v in violations} | {u["obligation"] for u in undecided}
    names_ok = names_all - bad_names - set(kf_obligations)

    # bounded stand-ins: contracts whose symbolic run is unsupported, or native-only contracts
    sym_contracts = {r["contract"] for k, _, r in results if k == "sym"}
    for cname, nat in native_by_contract.items():
        role = "cross-check"
        if cname not in sym_contracts or any(u[0] == cname for u in unsupported):
            role = "bounded stand-in"
        standins.append({"contract": cname, "role": role, "cases": nat["cases"], "scope": nat["scope"], "failures": len(nat["failures"]), "samples": nat["samples"]})
        if nat["failures"]:
            already = any(v["contract"] == cname for v in violations)
            if not already:
                # one violation per distinct failure text (a recorded known finding among them must not hide the others)
                seen_labels = set()
                for f in nat["failures"]:
                    label = f"{cname}/native:{f['detail'].split(':')[0][:60]}"
                    key = (label, json.dumps(jsonable(f["case"]), sort_keys=True, default=str)) if match_known(cname, label, f["case"]) else (label, None)
                    if key in seen_labels:
                        continue
                    seen_labels.add(key)
                    violations.append({"contract": cname, "case": "native", "obligation": label, "verdict": "native-fail", "how": "bounded native check", "witness": jsonable(f["case"]), "replay_detail": f["detail"], "closed_path": True})
    for cname, case, why in unsupported:
        print(f"UNSUPPORTED property={pid} contract={cname} case={case}: {why[:300]} -> {'bounded stand-in' if cname in native_by_contract else 'undecided'}", file=sys.stderr)
        if cname not in native_by_contract:
            undecided.append({"contract": cname, "case": case, "obligation": f"{cname}/unsupported", "verdict": "unsupported", "note": why})

    for e in extra:
        if e.get("error"):
            engine_errors.append(f"extra {e.get('name')}: {e['error']}")
            continue
        ob_total += e.get("obligations", 0)
        discharged += e.get("discharged", 0)
        for v in e.get("violations", []):
            violations.append(v)
        for u in e.get("undecided", []):
            undecided.append(u)
        for s in e.get("samples", [])[:3]:
            samples.append(s)
        for n in e.get("names_ok", []):
            names_ok.add(n)
            names_all.add(n)
        if e.get("standin"):
            standins.append(e["standin"])

    # lock file: names that discharged on the pinned tree must still be generated & discharged
    missing = []
    if lock and not args.only:
        for n in lock.get("discharged", []):
            if n not in names_all:
                missing.append(n)
        for n in missing:
            undecided.append({"contract": n.split("/")[0], "obligation": n, "verdict": "missing", "note": "obligation listed in the lock file was not generated on this tree"})

    # known findings: each recorded witness is replayed on the real code on every run
    stale = []
    for f in known:
        if f.get("witness") is None or not (f.get("witness_contract") or f.get("contract")):
            continue
        for c in prop.CONTRACTS:
            try:
                inst = c()
            except Exception:
                continue
            if inst.name == (f.get("witness_contract") or f.get("contract")) and getattr(c, "has_native", False):
                try:
                    fail = inst.native_check(f["witness"])
                except Exception as exc:
                    fail = f"{type(exc).__name__}: {exc}"
                if fail:
                    if not any(k is f for k, _ in known_hits):
                        known_hits.append((f, {"contract": f.get("contract") or f.get("witness_contract"), "obligation": f.get("obligation", "native"), "replay_detail": fail}))
                else:
                    stale.append(f["id"])
    real_violations = []
    for v in violations:
        f = match_known(v["contract"], v["obligation"], v.get("witness"))
        if f is not None:
            known_hits.append((f, v))
        else:
            real_violations.append(v)

    if args.update_lock and not args.only and os.path.realpath(os.environ.get("PYVC_REPO", "/repo")) == os.path.realpath("/repo"):
        os.makedirs(os.path.join(VERIF, "obligations"), exist_ok=True)
        with open(os.path.join(VERIF, "obligations", f"{pid}.lock.json"), "w") as fh:
            json.dump({"property": pid, "discharged": sorted(names_ok)}, fh, indent=1)

    # ---------------------------------------------------------------- report
    rc = 0
    printed = set()
    for f, v in known_hits:
        key = f["id"]
        if key in printed:
            continue
        printed.add(key)
        print(f"KNOWN-FINDING: property={pid} {f['id']}: {f['text']}")
    seen_names = set()
    # violations that come with a failing input replayed on the real code are reported first
    real_violations.sort(key=lambda v: v.get("how") == "no-failing-input-found")
    for v in real_violations:
        if v["obligation"] in seen_names:
            continue
        seen_names.add(v["obligation"])
        payload = dict(v)
        payload["property"] = pid
        payload["replay_cmd"] = f"./bin/check {pid} --replay <this file>"
        path = write_replay(pid, v["obligation"], payload)
        tail = " no-failing-input-found" if v.get("how") == "no-failing-input-found" else ""
        print(f"VIOLATION property={pid} replay={path}{tail}")
        print(f"  obligation: {v['obligation']}  ({v.get('how')})")
        if v.get("replay_detail"):
            print(f"  detail: {str(v['replay_detail'])[:400]}")
        rc = 1
    if engine_errors:
        for e in engine_errors:
            print(f"ENGINE-ERROR property={pid} {e}", file=sys.stderr)
        rc = max(rc, 3) if rc != 1 else 1
    if undecided and rc == 0:
        rc = 2
    for u in undecided:
        print(f"UNDECIDED property={pid} obligation={u['obligation']} verdict={u['verdict']} {str(u.get('note') or '')[:300]}", file=sys.stderr)
    # trusted base: every axiom schema used by this run is audited against the real library
    from . import audits as _audits

    audit = _audits.run(axioms, seed or 1)
    for a in audit["failed"]:
        print(f"ENGINE-ERROR property={pid} axiom disagrees with the library: {a}", file=sys.stderr)
        rc = 3 if rc != 1 else 1
    if ob_total == 0 and rc == 0:
        print(f"ENGINE-ERROR property={pid} zero obligations generated", file=sys.stderr)
        rc = 3

    # obligations that count: discharged ones plus every one that failed or stayed undecided
    # (informational and known-finding obligations are listed separately)
    not_discharged = {(v.get("contract"), v.get("obligation"), v.get("case")) for v in real_violations} | {(u.get("contract"), u.get("obligation"), u.get("case")) for u in undecided}
    ob_total = discharged + len(not_discharged)
    level = getattr(prop, "LEVEL", "proof")
    all_deductive = not any(s["role"] == "bounded stand-in" for s in standins)
    ev = {
        "property_id": pid,
        "tier": tier,
        "seed": seed,
        "level": (getattr(prop, "MANIFEST", {}) or {}).get("category", "proof") if discharged > 0 else "other",
        "coverage": {
            "obligations": ob_total,
            "discharged": discharged,
            "obligation_names": len(names_all),
            "obligation_names_discharged": len(names_ok),
            "checker_cmd": f"./bin/check {pid} --tier {tier}",
            "by_backend": by_backend,
            "solver_s": round(solver_s, 3),
            "paths_explored": n_paths,
            "functions_under_contract": functions,
            "trusted_base": sorted(axioms) + list(getattr(prop, "TRUSTED", [])),
            "trusted_base_audit": audit,
            "inlined_or_dropped": sorted(f"{k}: {t}" for k, t in notes),
            "bounded_standins": standins,
            "all_parts_deductive": all_deductive,
            "samples": samples[:8],
            "undecided": [jsonable(u) for u in undecided][:20],
            "known_findings_reported": sorted({f["id"] for f, _ in known_hits}),
            "known_finding_obligations_not_counted": sorted(set(kf_obligations)),
            "informational_outside_the_claim": sorted({i["obligation"] + " -- " + str(i["note"]) for i in informational})[:60],
            "known_findings_no_longer_reproducing": stale,
            "explanation": (getattr(prop, "MANIFEST", {}) or {}).get("text", "") + " | " + (getattr(prop, "MANIFEST", {}) or {}).get("note", ""),
            "evaluations": ob_total + sum(s["cases"] for s in standins),
            "distinct_nontrivial": len(names_all) + sum(s["cases"] for s in standins),
            "rule": "one evaluation per generated obligation instance (path x assertion) plus one per native stand-in case; distinct = distinct obligation names + native cases",
        },
        "assumptions": list(getattr(prop, "ASSUMPTIONS", [])),
        "wall_s": round(time.time() - t0, 2),
        "violations": len(real_violations),
    }
    # evidence under /verif/evidence is only written by a full run against /repo itself; partial
    # (--only) runs and runs against a scratch tree (PYVC_REPO) write to a scratch location
    scratch = bool(args.only) or os.path.realpath(os.environ.get("PYVC_REPO", "/repo")) != os.path.realpath("/repo")
    ev_dir = os.path.join(tempfile.gettempdir(), "pyvc-evidence") if scratch else os.path.join(VERIF, "evidence")
    os.makedirs(ev_dir, exist_ok=True)
    with open(os.path.join(ev_dir, f"{pid}.json"), "w") as fh:
        json.dump(ev, fh, indent=1, default=repr)
    print(f"{pid}: obligations={ob_total} discharged={discharged} names={len(names_ok)}/{len(names_all)} standin_cases={sum(s['cases'] for s in standins)} violations={len(real_violations)} known={len(printed)} undecided={len(undecided)} wall={ev['wall_s']}s rc={rc}")
    return rc


def replay(prop, path):
    with open(path) as fh:
        payload = json.load(fh)
    cname = payload.get("contract")
    for c in prop.CONTRACTS:
        inst = c()
        if inst.name == cname:
            wit = payload.get("witness")
            if wit is None:
                print("replay file carries no concrete witness (no-failing-input-found); solver output:")
                print(payload.get("model"))
                return 1
            fail = inst.native_check(wit)
            print("REPLAY", "FAILS: " + str(fail) if fail else "passes")
            return 1 if fail else 0
    print("contract not found", cname)
    return 3


if __name__ == "__main__":
    sys.exit(main())
