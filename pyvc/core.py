"""pyvc core: paths, branching by replay, obligations, control-flow signals.

Execution model: one *path* at a time.  The interpreter runs the real AST like an ordinary
meta-circular evaluator whose leaves may be symbolic (z3 terms).  Whenever control depends on
a symbolic condition, `Path.branch` consults a decision script; unexplored alternatives are
pushed on a work-list and explored by re-executing the function from its entry (stateless
DFS).  Nothing is shared between paths, so heap objects are ordinary mutable Python objects.
"""
from __future__ import annotations

import itertools
import time
from dataclasses import dataclass, field

import z3


class Unsupported(Exception):
    """Construct outside the modelled subset (never a violation)."""


class PathEnd(Exception):
    """Current path is cut (after a loop body / infeasible)."""


class ReturnSig(Exception):
    def __init__(self, value):
        self.value = value


class BreakSig(Exception):
    pass


class ContinueSig(Exception):
    pass


class RaiseSig(Exception):
    """A modelled Python exception propagating in the interpreted program."""

    def __init__(self, exc_class, origin=""):
        self.exc_class = exc_class  # real Python exception class
        self.origin = origin
        super().__init__(f"{getattr(exc_class, '__name__', exc_class)} @ {origin}")


@dataclass
class Obligation:
    name: str
    kind: str
    pc: list
    goal: object
    path: int
    closed: bool  # no loop cut / contract havoc between entry and here
    where: str = ""
    note: str = ""


_fresh = itertools.count()


def fresh_name(prefix):
    return f"{prefix}!{next(_fresh)}"


def contains_quantifier(e, _seen=None):
    seen = set() if _seen is None else _seen
    stack = [e]
    while stack:
        t = stack.pop()
        tid = t.get_id()
        if tid in seen:
            continue
        seen.add(tid)
        if z3.is_quantifier(t):
            return True
        if z3.is_app(t):
            stack.extend(t.children())
    return False


def _as_atom(cond):
    """(atom, polarity) if cond is an uninterpreted boolean constant or its negation."""
    pos = True
    t = cond
    if z3.is_not(t):
        t = t.arg(0)
        pos = False
    if z3.is_app(t) and t.num_args() == 0 and z3.is_bool(t) and t.decl().kind() == z3.Z3_OP_UNINTERPRETED:
        return t, pos
    return None, True


class Path:
    """State of one explored path."""

    def __init__(self, explorer, decisions, pid):
        self.explorer = explorer
        self.decisions = list(decisions)
        self.pos = 0
        self.pc: list = []  # assumptions (z3 Bool)
        self.pc_qf: list = []  # quantifier-free part (used for feasibility: a weaker pc is a sound over-approximation)
        self.closed = True
        self.pid = pid
        self.events: list = []  # ghost event trace (persist calls, ...)
        self.ghost: dict = {}
        self.trace: list = []  # human readable decision labels
        self.tagged: dict = {}
        self.atom_value: dict = {}  # decided uninterpreted boolean atoms (id -> bool)
        self.atoms_in_pc: set = set()  # atoms mentioned by some assumption

    # ---- assumptions -------------------------------------------------------------------
    def assume_tagged(self, tag, cond):
        """An assumption obligations may leave out (`drop=`): dropping assumptions only weakens
        the hypothesis, so it is always sound; used to keep nonlinear axioms out of linear goals."""
        n = len(self.pc)
        self.assume(cond)
        if len(self.pc) > n:
            self.tagged.setdefault(tag, set()).add(self.pc[-1].get_id())

    def assume(self, cond):
        if isinstance(cond, bool):
            if not cond:
                raise PathEnd()
            return
        cond = z3.simplify(cond)
        if z3.is_true(cond):
            return
        if z3.is_false(cond):
            raise PathEnd()
        self._add(cond)

    def _add(self, cond):
        self.pc.append(cond)
        if not contains_quantifier(cond):
            self.pc_qf.append(cond)
        a, pos = _as_atom(cond)
        if a is not None:
            self.atom_value[a.get_id()] = pos
        else:
            stack, seen = [cond], set()
            while stack and len(seen) < 400:
                t = stack.pop()
                if t.get_id() in seen:
                    continue
                seen.add(t.get_id())
                if z3.is_quantifier(t):
                    stack.append(t.body())
                elif z3.is_app(t):
                    if t.num_args() == 0 and z3.is_bool(t) and t.decl().kind() == z3.Z3_OP_UNINTERPRETED:
                        self.atoms_in_pc.add(t.get_id())
                    stack.extend(t.children())

    def feasible(self, extra=None):
        s = self.explorer.feas_solver()
        s.add(*self.pc_qf)
        if extra is not None:
            if contains_quantifier(extra):
                return True
            s.add(extra)
        r = s.check()
        self.explorer.stats["feas_calls"] += 1
        return r != z3.unsat  # unknown -> treated as feasible (over-approximation)

    # ---- branching ---------------------------------------------------------------------
    def branch(self, cond, label=""):
        """Return a Python bool for a (possibly symbolic) condition, forking as needed."""
        if isinstance(cond, bool):
            return cond
        cond = z3.simplify(cond)
        if z3.is_true(cond):
            return True
        if z3.is_false(cond):
            return False
        atom, positive = _as_atom(cond)
        if atom is not None and atom.get_id() in self.atom_value:
            return self.atom_value[atom.get_id()] == positive
        if self.pos < len(self.decisions):
            choice = self.decisions[self.pos]
            self.pos += 1
        else:
            if atom is not None and atom.get_id() not in self.atoms_in_pc:
                t_ok = f_ok = True  # an unconstrained fresh atom: both sides are feasible
            else:
                t_ok = self.feasible(cond)
                f_ok = self.feasible(z3.Not(cond))
            if t_ok and f_ok:
                self.explorer.push(self.decisions + [False])
                choice = True
            elif t_ok:
                choice = True
            elif f_ok:
                choice = False
            else:
                raise PathEnd()
            self.decisions.append(choice)
            self.pos += 1
        self.trace.append((label, choice))
        self._add(cond if choice else z3.Not(cond))
        return choice

    def choose(self, n, label=""):
        """Non-deterministic choice among n alternatives (all explored)."""
        if n == 1:
            return 0
        if self.pos < len(self.decisions):
            choice = self.decisions[self.pos]
            self.pos += 1
        else:
            for alt in range(1, n):
                self.explorer.push(self.decisions + [alt])
            choice = 0
            self.decisions.append(choice)
            self.pos += 1
        self.trace.append((label, choice))
        return choice

    # ---- obligations -------------------------------------------------------------------
    def oblige(self, name, goal, kind="post", where="", note="", drop=()):
        if isinstance(goal, bool):
            goal = z3.BoolVal(goal)
        pc = list(self.pc)
        if drop:
            gone = set()
            for t in drop:
                gone |= self.tagged.get(t, set())
            pc = [f for f in pc if f.get_id() not in gone]
        self.explorer.obligations.append(
            Obligation(name, kind, pc, goal, self.pid, self.closed, where, note)
        )

    def cut(self):
        """Mark that later obligations are no longer on a closed path."""
        self.closed = False


class Explorer:
    """Drives exploration of all paths of one entry point."""

    def __init__(self, max_paths=4000, feas_timeout_ms=500):
        self.work: list = [[]]
        self.obligations: list[Obligation] = []
        self.stats = {"paths": 0, "feas_calls": 0, "cut_paths": 0, "ended": {}}
        self.max_paths = max_paths
        self.feas_timeout_ms = feas_timeout_ms
        self.notes: list = []  # dropped constructs, inlined callees, assumed contracts
        self.unsupported: list = []

    def feas_solver(self):
        s = z3.Solver()
        s.set("timeout", self.feas_timeout_ms)
        return s

    def push(self, decisions):
        self.work.append(list(decisions))

    def note(self, kind, text):
        item = (kind, text)
        if item not in self.notes:
            self.notes.append(item)

    def run(self, body):
        """body(path) executes one path; may raise PathEnd."""
        t0 = time.time()
        while self.work:
            if self.stats["paths"] >= self.max_paths:
                raise Unsupported(f"path budget exceeded ({self.max_paths})")
            decisions = self.work.pop()
            path = Path(self, decisions, self.stats["paths"])
            self.stats["paths"] += 1
            try:
                end = body(path)
            except PathEnd:
                end = "cut"
                self.stats["cut_paths"] += 1
            except Unsupported:
                # paths are explored under the quantifier-free part of the path condition; a path
                # that is infeasible under the full condition must not decide anything
                s = z3.Solver()
                s.set("timeout", 10000)
                s.add(*path.pc)
                if s.check() == z3.unsat:
                    end = "infeasible"
                else:
                    raise
            self.stats["ended"][end] = self.stats["ended"].get(end, 0) + 1
        self.stats["explore_s"] = round(time.time() - t0, 3)
