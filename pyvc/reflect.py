"""Locating the real source: every run re-parses the files of the working tree the imported
package was loaded from, and finds a function's AST by file + first line (the code object of
the function that would actually run)."""
from __future__ import annotations

import ast
import hashlib
import importlib
import inspect
import os
import sys
import types

REPO = os.environ.get("PYVC_REPO", "/repo")

_parsed: dict = {}
_src: dict = {}


def ensure_repo_on_path():
    """Import geoh5py from REPO's working tree (not from any other installed copy)."""
    if REPO not in sys.path:
        sys.path.insert(0, REPO)
    import geoh5py  # noqa

    got = os.path.realpath(os.path.dirname(os.path.dirname(geoh5py.__file__)))
    if got != os.path.realpath(REPO):
        raise RuntimeError(f"geoh5py imported from {got}, expected {REPO}")


def parse_file(filename):
    filename = os.path.realpath(filename)
    if filename not in _parsed:
        with open(filename, encoding="utf-8") as fh:
            text = fh.read()
        _src[filename] = text
        tree = ast.parse(text, filename=filename)
        for node in ast.walk(tree):
            for child in ast.iter_child_nodes(node):
                child._parent = node  # type: ignore
        _parsed[filename] = tree
    return _parsed[filename]


def unwrap(func):
    if isinstance(func, (staticmethod, classmethod)):
        func = func.__func__
    if isinstance(func, types.MethodType):
        func = func.__func__
    while hasattr(func, "__wrapped__"):
        func = func.__wrapped__
    return func


def funcdef_of(func):
    """ast.FunctionDef of a real function object."""
    func = unwrap(func)
    code = func.__code__
    tree = parse_file(code.co_filename)
    target = code.co_firstlineno
    best = None
    for node in ast.walk(tree):
        if isinstance(node, (ast.FunctionDef, ast.AsyncFunctionDef)) and node.name == func.__name__:
            first = min([node.lineno] + [d.lineno for d in node.decorator_list])
            if first == target or node.lineno == target:
                best = node
                break
    if best is None:
        raise LookupError(f"no FunctionDef for {func.__qualname__} at {code.co_filename}:{target}")
    return best


def source_hash(func):
    node = funcdef_of(func)
    filename = os.path.realpath(unwrap(func).__code__.co_filename)
    seg = ast.get_source_segment(_src[filename], node) or ""
    return hashlib.sha256(seg.encode()).hexdigest()[:16]


def where(func):
    func = unwrap(func)
    rel = os.path.relpath(func.__code__.co_filename, REPO)
    return f"{rel}:{func.__code__.co_firstlineno}"


def resolve(spec):
    """'geoh5py/shared/weakref_utils.py::insert_once' or
    'geoh5py.objects.octree::Octree.origin.fset' -> real function object (+ owner class)."""
    mod, _, qual = spec.partition("::")
    if mod.endswith(".py"):
        mod = mod[:-3].replace("/", ".")
    module = importlib.import_module(mod)
    parts = qual.split(".")
    obj = module
    owner = None
    for i, p in enumerate(parts):
        if isinstance(obj, property) and p in ("fget", "fset", "fdel"):
            obj = getattr(obj, p)
            continue
        if inspect.isclass(obj):
            owner = obj
            obj = inspect.getattr_static(obj, p)
        else:
            obj = getattr(obj, p)
    if isinstance(obj, (staticmethod, classmethod)):
        obj = obj.__func__
    if obj is None:
        raise LookupError(spec)
    return obj, owner


def is_repo_function(func):
    func = unwrap(func)
    return isinstance(func, types.FunctionType) and os.path.realpath(
        func.__code__.co_filename
    ).startswith(os.path.realpath(REPO) + os.sep)


def defining_class(cls, name):
    """Class in cls.__mro__ whose __dict__ holds `name`."""
    for k in cls.__mro__:
        if name in k.__dict__:
            return k
    return None
