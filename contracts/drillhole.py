"""C18: drillhole positions follow the survey."""
from __future__ import annotations

import itertools

import numpy as np
import z3

from contracts import setters as _setters
from pyvc.contracts import Contract
from pyvc.core import fresh_name
from pyvc.models_np import Z, prefix_sum_fn, sym_arr, to_real, ufun
from pyvc.values import Arr, Obj, Opaque, PDict, mk, sym, to_z3, zbool


def direction(surveys, s):
    """unit direction of station s in terms of the same (uninterpreted) trig functions the code uses"""
    az, dip = surveys.elem(s, 1), surveys.elem(s, 2)
    fmod = z3.Function("np_fmod", z3.RealSort(), z3.RealSort(), z3.RealSort())
    c, sn, d2r = ufun("cos"), ufun("sin"), ufun("deg2rad")
    ang = d2r(z3.RealVal(450) - fmod(az, z3.RealVal(360)))
    return [c(ang) * c(d2r(dip)), sn(ang) * c(d2r(dip)), sn(d2r(dip))]


class ComputeDeviation(Contract):
    target = "geoh5py/objects/drillhole.py::compute_deviation"
    props = ("C18",)
    assumptions = ("np.divide(where=) leaves masked entries uninitialised: treated as arbitrary finite reals (then 0*x = 0); non-finite garbage is outside the model",)

    def setup(self, ctx):
        n = ctx.int("n_stations", 2)
        S = sym_arr("surveys", (n.e, 3), "real")
        ctx.env.update(n=n, S=S)
        return [S], {}

    def post(self, ctx, result):
        e = ctx.env
        n, S = e["n"].e, e["S"]
        ok = isinstance(result, Arr) and result.ndim == 2
        ctx.oblige("returns-one-row-per-leg", ok)
        if not ok:
            return
        ctx.oblige("one-direction-per-leg", z3.And(Z(result.shape[0]) == n - 1, Z(result.shape[1]) == 3))
        s = z3.Int(fresh_name("s"))
        rng = z3.And(s >= 0, s < n - 1)
        length = S.elem(s + 1, 0) - S.elem(s, 0)
        din, dout = direction(S, s), direction(S, s + 1)
        for c, ax in enumerate("xyz"):
            ctx.oblige(f"{ax}-leg-direction-is-the-mean-of-the-two-station-directions", z3.Implies(z3.And(rng, length != 0), result.elem(s, c) == (din[c] + dout[c]) / 2))
            ctx.oblige(f"{ax}-zero-length-leg-keeps-the-station-direction", z3.Implies(z3.And(rng, length == 0), result.elem(s, c) == din[c]))


class Locations(Contract):
    target = "geoh5py/objects/drillhole.py::Drillhole.locations.fget"
    props = ("C18",)
    uses = (ComputeDeviation,)
    attr_overrides = {"collar": lambda I, o: o.fields["_collar"], "surveys": lambda I, o: o.fields["_surveys"]}
    trusted = ("collar / surveys getters return the stored record / (n,3) float table",)

    def setup(self, ctx):
        from geoh5py.objects import Drillhole

        n = ctx.int("n_surveys", 1)
        S = sym_arr("surveys", (n.e, 3), "real")
        collar = {ax: sym("collar_" + ax, "real") for ax in "xyz"}
        obj = Obj(Drillhole, {"_locations": None, "_collar": PDict(collar), "_surveys": S})
        ctx.env.update(n=n, S=S, collar=collar, obj=obj)
        return [obj], {}

    def post(self, ctx, result):
        e = ctx.env
        n, S = e["n"].e, e["S"]
        ok = isinstance(result, Arr) and result.ndim == 2 and result.shape[1] == 3
        ctx.oblige("returns-an-n-by-3-table", ok)
        if not ok:
            return
        dev = e.get("dev")
        ctx.oblige("one-position-per-station-plus-the-collar", Z(result.shape[0]) == n + 1)
        s = z3.Int(fresh_name("s"))
        # stations as the code sees them: the first survey repeated at depth 0
        depth = lambda k: z3.If(k == 0, z3.RealVal(0), S.elem(k - 1, 0))
        for c, ax in enumerate("xyz"):
            ctx.oblige(f"{ax}-path-starts-at-the-collar", result.elem(0, c) == e["collar"][ax].e)
            if dev is not None:
                ctx.oblige(f"{ax}-each-leg-advances-by-its-length-along-its-direction", z3.Implies(z3.And(s >= 0, s < n), result.elem(s + 1, c) - result.elem(s, c) == (depth(s + 1) - depth(s)) * dev.elem(s, c)))
        ctx.oblige("result-is-cached", e["obj"].fields.get("_locations") is result)


def _cd_apply(self, I, args, kwargs):
    """summary of compute_deviation: one arbitrary direction per leg (its values are pinned by its own contract)"""
    S = args[0]
    n = Z(S.shape[0])
    dev = sym_arr("deviation", (n - 1, 3), "real")
    I.ctx.env["dev"] = dev
    I.path.cut()
    return dev


ComputeDeviation.apply = _cd_apply

RESETS = []
for _a, _trig in (("collar", ["_collar"]), ("surveys", ["_surveys"])):
    _k = _setters.make(f"Reset_Drillhole_{_a}", f"geoh5py/objects/drillhole.py::Drillhole.{_a}.fset", "geoh5py.objects.drillhole.Drillhole", _a, resets=["_locations"], write_through=False, props=("C18",))
    _k.triggers = tuple(_trig)
    _k.__module__ = __name__
    globals()[_k.__name__] = _k
    RESETS.append(_k)


# ------------------------------------------------------------------------------------------
# bounded stand-ins on real drillholes
# ------------------------------------------------------------------------------------------


def ref_path(collar, surveys, depths):
    """Reference path written from the property text: collar at 0, each leg along the mean of its two
    station directions, last direction continued beyond the final survey."""
    sv = np.vstack([surveys[0], surveys]).astype(float)
    sv[0, 0] = 0.0

    def d(az, dip):
        a = np.deg2rad(450.0 - az % 360.0)
        return np.array([np.cos(a) * np.cos(np.deg2rad(dip)), np.sin(a) * np.cos(np.deg2rad(dip)), np.sin(np.deg2rad(dip))])

    dirs = [d(r[1], r[2]) for r in sv]
    legs = [(dirs[k] + dirs[k + 1]) / 2 if sv[k + 1, 0] != sv[k, 0] else dirs[k] for k in range(len(sv) - 1)]
    pos = [np.array(collar, dtype=float)]
    for k, leg in enumerate(legs):
        pos.append(pos[-1] + (sv[k + 1, 0] - sv[k, 0]) * leg)
    out = []
    for dep in depths:
        k = max(int(np.searchsorted(sv[:, 0], dep, side="left")) - 1, 0)
        kd = min(k, len(legs) - 1)
        out.append(pos[k] + (dep - sv[k, 0]) * legs[kd])
    return np.array(out)


class PathNative(Contract):
    target = "geoh5py/objects/drillhole.py::Drillhole.desurvey"
    symbolic = False
    has_native = True
    props = ("C18",)
    bounded_scope = "collars x 5 survey tables (single row, vertical, deviated, repeated depth, 3 stations) x depths at 0, stations, mid-leg, beyond the last survey; also after the collar / surveys are re-assigned on a hole whose path was already computed"

    def native_cases(self, tier, rng):
        tables = [
            [[0.0, 0.0, -90.0]],
            [[0.0, 0.0, -90.0], [50.0, 0.0, -90.0]],
            [[5.0, 30.0, -80.0], [40.0, 45.0, -60.0], [90.0, 120.0, -45.0]],
            [[0.0, 10.0, -70.0], [20.0, 10.0, -70.0], [20.0, 50.0, -60.0], [60.0, 50.0, -60.0]],
            [[10.0, 350.0, -85.0], [30.0, 20.0, -75.0]],
        ]
        for t, collar in itertools.product(tables, ([0.0, 0.0, 0.0], [100.0, 200.0, 300.0])):
            for move in (None, "collar", "surveys"):
                yield {"surveys": t, "collar": collar, "move": move}

    def native_check(self, case):
        from geoh5py.objects import Drillhole
        from geoh5py.workspace import Workspace

        sv = np.array(case["surveys"], dtype=float)
        depths = sorted({0.0, float(sv[-1, 0]) + 7.5, *[float(x) for x in sv[:, 0]], *[float(a + b) / 2 for a, b in zip(np.r_[0.0, sv[:-1, 0]], sv[:, 0])]})
        with Workspace() as ws:
            dh = Drillhole.create(ws, collar=np.array(case["collar"]), surveys=sv)
            got = np.asarray(dh.desurvey(depths))
            exp = ref_path(case["collar"], sv, depths)
            if got.shape != exp.shape or not np.allclose(got, exp, atol=1e-5):
                return f"positions {got.round(4).tolist()} expected {exp.round(4).tolist()} ({case})"
            if case["move"] == "collar":
                new = [c + 12.5 for c in case["collar"]]
                dh.collar = np.array(new)
                got = np.asarray(dh.desurvey(depths))
                exp = ref_path(new, sv, depths)
                if not np.allclose(got, exp, atol=1e-5):
                    return f"after moving the collar to {new}, depth 0 is at {got[0].tolist()} ({case})"
            if case["move"] == "surveys":
                sv2 = sv.copy()
                sv2[:, 2] = -60.0
                dh.surveys = sv2
                got = np.asarray(dh.desurvey(depths))
                exp = ref_path(case["collar"], sv2, depths)
                if not np.allclose(got, exp, atol=1e-5):
                    return f"after re-assigning the surveys positions are stale ({case})"
        return None


class DepthDataNative(Contract):
    target = "geoh5py/objects/drillhole.py::Drillhole.validate_depth_data"
    symbolic = False
    has_native = True
    props = ("C18",)
    bounded_scope = "depth logs and interval logs added in one or several add_data calls with unsorted, overlapping and repeated depths (<= 4 depths per log, <= 3 logs): every vertex sits at desurvey(depth), every interval cell joins its from/to positions, every value stays attached to its depth"

    def native_cases(self, tier, rng):
        logs = [
            [("a", [10.0, 20.0, 30.0]), ("b", [20.0, 30.0, 40.0])],
            [("a", [30.0, 40.0]), ("b", [15.0, 25.0]), ("c", [40.0, 15.0])],
            [("a", [10.0, 20.0, 30.0, 40.0]), ("b", [25.0, 20.0, 15.0, 40.0])],
            [("a", [5.0]), ("b", [5.0, 2.5])],
        ]
        for lg in logs:
            for together in (True, False):
                yield {"logs": lg, "together": together}
        yield {"intervals": [("i", [[5.0, 10.0], [10.0, 20.0]]), ("j", [[10.0, 20.0], [30.0, 35.0]])], "together": True}
        yield {"intervals": [("i", [[30.0, 35.0], [5.0, 10.0]]), ("j", [[5.0, 10.0], [12.0, 14.0]])], "together": False}

    def native_check(self, case):
        from geoh5py.objects import Drillhole
        from geoh5py.workspace import Workspace

        sv = np.array([[5.0, 30.0, -80.0], [40.0, 45.0, -60.0], [90.0, 120.0, -45.0]])
        collar = [10.0, 20.0, 30.0]
        with Workspace() as ws:
            dh = Drillhole.create(ws, collar=np.array(collar), surveys=sv)
            written = {}
            if "logs" in case:
                spec = {}
                for k, (name, depths) in enumerate(case["logs"]):
                    vals = np.array([1000.0 * (k + 1) + d for d in depths])
                    written[name] = dict(zip(depths, vals))
                    spec[name] = {"depth": np.array(depths), "values": vals}
                if case["together"]:
                    dh.add_data(spec)
                else:
                    for name, s in spec.items():
                        dh.add_data({name: s})
                depth_vals = np.asarray(dh.get_data("DEPTH")[0].values, dtype=float)
                verts = np.asarray(dh.vertices)
                exp = ref_path(collar, sv, depth_vals)
                if not np.allclose(verts, exp, atol=1e-4):
                    return f"vertices are not at the positions of their depths {depth_vals.tolist()} ({case})"
                for name, table in written.items():
                    v = np.asarray(dh.get_data(name)[0].values, dtype=float)
                    for dep, val in table.items():
                        hit = np.where(np.isclose(depth_vals, dep, atol=1e-3))[0]
                        if len(hit) != 1 or not np.isclose(v[hit[0]], val):
                            got = None if len(hit) != 1 else v[hit[0]]
                            return f"value {val} added at depth {dep} for '{name}' is found as {got} (depths {depth_vals.tolist()}, values {v.tolist()}) ({case})"
            else:
                spec = {}
                for k, (name, ft) in enumerate(case["intervals"]):
                    vals = np.array([1000.0 * (k + 1) + a for a, b in ft])
                    written[name] = {tuple(x): v for x, v in zip(ft, vals)}
                    spec[name] = {"from-to": np.array(ft), "values": vals}
                if case["together"]:
                    dh.add_data(spec)
                else:
                    for name, s in spec.items():
                        dh.add_data({name: s})
                frm = np.asarray(dh.get_data("FROM")[0].values, dtype=float)
                to = np.asarray(dh.get_data("TO")[0].values, dtype=float)
                cells, verts = np.asarray(dh.cells), np.asarray(dh.vertices)
                if not np.allclose(verts[cells[:, 0]], ref_path(collar, sv, frm), atol=1e-4) or not np.allclose(verts[cells[:, 1]], ref_path(collar, sv, to), atol=1e-4):
                    return f"interval cells do not join the positions of their from/to depths ({case})"
                for name, table in written.items():
                    v = np.asarray(dh.get_data(name)[0].values, dtype=float)
                    for (a, b), val in table.items():
                        hit = np.where(np.isclose(frm, a, atol=1e-3) & np.isclose(to, b, atol=1e-3))[0]
                        if len(hit) != 1 or not np.isclose(v[hit[0]], val):
                            return f"value {val} added on interval {(a, b)} for '{name}' is not attached to it ({case})"
        return None


CONTRACTS = [ComputeDeviation, Locations] + RESETS + [PathNative, DepthDataNative]
