"""C18: drillhole positions follow the survey."""
from __future__ import annotations

import itertools

import numpy as np
import z3

from contracts import setters as _setters
from pyvc.contracts import Contract
from pyvc.core import fresh_name
from pyvc.models_np import Z, prefix_sum_fn, sym_arr, to_real, ufun
from pyvc.values import Arr, Obj, Opaque, PDict, mk, sym, to_z3, zbool


def direction(surveys, s):
    """unit direction of station s in terms of the same (uninterpreted) trig functions the code uses"""
    az, dip = surveys.elem(s, 1), surveys.elem(s, 2)
    fmod = z3.Function("np_fmod", z3.RealSort(), z3.RealSort(), z3.RealSort())
    c, sn, d2r = ufun("cos"), ufun("sin"), ufun("deg2rad")
    ang = d2r(z3.RealVal(450) - fmod(az, z3.RealVal(360)))
    return [c(ang) * c(d2r(dip)), sn(ang) * c(d2r(dip)), sn(d2r(dip))]


class ComputeDeviation(Contract):
    target = "geoh5py/objects/drillhole.py::compute_deviation"
    props = ("C18",)
    assumptions = ("np.divide(where=) leaves masked entries uninitialised: treated as arbitrary finite reals (then 0*x = 0); non-finite garbage is outside the model",)

    def setup(self, ctx):
        n = ctx.int("n_stations", 2)
        S = sym_arr("surveys", (n.e, 3), "real")
        ctx.env.update(n=n, S=S)
        return [S], {}

    def post(self, ctx, result):
        e = ctx.env
        n, S = e["n"].e, e["S"]
        ok = isinstance(result, Arr) and result.ndim == 2
        ctx.oblige("returns-one-row-per-leg", ok)
        if not ok:
            return
        ctx.oblige("one-direction-per-leg", z3.And(Z(result.shape[0]) == n - 1, Z(result.shape[1]) == 3))
        s = z3.Int(fresh_name("s"))
        rng = z3.And(s >= 0, s < n - 1)
        length = S.elem(s + 1, 0) - S.elem(s, 0)
        din, dout = direction(S, s), direction(S, s + 1)
        for c, ax in enumerate("xyz"):
            ctx.oblige(f"{ax}-leg-direction-is-the-mean-of-the-two-station-directions", z3.Implies(z3.And(rng, length != 0), result.elem(s, c) == (din[c] + dout[c]) / 2))
            ctx.oblige(f"{ax}-zero-length-leg-keeps-the-station-direction", z3.Implies(z3.And(rng, length == 0), result.elem(s, c) == din[c]))


class Locations(Contract):
    target = "geoh5py/objects/drillhole.py::Drillhole.locations.fget"
    props = ("C18",)
    uses = (ComputeDeviation,)
    attr_overrides = {"collar": lambda I, o: o.fields["_collar"], "surveys": lambda I, o: o.fields["_surveys"]}
    trusted = ("collar / surveys getters return the stored record / (n,3) float table",)

    def setup(self, ctx):
        from geoh5py.objects import Drillhole

        n = ctx.int("n_surveys", 1)
        S = sym_arr("surveys", (n.e, 3), "real")
        collar = {ax: sym("collar_" + ax, "real") for ax in "xyz"}
        obj = Obj(Drillhole, {"_locations": None, "_collar": PDict(collar), "_surveys": S})
        ctx.env.update(n=n, S=S, collar=collar, obj=obj)
        return [obj], {}

    def post(self, ctx, result):
        e = ctx.env
        n, S = e["n"].e, e["S"]
        ok = isinstance(result, Arr) and result.ndim == 2 and result.shape[1] == 3
        ctx.oblige("returns-an-n-by-3-table", ok)
        if not ok:
            return
        dev = e.get("dev")
        ctx.oblige("one-position-per-station-plus-the-collar", Z(result.shape[0]) == n + 1)
        s = z3.Int(fresh_name("s"))
        # stations as the code sees them: the first survey repeated at depth 0
        depth = lambda k: z3.If(k == 0, z3.RealVal(0), S.elem(k - 1, 0))
        for c, ax in enumerate("xyz"):
            ctx.oblige(f"{ax}-path-starts-at-the-collar", result.elem(0, c) == e["collar"][ax].e)
            if dev is not None:
                ctx.oblige(f"{ax}-each-leg-advances-by-its-length-along-its-direction", z3.Implies(z3.And(s >= 0, s < n), result.elem(s + 1, c) - result.elem(s, c) == (depth(s + 1) - depth(s)) * dev.elem(s, c)))
        ctx.oblige("result-is-cached", e["obj"].fields.get("_locations") is result)


def _cd_apply(self, I, args, kwargs):
    """summary of compute_deviation: one arbitrary direction per leg (its values are pinned by its own contract)"""
    S = args[0]
    n = Z(S.shape[0])
    dev = sym_arr("deviation", (n - 1, 3), "real")
    I.ctx.env["dev"] = dev
    I.path.cut()
    return dev


ComputeDeviation.apply = _cd_apply

RESETS = []
for _a, _trig in (("collar", ["_collar"]), ("surveys", ["_surveys"])):
    _k = _setters.make(f"Reset_Drillhole_{_a}", f"geoh5py/objects/drillhole.py::Drillhole.{_a}.fset", "geoh5py.objects.drillhole.Drillhole", _a, resets=["_locations"], write_through=False, props=("C18",))
    _k.triggers = tuple(_trig)
    _k.coupled = ("_trace", "_trace_depth", "_end_of_hole")  # the stored well path and the end of hole are derived from collar / surveys by design
    _k.__module__ = __name__
    globals()[_k.__name__] = _k
    RESETS.append(_k)


# ------------------------------------------------------------------------------------------
# bounded stand-ins on real drillholes
# ------------------------------------------------------------------------------------------


def ref_path(collar, surveys, depths):
    """Reference path written from the property text: collar at 0, each leg along the mean of its two
    station directions, last direction continued beyond the final survey."""
    sv = np.vstack([surveys[0], surveys]).astype(float)
    sv[0, 0] = 0.0

    def d(az, dip):
        a = np.deg2rad(450.0 - az % 360.0)
        return np.array([np.cos(a) * np.cos(np.deg2rad(dip)), np.sin(a) * np.cos(np.deg2rad(dip)), np.sin(np.deg2rad(dip))])

    dirs = [d(r[1], r[2]) for r in sv]
    legs = [(dirs[k] + dirs[k + 1]) / 2 if sv[k + 1, 0] != sv[k, 0] else dirs[k] for k in range(len(sv) - 1)]
    pos = [np.array(collar, dtype=float)]
    for k, leg in enumerate(legs):
        pos.append(pos[-1] + (sv[k + 1, 0] - sv[k, 0]) * leg)
    out = []
    for dep in depths:
        k = max(int(np.searchsorted(sv[:, 0], dep, side="left")) - 1, 0)
        kd = min(k, len(legs) - 1)
        out.append(pos[k] + (dep - sv[k, 0]) * legs[kd])
    return np.array(out)


class PathNative(Contract):
    target = "geoh5py/objects/drillhole.py::Drillhole.desurvey"
    symbolic = False
    has_native = True
    props = ("C18",)
    bounded_scope = "collars x 5 survey tables (single row, vertical, deviated, repeated depth, 3 stations) x depths at 0, stations, mid-leg, beyond the last survey; also after the collar / surveys are re-assigned on a hole whose path was already computed"

    def native_cases(self, tier, rng):
        tables = [
            [[0.0, 0.0, -90.0]],
            [[0.0, 0.0, -90.0], [50.0, 0.0, -90.0]],
            [[5.0, 30.0, -80.0], [40.0, 45.0, -60.0], [90.0, 120.0, -45.0]],
            [[0.0, 10.0, -70.0], [20.0, 10.0, -70.0], [20.0, 50.0, -60.0], [60.0, 50.0, -60.0]],
            [[10.0, 350.0, -85.0], [30.0, 20.0, -75.0]],
        ]
        for t, collar in itertools.product(tables, ([0.0, 0.0, 0.0], [100.0, 200.0, 300.0])):
            for move in (None, "collar", "surveys"):
                yield {"surveys": t, "collar": collar, "move": move}

    def native_check(self, case):
        from geoh5py.objects import Drillhole
        from geoh5py.workspace import Workspace

        sv = np.array(case["surveys"], dtype=float)
        depths = sorted({0.0, float(sv[-1, 0]) + 7.5, *[float(x) for x in sv[:, 0]], *[float(a + b) / 2 for a, b in zip(np.r_[0.0, sv[:-1, 0]], sv[:, 0])]})
        with Workspace() as ws:
            dh = Drillhole.create(ws, collar=np.array(case["collar"]), surveys=sv)
            got = np.asarray(dh.desurvey(depths))
            exp = ref_path(case["collar"], sv, depths)
            if got.shape != exp.shape or not np.allclose(got, exp, atol=1e-5):
                return f"positions {got.round(4).tolist()} expected {exp.round(4).tolist()} ({case})"
            if case["move"] == "collar":
                new = [c + 12.5 for c in case["collar"]]
                dh.collar = np.array(new)
                got = np.asarray(dh.desurvey(depths))
                exp = ref_path(new, sv, depths)
                if not np.allclose(got, exp, atol=1e-5):
                    return f"after moving the collar to {new}, depth 0 is at {got[0].tolist()} ({case})"
            if case["move"] == "surveys":
                sv2 = sv.copy()
                sv2[:, 2] = -60.0
                dh.surveys = sv2
                got = np.asarray(dh.desurvey(depths))
                exp = ref_path(case["collar"], sv2, depths)
                if not np.allclose(got, exp, atol=1e-5):
                    return f"after re-assigning the surveys positions are stale ({case})"
        return None


class DepthDataNative(Contract):
    target = "geoh5py/objects/drillhole.py::Drillhole.validate_depth_data"
    symbolic = False
    has_native = True
    native_shards = 4
    props = ("C18",)
    bounded_scope = ("sequences of 1-4 add_data calls mixing depth logs (numeric and text) and interval logs on one hole (unsorted, repeated, nearly equal depths; identical, nested, overlapping, "
                     "contiguous and disjoint intervals; logs added together, one by one in one session, or one by one with the file closed and re-opened before each call): after every call each vertex with a depth sits at the reference position of that depth, "
                     "each interval cell joins the positions of its from and to depths, each distinct interval is listed once and every value stays attached to its depth or interval "
                     "(28 fixed sequences, 12 of them again with the last call going to a copy of the hole while the source is checked and then extended, 4 mixing interval and depth logs in one call, 4 with nearly equal depths merged under an explicit collocation distance, + 40 seeded in the quick tier, 600 in the thorough tier)")

    D = lambda name, depths: ("depth", name, depths)
    I_ = lambda name, ft: ("interval", name, ft)
    FIXED = [
        [("depth", "a", [10.0, 20.0, 30.0]), ("depth", "b", [20.0, 30.0, 40.0])],
        [("depth", "a", [30.0, 40.0]), ("depth", "b", [15.0, 25.0]), ("depth", "c", [40.0, 15.0])],
        [("depth", "a", [10.0, 20.0, 30.0, 40.0]), ("depth", "b", [25.0, 20.0, 15.0, 40.0])],
        [("depth", "a", [5.0]), ("depth", "b", [5.0, 2.5])],
        [("interval", "i", [[5.0, 10.0], [10.0, 20.0]]), ("interval", "j", [[10.0, 20.0], [30.0, 35.0]])],
        [("interval", "i", [[30.0, 35.0], [5.0, 10.0]]), ("interval", "j", [[5.0, 10.0], [12.0, 14.0]])],
        # intervals first, then depth samples (forces a re-sort of vertices with cells present)
        [("interval", "i", [[10.0, 20.0], [20.0, 30.0], [60.0, 70.0]]), ("depth", "a", [25.0, 5.0])],
        [("interval", "i", [[10.0, 20.0], [20.0, 30.0]]), ("depth", "a", [45.0, 5.0, 15.0]), ("depth", "b", [1.0])],
        [("depth", "a", [25.0, 5.0]), ("interval", "i", [[10.0, 20.0], [60.0, 70.0]]), ("depth", "b", [65.0, 2.0])],
        # nested / overlapping intervals sharing one end with an existing interval
        [("interval", "i", [[10.0, 20.0], [60.0, 70.0]]), ("interval", "j", [[10.0, 15.0], [65.0, 70.0], [10.0, 20.0]])],
        [("interval", "i", [[10.0, 20.0], [20.0, 30.0], [60.0, 80.0]]), ("interval", "j", [[15.0, 20.0], [60.0, 70.0]]), ("depth", "a", [12.0])],
        [("interval", "i", [[0.0, 10.0]]), ("interval", "j", [[0.0, 5.0], [5.0, 10.0], [0.0, 10.0]])],
    ]

    def native_cases(self, tier, rng):
        for steps in self.FIXED:
            for together in (True, False):
                yield {"steps": steps, "together": together}
            # the same sequences with the file closed and re-opened between the calls
            yield {"steps": steps, "together": False, "reopen": True}
        # the last call goes to a copy of the hole: the source stays as it was (and consistent), the copy gets it all
        for steps in self.FIXED:
            if len(steps) >= 2:
                yield {"steps": steps, "together": False, "twin": True}
        # text logs (lithology notes at depths) between numeric ones: they follow their depths like any value
        for steps in ([("depth-text", "t", [30.0, 40.0]), ("depth", "a", [10.0, 35.0])],
                      [("depth", "a", [20.0, 50.0]), ("depth-text", "t", [60.0, 10.0]), ("depth", "b", [5.0])],
                      [("depth-text", "t", [30.0]), ("interval", "i", [[10.0, 20.0]]), ("depth", "a", [1.0, 25.0])]):
            yield {"steps": steps, "together": False}
            yield {"steps": steps, "together": False, "reopen": True}
        # depths / intervals close to, but not equal to, earlier ones, merged under an explicit tolerance:
        # a merged sample keeps the position and the label of the vertex it joins
        near = [
            [("depth", "a", [12.0, 30.0, 44.0]), ("depth", "b", [30.3, 50.0])],
            [("depth", "a", [12.0, 30.0]), ("depth", "b", [11.8, 30.2]), ("depth", "c", [29.9])],
            [("interval", "i", [[12.0, 18.0], [18.0, 30.0]]), ("interval", "j", [[12.2, 18.3], [40.0, 50.0]])],
            [("interval", "i", [[10.0, 20.0]]), ("depth", "a", [20.2, 35.0]), ("interval", "j", [[9.8, 20.1]])],
        ]
        for steps in near:
            yield {"steps": steps, "together": False, "collocation_distance": 0.5}
        # interval and depth logs given in one add_data call (either order) on a hole that already has depths
        for first in ("interval", "depth"):
            mixed = [("interval", "i", [[5.0, 15.0], [15.0, 25.0]]), ("depth", "b", [12.0, 40.0])]
            if first == "depth":
                mixed.reverse()
            yield {"steps": [("depth", "a", [10.0, 20.0, 30.0]), ("mixed", "m", mixed)], "together": False}
            yield {"steps": [("interval", "z", [[50.0, 55.0]]), ("depth", "a", [10.0, 30.0]), ("mixed", "m", mixed), ("depth", "c", [11.0])], "together": False}
        grid = [0.0, 5.0, 10.0, 15.0, 20.0, 30.0, 60.0, 65.0, 70.0]
        for _ in range(40 if tier == "quick" else 600):
            steps = []
            for k in range(rng.randint(2, 4)):
                if rng.random() < 0.5:
                    steps.append(("depth", f"d{k}", [rng.choice(grid) + rng.choice([0.0, 1.0, 2.5]) for _ in range(rng.randint(1, 3))]))
                else:
                    ft = []
                    for _ in range(rng.randint(1, 3)):
                        a, b = sorted(rng.sample(grid, 2))
                        ft.append([a, b])
                    steps.append(("interval", f"i{k}", ft))
            yield {"steps": steps, "together": False}

    @staticmethod
    def _check(dh, collar, sv, written_d, written_i, case, where):
        tol = max(1e-3, float(case.get("collocation_distance") or 0.0))
        verts = np.asarray(dh.vertices) if dh.vertices is not None else np.zeros((0, 3))
        if dh.get_data("DEPTH"):
            depth_vals = np.asarray(dh.get_data("DEPTH")[0].values, dtype=float)
            has = np.isfinite(depth_vals)
            if len(depth_vals) != len(verts):
                return f"{where}: {len(depth_vals)} depths for {len(verts)} vertices ({case})"
            if has.any() and not np.allclose(verts[has], ref_path(collar, sv, depth_vals[has]), atol=1e-4):
                return f"{where}: vertices are not at the positions of their depths {depth_vals.tolist()} ({case})"
            for name, table in written_d.items():
                v = np.asarray(dh.get_data(name)[0].values, dtype=float)
                for dep, val in table.items():
                    hit = np.where(np.isclose(depth_vals, dep, atol=tol))[0]
                    if len(hit) != 1 or not np.isclose(v[hit[0]], val):
                        got = None if len(hit) != 1 else v[hit[0]]
                        return f"{where}: value {val} added at depth {dep} for '{name}' is found as {got} (depths {depth_vals.tolist()}, values {v.tolist()}) ({case})"
        elif written_d:
            return f"{where}: depth data were added but the hole has no DEPTH channel ({case})"
        if written_i:
            if not dh.get_data("FROM") or not dh.get_data("TO") or dh.cells is None:
                return f"{where}: interval data were added but FROM/TO/cells are missing ({case})"
            frm = np.asarray(dh.get_data("FROM")[0].values, dtype=float)
            to = np.asarray(dh.get_data("TO")[0].values, dtype=float)
            cells = np.asarray(dh.cells).astype(int)
            if len(cells) != len(frm) or len(frm) != len(to):
                return f"{where}: {len(cells)} cells for {len(frm)} from and {len(to)} to depths ({case})"
            if cells.size and (cells.max() >= len(verts)):
                return f"{where}: cells reference vertex {cells.max()} of {len(verts)} ({case})"
            if not np.allclose(verts[cells[:, 0]], ref_path(collar, sv, frm), atol=1e-4) or not np.allclose(verts[cells[:, 1]], ref_path(collar, sv, to), atol=1e-4):
                return f"{where}: interval cells {cells.tolist()} do not join the positions of their from/to depths {frm.tolist()} / {to.tolist()} ({case})"
            for name, table in written_i.items():
                v = np.asarray(dh.get_data(name)[0].values, dtype=float)
                for (a, b), val in table.items():
                    hit = np.where(np.isclose(frm, a, atol=tol) & np.isclose(to, b, atol=tol))[0]
                    if len(hit) != 1:
                        return f"{where}: interval {(a, b)} of '{name}' is listed {len(hit)} times in FROM/TO {frm.tolist()} / {to.tolist()} ({case})"
                    if len(v) <= hit[0] or not np.isclose(v[hit[0]], val):
                        return f"{where}: value {val} added on interval {(a, b)} for '{name}' is not attached to it (values {v.tolist()}) ({case})"
        return None

    @staticmethod
    def _check_text(dh, written_t, case, where):
        if not written_t:
            return None
        if not dh.get_data("DEPTH"):
            return f"{where}: text logs were added but the hole has no DEPTH channel ({case})"
        depth_vals = np.asarray(dh.get_data("DEPTH")[0].values, dtype=float)
        for name, table in written_t.items():
            v = dh.get_data(name)[0].values
            v = [] if v is None else [str(x) for x in np.atleast_1d(v).tolist()]
            for dep, text in table.items():
                hit = np.where(np.isclose(depth_vals, dep, atol=1e-3))[0]
                got = v[hit[0]] if len(hit) == 1 and hit[0] < len(v) else None
                if got != text:
                    return f"{where}: the text '{text}' logged at depth {dep} for '{name}' is found as {got!r} (depths {depth_vals.tolist()}, texts {v}) ({case})"
        return None

    def native_check(self, case):
        from geoh5py.objects import Drillhole
        from geoh5py.workspace import Workspace

        sv = np.array([[5.0, 30.0, -80.0], [40.0, 45.0, -60.0], [90.0, 120.0, -45.0]])
        collar = [10.0, 20.0, 30.0]
        steps = [tuple(s_) for s_ in case["steps"]]
        import os
        import shutil
        import tempfile

        tmp = tempfile.mkdtemp() if case.get("reopen") else None
        ws = Workspace.create(os.path.join(tmp, "dh.geoh5")) if tmp else Workspace()
        box = [ws]
        try:
            dh = Drillhole.create(ws, collar=np.array(collar), surveys=sv)
            uid = dh.uid
            written_d, written_i = {}, {}
            written_t = {}
            specs = []
            flat = []
            for kind, name, arg in steps:
                flat.extend([(k2, n2, a2, name) for k2, n2, a2 in arg] if kind == "mixed" else [(kind, name, arg, None)])
            for k, (kind, name, arg, call) in enumerate(flat):
                if kind == "depth-text":
                    uniq = list(dict.fromkeys(arg))
                    vals = np.array([f"note at {d:g}" for d in uniq])
                    written_t[name] = dict(zip(uniq, vals.tolist()))
                    specs.append(("depth", {name: {"depth": np.array(uniq), "values": vals, "type": "text"}}, call))
                elif kind == "depth":
                    uniq = list(dict.fromkeys(arg))
                    vals = np.array([1000.0 * (k + 1) + d for d in uniq])
                    written_d[name] = dict(zip(uniq, vals))
                    specs.append((kind, {name: {"depth": np.array(uniq), "values": vals}}, call))
                else:
                    uniq = list(dict.fromkeys(tuple(x) for x in arg))
                    vals = np.array([1000.0 * (k + 1) + a + b / 100.0 for a, b in uniq])
                    written_i[name] = {x: v for x, v in zip(uniq, vals)}
                    specs.append((kind, {name: {"from-to": np.array([list(x) for x in uniq]), "values": vals}}, call))
            kinds = {k for k, _, _ in specs}
            if case.get("together") and len(kinds) == 1:
                merged = {}
                for _, sp, _ in specs:
                    merged.update(sp)
                dh.add_data(merged)
                return self._check(dh, collar, sv, written_d, written_i, case, "after one add_data call")
            done_d, done_i = {}, {}
            done_t = {}
            ckw = {"collocation_distance": case["collocation_distance"]} if case.get("collocation_distance") else {}
            # consecutive specs that belong to one "mixed" step go into a single add_data call, in their order
            calls = []
            for kind, sp, call in specs:
                if call is not None and calls and calls[-1][0] == call:
                    calls[-1][1].append((kind, sp))
                else:
                    calls.append((call, [(kind, sp)]))
            for n_, (_, group) in enumerate(calls):
                payload = {}
                for kind, sp in group:
                    payload.update(sp)
                    name = next(iter(sp))
                    if name in written_t:
                        done_t[name] = written_t[name]
                        continue
                    (done_d if kind == "depth" else done_i)[name] = (written_d if kind == "depth" else written_i)[name]
                if tmp and n_ > 0:
                    # a later session: the hole is read back from the file (nothing cached) before more data are added
                    del dh
                    box[0].close()
                    box[0] = Workspace(os.path.join(tmp, "dh.geoh5"), mode="r+")
                    dh = box[0].get_entity(uid)[0]
                if case.get("twin") and n_ == len(calls) - 1:
                    twin = dh.copy(name="twin")
                    twin.add_data(payload, **ckw)
                    bad = self._check(twin, collar, sv, done_d, done_i, case, "the copy, after the last call went to it") or self._check_text(twin, done_t, case, "the copy, after the last call went to it")
                    if bad:
                        return bad
                    last = {next(iter(sp)) for _, sp in group}
                    src_d = {k_: v_ for k_, v_ in done_d.items() if k_ not in last}
                    src_i = {k_: v_ for k_, v_ in done_i.items() if k_ not in last}
                    bad = self._check(dh, collar, sv, src_d, src_i, case, "the source hole, after data were added to its copy")
                    if bad:
                        return bad
                    # ... and goes on as a hole of its own
                    dh.add_data({"after_twin": {"depth": np.array([3.0, 33.0, 77.0]), "values": np.array([1.0, 2.0, 3.0])}})
                    src_d["after_twin"] = {3.0: 1.0, 33.0: 2.0, 77.0: 3.0}
                    return self._check(dh, collar, sv, src_d, src_i, case, "the source hole, extended after its copy was")
                dh.add_data(payload, **ckw)
                bad = self._check(dh, collar, sv, done_d, done_i, case, f"after call {n_ + 1}") or self._check_text(dh, done_t, case, f"after call {n_ + 1}")
                if bad:
                    return bad
            if tmp:
                del dh
                box[0].close()
                box[0] = Workspace(os.path.join(tmp, "dh.geoh5"), mode="r")
                back = box[0].get_entity(uid)[0]
                return self._check(back, collar, sv, done_d, done_i, case, "after re-opening the file") or self._check_text(back, done_t, case, "after re-opening the file")
            return None
        finally:
            try:
                box[0].close()
            except Exception:
                pass
            if tmp:
                shutil.rmtree(tmp, ignore_errors=True)


CONTRACTS = [ComputeDeviation, Locations] + RESETS + [PathNative, DepthDataNative]


# ------------------------------------------------------------------------------------------
# Drillhole.sort_depths: one permutation for depths, vertex data, vertices; cells re-indexed
# ------------------------------------------------------------------------------------------


class GetDataStub(Contract):
    """summary of ObjectBase.get_data for sort_depths: the hole's DEPTH channel (if any)."""
    target = "geoh5py/objects/object_base.py::ObjectBase.get_data"
    symbolic = False
    props = ()

    def apply(self, I, args, kwargs):
        from pyvc.values import PList

        d = I.ctx.env.get("depth_data")
        return PList([d] if (d is not None and args[1] == "DEPTH") else [])


class DrillholeCellsSetStub(Contract):
    """summary of Drillhole.cells.fset: stores and persists the array (its uint32 assertion is a
    dtype check the engine does not carry; the re-indexed cells are cast with astype('uint32'))."""
    target = "geoh5py/objects/drillhole.py::Drillhole.cells.fset"
    symbolic = False
    props = ()

    def apply(self, I, args, kwargs):
        me, cells = args
        me.fields["_cells"] = cells
        I.event("persist", entity=me, group="cells", arr=cells)
        return None


class SortDepths(Contract):
    """Drillhole.sort_depths: when the depths are out of order, ONE permutation pi (depths[pi] sorted)
    is applied to the depths, to every vertex data set and to the vertices, and every interval cell
    is re-indexed with the inverse permutation, so it still joins the same two vertices; cell data
    are untouched; text logs (one text per vertex) follow the same permutation.  Sorted depths change nothing."""
    target = "geoh5py/objects/drillhole.py::Drillhole.sort_depths"
    props = ("C18", "C07")
    attr_overrides = {"children": lambda I, obj: obj.fields["_children"], "vertices": lambda I, obj: obj.fields["_vertices"], "cells": lambda I, obj: obj.fields["_cells"]}
    trusted = ("children / vertices / cells getters return the stored values; NumericData.format_values is the identity on arrays that already have one entry per vertex (C07/C08); depths are finite reals (NaN labels of interval-only vertices are outside the model)",)

    def cases(self):
        return ["with-cells", "without-cells"]

    def setup(self, ctx):
        from contracts.alignment import CellsSetStub, VerticesSetStub
        from geoh5py.data import DataAssociationEnum as A_, FloatData, TextData
        from geoh5py.objects import Drillhole
        from pyvc.values import AbsObj, PList

        n = ctx.int("n", 1)
        nc = ctx.int("nc", 0)
        V = sym_arr("vertices", (n.e, 3), "real")
        D = sym_arr("depths", (n.e,), "real")
        X = sym_arr("vertex_values", (n.e,), "real")
        Y = sym_arr("cell_values", (nc.e,), "real")
        C = sym_arr("cells", (nc.e, 2), "int") if ctx.case == "with-cells" else None
        ctx.assume(n.e < 2 ** 32)  # vertex indices fit the unsigned 32-bit cells of the format
        if C is not None:
            c, j = z3.Ints(f"{fresh_name('c')} {fresh_name('j')}")
            ctx.assume(z3.ForAll([c, j], z3.Implies(z3.And(c >= 0, c < nc.e, j >= 0, j < 2), z3.And(C.elem(c, j) >= 0, C.elem(c, j) < n.e))))

        def data(tag, cls, assoc, values):
            return AbsObj(tag, {"association": AbsObj("assoc", {"name": assoc}), "values": values, "name": tag}, {"format_values": lambda I, a, kw: a[0]}, cls=cls)

        depth = data("DEPTH", FloatData, "VERTEX", D)
        vdat = data("vertex-data", FloatData, "VERTEX", X)
        cdat = data("cell-data", FloatData, "CELL", Y)
        T = sym_arr("text_codes", (n.e,), "int")  # one text per vertex (texts are carried as opaque codes)
        tdat = data("text-data", TextData, "VERTEX", T)
        me = Obj(Drillhole, {"_children": PList([depth, vdat, cdat, tdat]), "_vertices": V, "_cells": C})
        ctx.env.update(depth_data=depth, me=me, V=V, D=D, X=X, Y=Y, C=C, T=T, n=n, nc=nc, kids={"depth": depth, "v": vdat, "c": cdat, "t": tdat})
        return [me], {}

    def post(self, ctx, result):
        e = ctx.env
        n, nc = e["n"].e, e["nc"].e
        me = e["me"]
        sorts = ctx.path.ghost.get("argsorts", [])
        newD, newX = e["kids"]["depth"].attrs["values"], e["kids"]["v"].attrs["values"]
        newV, newC = me.fields["_vertices"], me.fields["_cells"]
        ctx.oblige("cell-data-untouched", e["kids"]["c"].attrs["values"] is e["Y"])
        newT = e["kids"]["t"].attrs["values"]
        i, c, j = z3.Ints(f"{fresh_name('i')} {fresh_name('c')} {fresh_name('j')}")
        rng = z3.And(i >= 0, i < n)
        if not sorts:
            ctx.oblige("sorted-depths-change-nothing", newD is e["D"] and newX is e["X"] and newV is e["V"] and newC is e["C"] and newT is e["T"])
            a, b = z3.Ints(f"{fresh_name('a')} {fresh_name('b')}")
            ctx.oblige("nothing-is-done-only-when-the-depths-are-in-order", z3.Implies(z3.And(a >= 0, a + 1 < n), e["D"].elem(a) <= e["D"].elem(a + 1)))
            return
        pi, inv = sorts[0]["perm"], sorts[0]["inv"]
        ok = all(isinstance(x, Arr) for x in (newD, newX, newV))
        ctx.oblige("depths-vertex-data-and-vertices-are-replaced-by-arrays", ok and len(sorts) == 1)
        if not ok:
            return
        ctx.oblige("the-new-depths-are-in-order", z3.Implies(z3.And(i >= 0, i + 1 < n), newD.elem(i) <= newD.elem(i + 1)))
        ctx.oblige("depths-follow-the-sorting-permutation", z3.Implies(rng, newD.elem(i) == e["D"].elem(pi(i))))
        ctx.oblige("vertex-data-follow-the-same-permutation", z3.Implies(rng, newX.elem(i) == e["X"].elem(pi(i))))
        okt = isinstance(newT, Arr) and newT is not e["T"]
        ctx.oblige("text-logs-are-reordered-too", okt, note="a text log keeps its old order while its depths are re-sorted: each text is then attached to another depth")
        if okt:
            ctx.oblige("text-logs-follow-the-same-permutation", z3.Implies(rng, newT.elem(i) == e["T"].elem(pi(i))))
        ctx.oblige("vertices-follow-the-same-permutation", z3.Implies(rng, z3.And(*[newV.elem(i, k) == e["V"].elem(pi(i), k) for k in range(3)])))
        if e["C"] is not None:
            okc = isinstance(newC, Arr) and newC.ndim == 2
            ctx.oblige("cells-are-re-indexed", okc)
            if okc:
                inr = z3.And(c >= 0, c < nc, j >= 0, j < 2)
                ctx.oblige("one-cell-per-old-cell", Z(newC.shape[0]) == nc)
                ctx.oblige("every-cell-still-joins-the-same-two-vertices", z3.Implies(inr, z3.And(newC.elem(c, j) >= 0, newC.elem(c, j) < n, pi(newC.elem(c, j)) == e["C"].elem(c, j))),
                           note="a cell end points at a vertex that is not the one it joined before the re-sort")


def _wire_sort():
    from contracts.alignment import CellsSetStub, VerticesSetStub

    SortDepths.uses = (GetDataStub, VerticesSetStub, CellsSetStub, DrillholeCellsSetStub)


_wire_sort()
from contracts.alignment import CellsSetStub as _CSS, VerticesSetStub as _VSS  # noqa: E402

CONTRACTS = CONTRACTS + [GetDataStub, _VSS, _CSS, DrillholeCellsSetStub, SortDepths]


class RefusedEditsNative(Contract):
    """Bounded stand-in: the positions a hole hands out belong to the collar and survey it reports --
    also after an assignment of a new collar or survey that the file refused (workspace opened
    read-only, or closed) and after the valid assignment that follows."""
    target = "geoh5py/objects/drillhole.py::Drillhole.desurvey"
    variant = "refused-edits-native"
    symbolic = False
    has_native = True
    props = ("C18",)
    bounded_scope = "one stored hole (collar, 3-station survey), positions read first; a new collar / a new survey assigned in {a read-only session, after the workspace was closed, a writable session}; desurvey at 4 depths compared with the reference path of the collar and survey the hole reports afterwards (exhaustive: 2 attributes x 3 sessions)"

    def native_cases(self, tier, rng):
        for attr in ("collar", "surveys"):
            for session in ("read-only", "closed", "writable"):
                yield {"attr": attr, "session": session}

    def native_check(self, case):
        import os
        import shutil
        import tempfile

        from geoh5py.objects import Drillhole
        from geoh5py.workspace import Workspace

        d = tempfile.mkdtemp()
        try:
            path = os.path.join(d, "h.geoh5")
            with Workspace.create(path) as ws:
                Drillhole.create(ws, name="h", collar=[10.0, 20.0, 30.0], surveys=np.c_[np.r_[0.0, 50.0, 100.0], np.r_[0.0, 45.0, 90.0], np.r_[-90.0, -70.0, -50.0]])
            ws = Workspace(path, mode="r" if case["session"] == "read-only" else "r+")
            try:
                hole = ws.get_entity("h")[0]
                depths = np.array([0.0, 25.0, 75.0, 140.0])
                hole.desurvey(depths)  # the positions have been asked for before
                if case["session"] == "closed":
                    ws.close()
                new = [110.0, 220.0, 330.0] if case["attr"] == "collar" else np.c_[np.r_[0.0, 60.0, 120.0], np.r_[180.0, 200.0, 220.0], np.r_[-60.0, -60.0, -45.0]]
                try:
                    setattr(hole, case["attr"], new)
                    refused = False
                except Exception:
                    refused = True
                if case["session"] == "closed":
                    ws.open()
                    hole = ws.get_entity("h")[0] if hole.workspace is not ws else hole
                collar = np.array([float(hole.collar[k]) for k in ("x", "y", "z")])
                sv = np.asarray(hole.surveys)
                surveys = np.c_[[np.asarray(sv[k], dtype=float) for k in ("Depth", "Azimuth", "Dip")]].T if sv.dtype.names else sv.astype(float)
                want = ref_path(collar, surveys, depths)
                got = np.asarray(hole.desurvey(depths), dtype=float)
                if got.shape != want.shape or not np.allclose(got, want, atol=1e-3):
                    return (f"after a {'refused' if refused else 'valid'} assignment of {case['attr']} ({case['session']} session) the hole reports collar {collar.tolist()} "
                            f"but places depth 0 at {got[0].tolist()} (positions are those of the former {case['attr']}) ({case})")
            finally:
                ws.close()
        finally:
            shutil.rmtree(d, ignore_errors=True)
        return None


CONTRACTS = CONTRACTS + [RefusedEditsNative]
