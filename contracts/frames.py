"""Frame (purity) contracts checked in the abstract mode of pyvc: the function is executed over
opaque inputs; every in-place mutation of an object reachable from a frozen input is an event,
and the obligation is that no path produces one."""
from __future__ import annotations

from pyvc.contracts import Contract
from pyvc.values import Opaque


class FrameContract(Contract):
    lenient = True
    frozen_note = ""

    def frame_events(self, ctx):
        return [p for k, p in ctx.path.events if k in ("mutate", "setattr") and p.get("frozen")]

    def check_frame(self, ctx, kind="frame"):
        bad = self.frame_events(ctx)
        sites = sorted({f"{b['target']}.{b.get('how') or b.get('name')}@{b['where']}" for b in bad})
        # one obligation per mutation site (named by the mutated object, not by line) + a summary
        ctx.oblige("modifies-nothing-it-was-given", not bad, kind=kind, note="; ".join(sites))

    def post(self, ctx, result):
        self.check_frame(ctx)

    def post_raises(self, ctx, sig):
        self.check_frame(ctx, kind="frame-exc")


class ValidateFrame(FrameContract):
    target = "geoh5py/ui_json/validation.py::InputValidation.validate"
    props = ("C15",)

    def cases(self):
        return ["own-rules", "given-rules"]

    def setup(self, ctx):
        from geoh5py.ui_json.validation import InputValidation

        me = Opaque("self", cls=InputValidation)
        me.attrs["validations"] = Opaque("self.validations", frozen=True, elem_frozen=True)
        me.attrs["ignore_requirements"] = Opaque("self.ignore_requirements")
        me.attrs["ignore_list"] = Opaque("self.ignore_list", frozen=True, elem_frozen=True)
        me.attrs["validators"] = Opaque("self.validators", frozen=True, elem_frozen=True)
        given = None if ctx.case == "own-rules" else Opaque("validations", frozen=True, elem_frozen=True)
        return [me, Opaque("name"), Opaque("value", frozen=True, elem_frozen=True), given], {}

    def apply(self, I, args, kwargs):
        # summary (proved above): returns None or raises a validation/Key error; mutates nothing
        from geoh5py.shared.exceptions import BaseValidationError

        which = I.path.choose(3, f"validate-outcome@{I.cur_line}")
        if which == 1:
            I.raise_(BaseValidationError)
        if which == 2:
            I.raise_(KeyError)
        return None


class ValidateDataFrame(FrameContract):
    target = "geoh5py/ui_json/validation.py::InputValidation.validate_data"
    props = ("C15",)
    uses = (ValidateFrame,)
    has_native = True
    bounded_scope = "validators with rule tables over {required, types, one_of, association} for 2 parameters x data dicts; each call repeated twice (exhaustive over the listed shapes)"

    def setup(self, ctx):
        from geoh5py.ui_json.validation import InputValidation

        me = Opaque("self", cls=InputValidation)
        me.attrs["validations"] = Opaque("self.validations", frozen=True, elem_frozen=True)
        me.attrs["_validations"] = me.attrs["validations"]
        me.attrs["ignore_requirements"] = Opaque("self.ignore_requirements")
        me.attrs["ignore_list"] = Opaque("self.ignore_list", frozen=True, elem_frozen=True)
        me.attrs["validators"] = Opaque("self.validators", frozen=True, elem_frozen=True)
        data = Opaque("data", frozen=True, elem_frozen=True)
        return [me, data], {}

    def native_cases(self, tier, rng):
        import itertools

        rules = [
            {"a": {"types": [str]}},
            {"a": {"types": [str], "one_of": "g"}, "b": {"types": [str], "one_of": "g"}},
            {"a": {"types": [str], "required": True}, "b": {"types": [int]}},
            {"a": {"types": [str, type(None)], "one_of": "g"}},
        ]
        datas = [{"a": "x", "b": "y"}, {"a": None, "b": None}, {"a": "x"}, {"a": None, "b": "y"}, {"a": 3, "b": 3}]
        for r, d in itertools.product(range(len(rules)), range(len(datas))):
            yield {"rules": r, "data": d, "_rules": rules, "_datas": datas}

    def native_check(self, case):
        import copy

        from geoh5py.shared.exceptions import BaseValidationError
        from geoh5py.ui_json.validation import InputValidation

        rules = copy.deepcopy(case["_rules"][case["rules"]])
        data = dict(case["_datas"][case["data"]])

        def verdict(v, d):
            try:
                v.validate_data(d)
                return "ok"
            except (BaseValidationError, KeyError, TypeError) as exc:
                return type(exc).__name__

        val = InputValidation(validations=copy.deepcopy(rules))
        before = copy.deepcopy(val.validations)
        first = verdict(val, dict(data))
        if val.validations != before:
            return f"validate_data changed the validator's rule table: {before} -> {val.validations}"
        second = verdict(val, dict(data))
        if first != second:
            return f"same call gave {first} then {second} (rules {rules}, data {data})"
        return None


CONTRACTS = [ValidateDataFrame, ValidateFrame]
