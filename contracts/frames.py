"""Frame (purity) contracts checked in the abstract mode of pyvc: the function is executed over
opaque inputs; every in-place mutation of an object reachable from a frozen input is an event,
and the obligation is that no path produces one."""
from __future__ import annotations

from pyvc.contracts import Contract
from pyvc.values import Opaque


class FrameContract(Contract):
    lenient = True
    frozen_note = ""

    def frame_events(self, ctx):
        return [p for k, p in ctx.path.events if k in ("mutate", "setattr") and p.get("frozen")]

    def check_frame(self, ctx, kind="frame"):
        bad = self.frame_events(ctx)
        sites = sorted({f"{b['target']}.{b.get('how') or b.get('name')}@{b['where']}" for b in bad})
        # one obligation per mutation site (named by the mutated object, not by line) + a summary
        ctx.oblige("modifies-nothing-it-was-given", not bad, kind=kind, note="; ".join(sites))

    def post(self, ctx, result):
        self.check_frame(ctx)

    def post_raises(self, ctx, sig):
        self.check_frame(ctx, kind="frame-exc")


class ValidateFrame(FrameContract):
    target = "geoh5py/ui_json/validation.py::InputValidation.validate"
    props = ("C15",)

    def cases(self):
        return ["own-rules", "given-rules"]

    def setup(self, ctx):
        from geoh5py.ui_json.validation import InputValidation

        me = Opaque("self", cls=InputValidation)
        me.attrs["validations"] = Opaque("self.validations", frozen=True, elem_frozen=True)
        me.attrs["ignore_requirements"] = Opaque("self.ignore_requirements")
        me.attrs["ignore_list"] = Opaque("self.ignore_list", frozen=True, elem_frozen=True)
        me.attrs["validators"] = Opaque("self.validators", frozen=True, elem_frozen=True)
        given = None if ctx.case == "own-rules" else Opaque("validations", frozen=True, elem_frozen=True)
        return [me, Opaque("name"), Opaque("value", frozen=True, elem_frozen=True), given], {}

    def apply(self, I, args, kwargs):
        # summary (proved above): returns None or raises a validation/Key error; mutates nothing
        from geoh5py.shared.exceptions import BaseValidationError

        which = I.path.choose(3, f"validate-outcome@{I.cur_line}")
        if which == 1:
            I.raise_(BaseValidationError)
        if which == 2:
            I.raise_(KeyError)
        return None


class ValidateDataFrame(FrameContract):
    target = "geoh5py/ui_json/validation.py::InputValidation.validate_data"
    props = ("C15",)
    uses = (ValidateFrame,)
    has_native = True
    bounded_scope = "validators with rule tables over {required, types, one_of, association} for 2 parameters x data dicts; each call repeated twice (exhaustive over the listed shapes)"

    def setup(self, ctx):
        from geoh5py.ui_json.validation import InputValidation

        me = Opaque("self", cls=InputValidation)
        me.attrs["validations"] = Opaque("self.validations", frozen=True, elem_frozen=True)
        me.attrs["_validations"] = me.attrs["validations"]
        me.attrs["ignore_requirements"] = Opaque("self.ignore_requirements")
        me.attrs["ignore_list"] = Opaque("self.ignore_list", frozen=True, elem_frozen=True)
        me.attrs["validators"] = Opaque("self.validators", frozen=True, elem_frozen=True)
        data = Opaque("data", frozen=True, elem_frozen=True)
        return [me, data], {}

    def native_cases(self, tier, rng):
        import itertools

        rules = [
            {"a": {"types": [str]}},
            {"a": {"types": [str], "one_of": "g"}, "b": {"types": [str], "one_of": "g"}},
            {"a": {"types": [str], "required": True}, "b": {"types": [int]}},
            {"a": {"types": [str, type(None)], "one_of": "g"}},
        ]
        datas = [{"a": "x", "b": "y"}, {"a": None, "b": None}, {"a": "x"}, {"a": None, "b": "y"}, {"a": 3, "b": 3}]
        for r, d in itertools.product(range(len(rules)), range(len(datas))):
            yield {"rules": r, "data": d, "_rules": rules, "_datas": datas}

    def native_check(self, case):
        import copy

        from geoh5py.shared.exceptions import BaseValidationError
        from geoh5py.ui_json.validation import InputValidation

        rules = copy.deepcopy(case["_rules"][case["rules"]])
        data = dict(case["_datas"][case["data"]])

        def verdict(v, d):
            try:
                v.validate_data(d)
                return "ok"
            except (BaseValidationError, KeyError, TypeError) as exc:
                return type(exc).__name__

        val = InputValidation(validations=copy.deepcopy(rules))
        before = copy.deepcopy(val.validations)
        first = verdict(val, dict(data))
        if val.validations != before:
            return f"validate_data changed the validator's rule table: {before} -> {val.validations}"
        second = verdict(val, dict(data))
        if first != second:
            return f"same call gave {first} then {second} (rules {rules}, data {data})"
        return None


CONTRACTS = [ValidateDataFrame, ValidateFrame]


class InputFileVerdictHistories(Contract):
    """History independence at the level the user works at: whatever accepted calls an InputFile has
    served (set_data_value on any parameter, whole-dictionary assignments, reading its validators or
    data), its verdict on the next dictionary equals the verdict of a fresh InputFile brought to the
    same form and values in one step -- and a rejected dictionary leaves data and forms unchanged."""
    target = "geoh5py/ui_json/input_file.py::InputFile.set_data_value"
    variant = "verdict-histories"
    symbolic = False
    has_native = True
    props = ("C15",)
    bounded_scope = ("an InputFile with two optional string parameters under a one_of rule and one typed integer parameter; histories of 0-4 accepted calls over "
                     "{set_data_value on each parameter, whole-dictionary assignment, reading validators / data}; 6 candidate dictionaries judged after each history "
                     "and compared with a fresh InputFile holding the same values (12 fixed + 30 seeded histories quick / 300 thorough)")

    RULES = {"param_1": {"one_of": "filter parameter"}, "param_2": {"one_of": "filter parameter"}}
    CANDIDATES = [
        {"param_1": None, "param_2": None},
        {"param_1": "a", "param_2": None},
        {"param_1": None, "param_2": "b"},
        {"param_1": "a", "param_2": "b"},
        {"param_1": 1, "param_2": None},
        {"count": "many"},
    ]
    STEPS = [("set", "param_1", "c"), ("set", "param_2", "b"), ("set", "param_1", None), ("set", "param_2", None), ("set", "count", 5), ("assign", {"param_1": "z", "param_2": None}, None),
             ("assign", {"param_1": None, "param_2": "y"}, None), ("read", "validators", None), ("read", "data", None)]
    FIXED = [[], [1], [0, 1], [1, 0], [2, 1], [1, 2], [4], [4, 1], [5, 1], [7, 1, 7], [8, 0, 1], [6, 0]]

    def native_cases(self, tier, rng):
        for h in self.FIXED:
            yield {"history": h}
        for _ in range(30 if tier == "quick" else 300):
            yield {"history": [rng.randrange(len(self.STEPS)) for _ in range(rng.randint(1, 4))]}

    def native_check(self, case):
        import copy
        import os
        import shutil
        import tempfile

        from geoh5py.ui_json import InputFile
        from geoh5py.workspace import Workspace

        d = tempfile.mkdtemp()
        try:
            path = os.path.join(d, "p.geoh5")
            Workspace.create(path).close()

            def fresh(values=None):
                form = {"optional": True, "enabled": False, "value": None}
                ui = {"title": "demo", "geoh5": str(path), "param_1": dict(form, label="first"), "param_2": dict(form, label="second"), "count": {"label": "count", "value": 1}}
                f = InputFile(ui_json=ui, validations=copy.deepcopy(self.RULES))
                base = {"title": "demo", "geoh5": f.ui_json["geoh5"], "param_1": "a", "param_2": None, "count": 1}
                base.update(values or {})
                f.data = base
                return f

            def snap(f):
                return ({k: v for k, v in f.data.items() if k != "geoh5"}, {k: dict(v) for k, v in f.ui_json.items() if isinstance(v, dict)})

            def used():
                f = fresh()
                for i in case["history"]:
                    kind, a, b = self.STEPS[i]
                    try:
                        if kind == "set":
                            f.set_data_value(a, b)
                        elif kind == "assign":
                            dd = dict(f.data)
                            dd.update(a)
                            f.data = dd
                        else:
                            getattr(f, a)
                    except Exception:
                        pass  # a refused step is part of the history too
                return f

            def verdict(f, values):
                dd = dict(f.data)
                dd.update(values)
                before = snap(f)
                try:
                    f.data = dd
                except Exception as exc:
                    return "rejected:" + type(exc).__name__, snap(f) == before
                return "accepted", True

            for cand in self.CANDIDATES:
                u = used()
                current = {k: v for k, v in u.data.items() if k in ("param_1", "param_2", "count")}
                try:
                    ref_file = fresh(current)
                except Exception:
                    continue  # the history ended in a state a fresh file cannot be given in one step: nothing to compare with
                ref, _ = verdict(ref_file, cand)
                got, untouched = verdict(u, cand)
                if got != ref:
                    return f"after history {[self.STEPS[i][:2] for i in case['history']]} (values {current}) the dictionary {cand} is {got}; a fresh InputFile holding the same values says {ref}"
                if not untouched:
                    return f"after history {[self.STEPS[i][:2] for i in case['history']]} the rejected dictionary {cand} changed the stored data or forms"
            return None
        finally:
            shutil.rmtree(d, ignore_errors=True)


CONTRACTS = CONTRACTS + [InputFileVerdictHistories]


class CrossInstanceVerdicts(Contract):
    """The verdict on an input file does not depend on which other input files the process has handled
    before: the library's own rule table for the base parameters is the same after any number of
    InputFile objects were built (with or without rules of their own, with base parameters given as
    plain values or as forms), and a fixed ui.json gets the same verdict before and after."""
    target = "geoh5py/ui_json/input_file.py::InputFile.validations.fset"
    variant = "cross-instance"
    symbolic = False
    has_native = True
    props = ("C15",)
    bounded_scope = "a probe ui.json (base parameters as plain values) judged before and after 1-3 other InputFile objects are built: with a validations argument or not, with conda_environment / title / run_command given as choice-list or optional forms; the base rule table deep-compared after each (exhaustive over the listed combinations)"

    def native_cases(self, tier, rng):
        import itertools

        kinds = ("plain", "with-rules", "with-rules-and-choice-form", "choice-form", "optional-form-with-rules")
        for n in (1, 2):
            for combo in itertools.product(kinds, repeat=n):
                yield {"others": list(combo)}

    def native_check(self, case):
        import copy
        from copy import deepcopy

        from geoh5py.shared.exceptions import BaseValidationError
        from geoh5py.ui_json import InputFile, templates
        from geoh5py.ui_json.constants import base_validations, default_ui_json
        from geoh5py.workspace import Workspace

        table0 = copy.deepcopy(base_validations)

        def probe(ws):
            ui = deepcopy(default_ui_json)
            ui["geoh5"] = ws
            ui["conda_environment"] = "my_env"
            ui["title"] = "a title"
            try:
                InputFile(ui_json=ui).data
                return "accepted"
            except BaseValidationError as exc:
                return type(exc).__name__

        with Workspace() as ws:
            first = probe(ws)
            for kind in case["others"]:
                ui = deepcopy(default_ui_json)
                ui["geoh5"] = ws
                kw = {}
                if "rules" in kind:
                    kw["validations"] = {"extra": {"types": [int, type(None)]}}
                    ui["extra"] = 3
                if "choice-form" in kind:
                    ui["conda_environment"] = templates.choice_string_parameter(choice_list=("env_a", "env_b"), value="env_a", label="environment")
                if "optional-form" in kind:
                    ui["run_command"] = templates.string_parameter(label="command", value="geoh5py.x", optional="enabled")
                try:
                    InputFile(ui_json=ui, **kw).data
                except BaseValidationError:
                    pass
                if base_validations != table0:
                    changed = sorted(k for k in set(table0) | set(base_validations) if table0.get(k) != base_validations.get(k))
                    return f"building an InputFile ({kind}) changed the library's rule table for {changed}: {[base_validations.get(k) for k in changed]} ({case})"
                again = probe(ws)
                if again != first:
                    return f"the same ui.json was {first} before and {again} after another InputFile ({kind}) had been built ({case})"
        return None


CONTRACTS = CONTRACTS + [CrossInstanceVerdicts]
