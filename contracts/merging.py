"""C16: merging preserves every input's geometry and data."""
from __future__ import annotations

import itertools

import numpy as np
import z3

from pyvc.contracts import Contract, LoopSpec
from pyvc.core import RaiseSig, fresh_name
from pyvc.models_np import Z
from pyvc.values import AbsObj, Arr, Opaque, PDict, PList, SList, mk, sym, to_z3, zbool

KF_TRAILING = "KF-C16-1"


def sym_inputs(ctx, w):
    """A list of K >= 2 same-class inputs: input k has nv(k) vertices V(k,v,a) and nc(k) cells
    C(k,c,j) with 0 <= C < nv(k) (cells reference existing vertices; nothing else is assumed, in
    particular vertices may be used by no cell)."""
    K = ctx.int("K", 2)
    nv = z3.Function(fresh_name("nv"), z3.IntSort(), z3.IntSort())
    nc = z3.Function(fresh_name("nc"), z3.IntSort(), z3.IntSort())
    V = z3.Function(fresh_name("V"), z3.IntSort(), z3.IntSort(), z3.IntSort(), z3.RealSort())
    C = z3.Function(fresh_name("C"), z3.IntSort(), z3.IntSort(), z3.IntSort(), z3.IntSort())
    k, c, j = z3.Ints(f"{fresh_name('k')} {fresh_name('c')} {fresh_name('j')}")
    ctx.assume(z3.ForAll([k], z3.Implies(z3.And(k >= 0, k < K.e), z3.And(nv(k) >= 1, nc(k) >= 1)), patterns=[nv(k)]))
    if w:
        ctx.assume(z3.ForAll([k, c, j], z3.Implies(z3.And(k >= 0, k < K.e, c >= 0, c < nc(k), j >= 0, j < w), z3.And(C(k, c, j) >= 0, C(k, c, j) < nv(k))), patterns=[C(k, c, j)]))

    def entity(kk):
        kz = to_z3(kk, "int")
        attrs = {"vertices": Arr((nv(kz), 3), lambda v, a, _k=kz: V(_k, Z(v), Z(a)), "real", "vertices_k")}
        if w:
            attrs["cells"] = Arr((nc(kz), w), lambda cc, jj, _k=kz: C(_k, Z(cc), Z(jj)), "int", "cells_k")
        return AbsObj("input", attrs)

    return SList(K, entity, "input_entities"), dict(K=K, nv=nv, nc=nc, V=V, C=C, w=w)


def _capture_create(ctx, real_cls=None):
    """Stand-in for the merger class: `cls._type.create(workspace, **kwargs)` records the geometry it
    is given; every other class attribute (private helpers) is the real class's."""

    def create(I, args, kw):
        ctx.env["created"] = kw
        return Opaque("merged-object")

    out = AbsObj("merger-class", {"_type": AbsObj("type", {}, {"create": create})}, cls=real_cls)
    out.is_class = real_cls is not None
    return out


class PointsCreate(Contract):
    target = "geoh5py/shared/merging/points.py::PointsMerger.create_object"
    props = ("C16",)
    trusted = ("ObjectBase.create stores the vertices/cells it is given (C03/C01)",)

    def setup(self, ctx):
        inputs, S = sym_inputs(ctx, 0)
        ctx.env.update(S=S)
        from geoh5py.shared.merging import PointsMerger

        return [_capture_create(ctx, PointsMerger), Opaque("workspace"), inputs], {}

    def post(self, ctx, result):
        S = ctx.env["S"]
        kw = ctx.env.get("created")
        ok = kw is not None and isinstance(kw.get("vertices"), Arr) and getattr(kw["vertices"], "blocks", None) is not None
        ctx.oblige("object-created-from-stacked-vertices", ok)
        if not ok:
            return
        out = kw["vertices"]
        seq, off, blk = out.blocks
        r, a = z3.Ints(f"{fresh_name('r')} {fresh_name('a')}")
        total = Z(out.shape[0])
        ctx.oblige("vertex-count-is-sum-of-inputs", total == off(S["K"].e))
        ctx.oblige(
            "vertices-are-the-inputs-vertices-in-input-order",
            z3.Implies(z3.And(r >= 0, r < total, a >= 0, a < 3), z3.And(blk(r) >= 0, blk(r) < S["K"].e, out.elem(r, a) == S["V"](blk(r), r - off(blk(r)), a), r - off(blk(r)) >= 0, r - off(blk(r)) < S["nv"](blk(r)))),
        )
        k = z3.Int(fresh_name("k"))
        ctx.oblige("offsets-are-running-vertex-counts", z3.Implies(z3.And(k >= 0, k < S["K"].e), off(k + 1) == off(k) + S["nv"](k)))


def _cm_inv(ctx, st, k):
    e = ctx.env
    S = e["S"]
    vertices = st["vertices"]
    seq, voff, vblk = vertices.blocks
    e["voff"] = voff
    prev = st["previous"]
    cells = st["cells"]
    out = []
    from pyvc.models_py import seq_len

    out.append(("cells-list-has-one-block-per-input-so-far", to_z3(seq_len(ctx.I, cells), "int") == k))
    if isinstance(cells, SList):
        m, c, j = z3.Ints(f"{fresh_name('m')} {fresh_name('c')} {fresh_name('j')}")
        blk_m = cells.elem(m)
        out.append((
            "each-block-is-the-input-cells-shifted-by-its-vertex-offset",
            z3.ForAll([m, c, j], z3.Implies(z3.And(m >= 0, m < k, c >= 0, c < S["nc"](m), j >= 0, j < S["w"]), z3.And(blk_m.elem(c, j) == S["C"](m, c, j) + voff(m), Z(blk_m.shape[0]) == S["nc"](m)))),
        ))
    goal = to_z3(prev, "int") == voff(k)
    if ctx.finding_open(KF_TRAILING) and not (z3.is_int_value(k) and k.as_long() == 0):
        # known finding: the running offset is taken from the largest cell index instead of the vertex count
        c2, j2 = z3.Ints(f"{fresh_name('c')} {fresh_name('j')}")
        km1 = k - 1
        last_used = z3.Exists([c2, j2], z3.And(c2 >= 0, c2 < S["nc"](km1), j2 >= 0, j2 < S["w"], S["C"](km1, c2, j2) == S["nv"](km1) - 1))
        out.append(("running-offset-equals-vertices-so-far[last-vertex-of-each-input-referenced]", z3.Implies(last_used, goal)))
        out.append(("running-offset-equals-vertices-so-far[input-with-unreferenced-trailing-vertices]", z3.Implies(z3.Not(last_used), goal)))
    else:
        out.append(("running-offset-equals-vertices-so-far", goal))
    return out


def _cm_havoc(ctx, st, k):
    S = ctx.env["S"]
    st["previous"] = sym("previous", "int")
    CL = z3.Function(fresh_name("CL"), z3.IntSort(), z3.IntSort(), z3.IntSort(), z3.IntSort())
    rows = z3.Function(fresh_name("CLrows"), z3.IntSort(), z3.IntSort())
    st["cells"] = SList(mk(k, "int"), lambda m: Arr((rows(to_z3(m, "int")), S["w"]), lambda c, j, _m=to_z3(m, "int"): CL(_m, Z(c), Z(j)), "int", "cells_list_m"), "cells")
    st.frame.locals.pop("temp_cells", None)


class CellCreate(Contract):
    target = "geoh5py/shared/merging/cell.py::CellMerger.create_object"
    props = ("C16",)
    loops = {1: LoopSpec(_cm_inv, _cm_havoc, "for-entity")}
    has_native = True
    trusted = ("ObjectBase.create stores the vertices/cells it is given (C03/C01)",)
    bounded_scope = "2-3 curves with 2-4 vertices each and every non-empty segment list over them with <= 2 segments (incl. unordered segments and unused vertices); surfaces: 2 inputs of 3-4 vertices with 1-2 triangles"

    def cases(self):
        return [2, 3]

    def setup(self, ctx):
        inputs, S = sym_inputs(ctx, ctx.case)
        ctx.env.update(S=S)
        return [_capture_create(ctx, __import__("geoh5py.shared.merging", fromlist=["CurveMerger"]).CurveMerger), Opaque("workspace"), inputs], {}

    def post(self, ctx, result):
        S = ctx.env["S"]
        kw = ctx.env.get("created")
        ok = kw is not None and isinstance(kw.get("vertices"), Arr) and isinstance(kw.get("cells"), Arr) and getattr(kw["cells"], "blocks", None) is not None
        ctx.oblige("object-created-from-stacked-vertices-and-cells", ok)
        if not ok:
            return
        cells = kw["cells"]
        cseq, coff, cblk = cells.blocks
        voff = ctx.env["voff"]
        r, j = z3.Ints(f"{fresh_name('r')} {fresh_name('j')}")
        total = Z(cells.shape[0])
        b = cblk(r)
        ctx.oblige(
            "every-merged-cell-is-the-input-cell-shifted-by-the-vertices-before-it",
            z3.Implies(z3.And(r >= 0, r < total, j >= 0, j < S["w"]), z3.And(b >= 0, b < S["K"].e, cells.elem(r, j) == S["C"](b, r - coff(b), j) + voff(b))),
        )
        k = z3.Int(fresh_name("k"))
        ctx.oblige("cell-offsets-are-running-cell-counts", z3.Implies(z3.And(k >= 0, k < S["K"].e), coff(k + 1) == coff(k) + S["nc"](k)))
        # hence: vertices[cells[coff_k + c][j]] == inputs[k].vertices[inputs[k].cells[c][j]] by PointsCreate's vertex clause

    def post_raises(self, ctx, sig):
        ctx.oblige(f"no-exception", False, kind="post-exc", note=f"{sig.exc_class.__name__} at {sig.origin}")

    # ---- native -------------------------------------------------------------------------
    def in_known_class(self, case):
        return any(max(max(c) for c in inp["cells"]) < inp["nv"] - 1 for inp in case["inputs"][:-1])

    def native_cases(self, tier, rng):
        def curves(nv):
            segs = [(a, b) for a in range(nv) for b in range(nv) if a != b]
            for n in (1, 2):
                for combo in itertools.combinations(segs, n):
                    yield {"nv": nv, "cells": [list(s) for s in combo]}

        pool = [c for nv in (2, 3) for c in curves(nv)]
        small = pool if tier == "thorough" else pool[:: max(1, len(pool) // 14)]
        for a, b in itertools.product(small, repeat=2):
            yield {"w": 2, "inputs": [a, b]}
        for a, b, c in itertools.product(small[::3], repeat=3):
            yield {"w": 2, "inputs": [a, b, c]}
        tris = [{"nv": 3, "cells": [[0, 1, 2]]}, {"nv": 4, "cells": [[0, 1, 2], [1, 2, 3]]}, {"nv": 4, "cells": [[3, 1, 0]]}, {"nv": 4, "cells": [[0, 1, 2]]}]
        for a, b in itertools.product(tris, repeat=2):
            yield {"w": 3, "inputs": [a, b]}
        for a, b, c in itertools.product(tris[:3], repeat=3):
            yield {"w": 3, "inputs": [a, b, c]}

    def native_check(self, case, allow_known=False):
        from geoh5py.objects import Curve, Surface
        from geoh5py.shared.merging import CurveMerger, SurfaceMerger
        from geoh5py.workspace import Workspace

        if not allow_known and _open(KF_TRAILING) and self.in_known_class(case):
            return None  # recorded known finding (its own witness is replayed separately)
        cls, merger = (Curve, CurveMerger) if case["w"] == 2 else (Surface, SurfaceMerger)
        with Workspace() as ws:
            objs = []
            base = 0.0
            for inp in case["inputs"]:
                v = np.c_[np.arange(inp["nv"], dtype=float) + base, np.zeros(inp["nv"]), np.zeros(inp["nv"])]
                base += 100.0
                objs.append(cls.create(ws, vertices=v, cells=np.array(inp["cells"], dtype="uint32")))
            before = [(o.vertices.copy(), o.cells.copy()) for o in objs]
            merged = merger.merge_objects(ws, objs, add_data=False)
            mv, mc = np.asarray(merged.vertices), np.asarray(merged.cells)
            exp_v = np.vstack([b[0] for b in before])
            if mv.shape != exp_v.shape or not np.array_equal(mv, exp_v):
                return f"merged vertices are not the inputs' vertices in order ({case})"
            r = 0
            for o, (v0, c0) in zip(objs, before):
                for c in c0:
                    if r >= len(mc):
                        return f"the merged object has {len(mc)} cells, the inputs have more ({case})"
                    if np.any(np.asarray(mc[r]) >= len(mv)) or np.any(np.asarray(mc[r]) < 0):
                        return f"merged cell {r} refers to vertex {np.asarray(mc[r]).tolist()} but the merged object only has {len(mv)} vertices ({case})"
                    got = mv[mc[r]]
                    exp = v0[c]
                    if not np.array_equal(got, exp):
                        return f"merged cell {r} joins x={got[:, 0].tolist()} but the input cell joins x={exp[:, 0].tolist()} ({case})"
                    r += 1
                if not (np.array_equal(o.vertices, v0) and np.array_equal(o.cells, c0)):
                    return "an input was modified"
            if r != len(mc):
                return "cell count differs"
        return None

    def witness(self, model, env, case):
        return None


def _open(fid):
    from pyvc.contracts import _open_findings

    return fid in _open_findings()


class KnownTrailing(CellCreate):
    """Replays the recorded witness of KF-C16-1 (must still fail while the finding is open)."""
    symbolic = False
    has_native = True
    variant = "known-finding-witness"

    def native_cases(self, tier, rng):
        return []

    def native_check(self, case):
        return CellCreate.native_check(self, case, allow_known=True)


CONTRACTS = [PointsCreate, CellCreate, KnownTrailing]


# ------------------------------------------------------------------------------------------
# BaseMerger.merge_data: running vertex/cell offsets (mixed symbolic/abstract execution)
# ------------------------------------------------------------------------------------------


def _md_inputs(ctx):
    from geoh5py.data import FloatData, TextData

    K = ctx.int("K", 2)
    nv = z3.Function(fresh_name("nv"), z3.IntSort(), z3.IntSort())
    nc = z3.Function(fresh_name("nc"), z3.IntSort(), z3.IntSort())
    voff = z3.Function(fresh_name("voff"), z3.IntSort(), z3.IntSort())
    coff = z3.Function(fresh_name("coff"), z3.IntSort(), z3.IntSort())
    k = z3.Int(fresh_name("k"))
    ctx.assume(z3.And(voff(0) == 0, coff(0) == 0))
    ctx.assume(z3.ForAll([k], z3.Implies(z3.And(k >= 0, k < K.e), z3.And(nv(k) >= 0, nc(k) >= 0, voff(k + 1) == voff(k) + nv(k), coff(k + 1) == coff(k) + nc(k), voff(k) >= 0, coff(k) >= 0)), patterns=[voff(k + 1)]))
    ctx.assume(z3.And(voff(K.e) >= 0, coff(K.e) >= 0))
    # prefix sums of non-negative counts are monotone (T-prefix-sum; by induction, audited natively)
    a, b = z3.Ints(f"{fresh_name('a')} {fresh_name('b')}")
    ctx.assume(z3.ForAll([a, b], z3.Implies(z3.And(a >= 0, a <= b, b <= K.e), z3.And(voff(a) <= voff(b), coff(a) <= coff(b))), patterns=[z3.MultiPattern(voff(a), voff(b)), z3.MultiPattern(coff(a), coff(b))]))
    S = dict(K=K, nv=nv, nc=nc, voff=voff, coff=coff)

    def child(I, kz, slot):
        kind = I.path.choose(3, f"child{slot}-kind") if slot else I.path.choose(4, f"child{slot}-kind")
        if kind == 0:
            return AbsObj("text-data", {"name": sym("cname", "str")}, cls=TextData)
        assoc = "VERTEX" if kind in (1, 3) else "CELL"
        n = nv(kz) if assoc == "VERTEX" else nc(kz)
        vals = z3.Function(fresh_name("child_values"), z3.IntSort(), z3.RealSort())
        arr = Arr((n,), lambda i, _f=vals: _f(Z(i)), "real", f"child{slot}.values")
        arr.frozen = True
        arr.assoc = assoc
        name = ctx.env["shared_name"] if kind == 3 else sym("cname", "str")
        return AbsObj("float-data", {
            "name": name, "association": AbsObj("assoc", {"name": assoc}), "n_values": mk(n, "int"), "values": arr,
            "nan_value": ctx.env["ndv"], "entity_type": AbsObj("dtype", {"name": ctx.env["type_name"]}),
        }, cls=FloatData)

    def entity(kk):
        I = ctx.I
        kz = to_z3(kk, "int")
        n_children = I.path.choose(3, "n-children")
        return AbsObj("input", {
            "children": PList([child(I, kz, s) for s in range(n_children)]),
            "n_vertices": mk(nv(kz), "int"), "n_cells": mk(nc(kz), "int"), "name": sym("ename", "str"),
        })

    return SList(K, entity, "input_entities"), S


def _md_out(ctx, S):
    def add_data(I, args, kw):
        spec = args[0]
        (name, inner), = spec.items.items()
        values = inner.items["values"]
        assoc = inner.items["association"]
        I.event("add_data", name=name, values=values, association=assoc)
        holder = AbsObj("out-data", {"values": Arr(values.shape, values.elem, values.dtype, "out.values"), "name": name})
        return holder

    return AbsObj("out_entity", {"n_vertices": mk(S["voff"](S["K"].e), "int"), "n_cells": mk(S["coff"](S["K"].e), "int")}, {"add_data": add_data})


def _md_inv(ctx, st, k):
    S = ctx.env["S"]
    dc = st["data_count"]
    out = [
        ("vertex-counter-is-vertices-of-inputs-so-far", to_z3(dc.items["VERTEX"], "int") == S["voff"](k)),
        ("cell-counter-is-cells-of-inputs-so-far", to_z3(dc.items["CELL"], "int") == S["coff"](k)),
    ]
    if not (z3.is_int_value(k) and k.as_long() == 0):
        km1 = z3.simplify(k - 1)
        ev_ok, new_ok = [], []
        for kind, p in ctx.path.events:
            if kind == "slice-store" and p.get("value") is not None and hasattr(p["value"], "assoc"):
                src = p["value"]
                off = S["voff"](km1) if src.assoc == "VERTEX" else S["coff"](km1)
                ev_ok.append(z3.And(Z(p["lo"]) == off, Z(p["hi"]) == off + Z(src.shape[0])))
            if kind == "add_data":
                v = p["values"]
                total = S["voff"](S["K"].e) if p["association"] == "VERTEX" else S["coff"](S["K"].e)
                i = z3.Int(fresh_name("i"))
                new_ok.append(z3.And(Z(v.shape[0]) == total, z3.ForAll([i], z3.Implies(z3.And(i >= 0, i < total), v.elem(i) == to_z3(ctx.env["ndv"], "real")))))
        out.append(("each-input-values-written-at-its-running-offset", z3.And(*ev_ok) if ev_ok else True))
        out.append(("new-output-arrays-start-as-no-data-with-one-entry-per-vertex-or-cell", z3.And(*new_ok) if new_ok else True))
        frozen = [p for kind, p in ctx.path.events if kind == "mutate" and p.get("frozen")]
        out.append(("inputs-left-unchanged", not frozen))
        # representation invariant of the label table: data are kept apart per name, type and association
        keyed = True
        for key, holder in st["data_dict"].items.items():
            if not (isinstance(key, tuple) and len(key) == 3 and isinstance(holder, AbsObj)):
                keyed = False
                continue
            nm = to_z3(holder.attrs["name"])
            keyed = keyed and _mentions(to_z3(key[0]), nm) and z3.eq(to_z3(key[1]), to_z3(ctx.env["type_name"])) and key[2] in ("VERTEX", "CELL")
        out.append(("merged-data-are-kept-apart-per-name-type-and-association", keyed))
    return out


def _mentions(term, sub):
    if z3.eq(term, sub):
        return True
    return any(_mentions(c, sub) for c in term.children())


def _md_havoc(ctx, st, k):
    S = ctx.env["S"]
    st["data_count"] = PDict({"VERTEX": sym("count_vertex", "int"), "CELL": sym("count_cell", "int")})
    # data merged so far: none, or one array under the shared label (bounded abstraction of the label table)
    which = ctx.path.choose(3, "labels-so-far")
    dd = PDict()
    if which:
        assoc = "VERTEX" if which == 1 else "CELL"
        total = S["voff"](S["K"].e) if assoc == "VERTEX" else S["coff"](S["K"].e)
        f = z3.Function(fresh_name("merged_so_far"), z3.IntSort(), z3.RealSort())
        holder = AbsObj("out-data", {"values": Arr((total,), lambda i, _f=f: _f(Z(i)), "real", "out.values"), "name": ctx.env["shared_name"]})
        dd.items[(ctx.env["shared_name"], ctx.env["type_name"], assoc)] = holder
    st["data_dict"] = dd
    for tmp in ("ind", "data", "association", "label", "start", "end", "values", "shape"):
        st.frame.locals.pop(tmp, None)


class MergeData(Contract):
    target = "geoh5py/shared/merging/base.py::BaseMerger.merge_data"
    props = ("C16",)
    lenient = True
    loops = {1: LoopSpec(_md_inv, _md_havoc, "for-input")}
    has_native = True
    native_shards = 4
    max_paths = 20000
    bounded_scope = "inputs holding numeric data associated with the object as a whole (1 or 3 values, on either or both inputs); one input holding the same data name and type twice (first set with 0-4 no-data entries, float and integer); 2-3 point clouds / curves with 0-2 float data each (names shared or not, entity types shared between differently named data or not, vertex or cell association, inputs without data in any position; about half of the cases on a file, re-opened and compared again); deductive part: any number of inputs, each with 0-2 children, label table abstracted to 0-1 earlier label"

    def setup(self, ctx):
        ctx.env["ndv"] = sym("nan_value", "real")
        ctx.env["shared_name"] = sym("shared_name", "str")
        ctx.env["type_name"] = sym("type_name", "str")
        inputs, S = _md_inputs(ctx)
        ctx.env["S"] = S
        return [Opaque("cls"), _md_out(ctx, S), inputs], {}

    def post(self, ctx, result):
        S = ctx.env["S"]
        ctx.oblige("returns-after-all-inputs", True)

    def native_cases(self, tier, rng):
        opts = [[], [("a", "VERTEX")], [("a", "VERTEX"), ("b", "VERTEX")], [("b", "VERTEX")], [("a", "CELL")], [("a", "VERTEX"), ("c", "CELL")],
                [("a", "VERTEX"), ("b", "VERTEX", "a")], [("b", "VERTEX", "a")]]  # third entry: the data shares the entity type of that other data
        for combo in itertools.product(range(len(opts)), repeat=2):
            yield {"inputs": [opts[i] for i in combo], "nv": [2, 3]}
        sub = [0, 1, 3, 4]
        for combo in itertools.product(sub, repeat=3):
            yield {"inputs": [opts[i] for i in combo], "nv": [2, 3, 2]}
        # data that belong to an input as a whole (OBJECT association): carried over with their values
        for pos in (0, 1, "both"):
            for n in (1, 3):
                yield {"whole": True, "pos": pos, "n": n}
        # lists in which an object occurs more than once, and inputs of the smallest sizes
        for curve in (False, True):
            for order in ([0, 1, 0], [0, 0], [1, 0, 1, 2], [2, 2, 1], [0, 1, 2], [1, 1, 1]):
                yield {"listed": True, "curve": curve, "order": order}
        # the same name (and type) twice on one input: both sets are data of that input and both are kept
        for gaps in ([], [1], [0, 3], [0, 1, 2, 3]):
            for kind in ("float", "integer"):
                for pos in (0, 1):
                    yield {"dup": True, "gaps": gaps, "kind": kind, "pos": pos}

    def native_check(self, case):
        from geoh5py.objects import Curve
        from geoh5py.shared.merging import CurveMerger
        from geoh5py.workspace import Workspace

        import os
        import shutil
        import tempfile

        if case.get("dup"):
            return self._native_dup(case)
        if case.get("listed"):
            return self._native_listed(case)
        if case.get("whole"):
            return self._native_whole(case)
        reopen = sum(len(x) for x in case["inputs"]) % 2 == 1 or len(case["inputs"]) == 3
        tmp = tempfile.mkdtemp() if reopen else None
        try:
            return self._native(case, os.path.join(tmp, "m.geoh5") if reopen else None)
        finally:
            if tmp:
                shutil.rmtree(tmp, ignore_errors=True)

    def _native_listed(self, case):
        """inputs given as a list of positions into two / three objects -- an object may be listed more than
        once (the quantifier is over lists): every listed occurrence contributes its block."""
        import warnings

        from geoh5py.objects import Curve, Points
        from geoh5py.shared.merging import CurveMerger, PointsMerger
        from geoh5py.workspace import Workspace

        with Workspace() as ws, warnings.catch_warnings():
            warnings.simplefilter("ignore")
            cls, merger = (Curve, CurveMerger) if case["curve"] else (Points, PointsMerger)
            sizes = [3, 2, 4]
            pool = []
            for k, n in enumerate(sizes):
                o = cls.create(ws, vertices=np.c_[np.arange(float(n)) + 10 * k, np.zeros(n), np.zeros(n)], name=f"in{k}")
                o.add_data({"v": {"values": np.arange(float(n)) + 100 * (k + 1)}})
                if case["curve"]:
                    o.add_data({"c": {"values": np.arange(float(n - 1)) + 1000 * (k + 1), "association": "CELL"}})
                pool.append(o)
            objs = [pool[i] for i in case["order"]]
            before = [(np.array(o.vertices), np.array(o.get_data("v")[0].values)) for o in pool]
            try:
                merged = merger.merge_objects(ws, objs)
            except Exception as exc:
                return None if isinstance(exc, (ValueError, TypeError, AttributeError)) and "unique" in str(exc).lower() else f"merging {case} raised {type(exc).__name__}: {exc}"
            want_xyz = np.vstack([pool[i].vertices for i in case["order"]])
            if merged.vertices.shape != want_xyz.shape or not np.allclose(merged.vertices, want_xyz):
                return f"merged vertices are not the listed inputs' vertices in order ({case})"
            want_v = np.concatenate([np.arange(float(sizes[i])) + 100 * (i + 1) for i in case["order"]])
            got_v = [np.asarray(ch.values, dtype=float) for ch in merged.children if getattr(ch, "name", None) == "v"]
            if len(got_v) != 1 or got_v[0].shape != want_v.shape or not np.allclose(got_v[0], want_v, equal_nan=False):
                return f"vertex data of inputs listed as {case['order']} come back as {[g.tolist() for g in got_v]}, expected {want_v.tolist()} ({case})"
            if case["curve"]:
                want_c = np.concatenate([np.arange(float(sizes[i] - 1)) + 1000 * (i + 1) for i in case["order"]])
                got_c = [np.asarray(ch.values, dtype=float) for ch in merged.children if getattr(ch, "name", None) == "c"]
                if len(got_c) != 1 or got_c[0].shape != want_c.shape or not np.allclose(got_c[0], want_c, equal_nan=False):
                    return f"cell data of inputs listed as {case['order']} come back as {[g.tolist() for g in got_c]}, expected {want_c.tolist()} ({case})"
            for o, (xyz, vals) in zip(pool, before):
                if not np.array_equal(o.vertices, xyz) or not np.array_equal(o.get_data("v")[0].values, vals):
                    return f"an input changed ({case})"
        return None

    def _native_whole(self, case):
        import warnings

        from geoh5py.objects import Points
        from geoh5py.shared.merging import PointsMerger
        from geoh5py.workspace import Workspace

        with Workspace() as ws, warnings.catch_warnings():
            warnings.simplefilter("ignore")
            objs = [Points.create(ws, vertices=np.c_[np.arange(3.0) + 10 * k, np.zeros(3), np.zeros(3)], name=f"in{k}") for k in range(2)]
            want = []
            for k, o in enumerate(objs):
                o.add_data({"v": {"values": np.arange(3.0) + 10 * k}})
                if case["pos"] in (k, "both"):
                    vals = np.arange(float(case["n"])) + 100 * (k + 1)
                    o.add_data({f"whole{k}": {"values": vals, "association": "OBJECT"}})
                    want.append((f"whole{k}", vals))
            try:
                merged = PointsMerger.merge_objects(ws, objs)
            except Exception as exc:
                return f"merging inputs of which one holds numeric data associated with the object as a whole raised {type(exc).__name__}: {exc} ({case})"
            v = [np.asarray(c.values, dtype=float) for c in merged.children if getattr(c, "name", None) == "v"]
            if len(v) != 1 or not np.allclose(v[0], np.r_[np.arange(3.0), np.arange(3.0) + 10]):
                return f"vertex data are not merged next to object-associated data: {[x.tolist() for x in v]} ({case})"
            for name, vals in want:
                got = [c for c in merged.children if getattr(c, "name", None) == name and getattr(c, "values", None) is not None]
                if len(got) != 1 or got[0].association.name != "OBJECT" or not np.allclose(np.asarray(got[0].values, dtype=float), vals):
                    return f"data '{name}' of an input (values {vals.tolist()}, belonging to the object as a whole) is not preserved on the merged object ({case})"
        return None

    def _native_dup(self, case):
        import warnings

        from geoh5py.objects import Points
        from geoh5py.shared.merging import PointsMerger
        from geoh5py.workspace import Workspace

        with Workspace() as ws, warnings.catch_warnings():
            warnings.simplefilter("ignore")
            objs = [Points.create(ws, vertices=np.c_[np.arange(4.0) + 10 * k, np.zeros(4), np.zeros(4)], name=f"in{k}") for k in range(2)]
            twice = objs[case["pos"]]
            if case["kind"] == "float":
                first = np.array([1.0, 2.0, 3.0, 4.0])
                first[case["gaps"]] = np.nan
                second = np.array([11.0, 12.0, 13.0, 14.0])
            else:
                first = np.array([1, 2, 3, 4], dtype="int32")
                first[case["gaps"]] = -2147483648  # the integer no-data code
                second = np.array([11, 12, 13, 14], dtype="int32")
            d1 = twice.add_data({"assay": {"values": first}})
            twice.add_data({"assay": {"values": second, "entity_type": d1.entity_type}})
            other = objs[1 - case["pos"]]
            other.add_data({"assay": {"values": (np.arange(4) + 21).astype(first.dtype), "entity_type": d1.entity_type}})
            merged = PointsMerger.merge_objects(ws, objs)
            lo = 4 * case["pos"]
            blocks = [np.asarray(ch.values, dtype=float)[lo:lo + 4] for ch in merged.children if hasattr(ch, "association") and getattr(ch, "values", None) is not None and len(ch.values) == 8]
            ndv = {np.nan} if case["kind"] == "float" else {-2147483648.0}

            def kept(vals):
                want = np.asarray(vals, dtype=float)
                gap = np.isnan(want) | (want == -2147483648.0)
                if gap.all():
                    return True  # a data set without a single value has nothing to preserve
                for b in blocks:
                    bgap = np.isnan(b) | (b == -2147483648.0)
                    if np.array_equal(gap, bgap) and np.allclose(b[~gap], want[~gap]):
                        return True
                return False

            for label, vals in (("first", first), ("second", second)):
                if not kept(vals):
                    return f"input 'in{case['pos']}' holds two data named 'assay'; the {label} one {np.asarray(vals, dtype=float).tolist()} is not among the merged data of its block {[b.tolist() for b in blocks]} ({case})"
        return None

    def _native(self, case, path):
        from geoh5py.objects import Curve
        from geoh5py.shared.merging import CurveMerger
        from geoh5py.workspace import Workspace

        with (Workspace.create(path) if path else Workspace()) as ws:
            objs, expected, types = [], {}, {}
            voff = coff = 0
            total_v, total_c = sum(case["nv"]), sum(n - 1 for n in case["nv"])
            for k, (spec, nv) in enumerate(zip(case["inputs"], case["nv"])):
                v = np.c_[np.arange(nv, dtype=float) + 10 * k, np.zeros(nv), np.zeros(nv)]
                obj = Curve.create(ws, vertices=v, name=f"in{k}")
                for name, assoc, *share in spec:
                    n = nv if assoc == "VERTEX" else nv - 1
                    vals = np.arange(n, dtype=float) + 100 * k + (50 if name == "b" else 0) + 1
                    extra = {"entity_type": types[share[0]]} if share and share[0] in types else ({"entity_type": types[name]} if name in types else {})
                    etype = obj.add_data({name: {"values": vals, "association": assoc, **extra}}).entity_type
                    types.setdefault(name, etype)
                    tot, off = (total_v, voff) if assoc == "VERTEX" else (total_c, coff)
                    arr = expected.setdefault((name, etype.name, assoc), np.full(tot, np.nan))
                    arr[off:off + n] = vals
                objs.append(obj)
                voff += nv
                coff += nv - 1
            snap = [[(c.name, None if getattr(c, "values", None) is None else np.array(c.values, dtype=float)) for c in o.children if hasattr(c, "values")] for o in objs]
            merged = CurveMerger.merge_objects(ws, objs)
            got = {}
            for ch in merged.children:
                if hasattr(ch, "association") and getattr(ch, "values", None) is not None:
                    if (ch.name, ch.entity_type.name, ch.association.name) in got:
                        return f"two merged data share name, type and association {(ch.name, ch.entity_type.name, ch.association.name)} ({case})"
                    got[(ch.name, ch.entity_type.name, ch.association.name)] = np.asarray(ch.values, dtype=float)
            for key, exp in expected.items():
                if key not in got:
                    return f"merged object lacks data {key} ({case})"
                if got[key].shape != exp.shape or not np.array_equal(np.isnan(got[key]), np.isnan(exp)) or not np.allclose(np.nan_to_num(got[key]), np.nan_to_num(exp)):
                    return f"data {key}: merged {got[key].tolist()} expected {exp.tolist()} ({case})"
            if set(got) - set(expected):
                return f"unexpected merged data {set(got) - set(expected)}"
            after = [[(c.name, None if getattr(c, "values", None) is None else np.array(c.values, dtype=float)) for c in o.children if hasattr(c, "values")] for o in objs]
            for a, b in zip(snap, after):
                if len(a) != len(b) or any(x[0] != y[0] or not np.array_equal(x[1], y[1], equal_nan=True) for x, y in zip(a, b)):
                    return "an input's data were modified"
            merged_uid = merged.uid
        if path:
            # what was merged must also be what the file holds
            with Workspace(path, mode="r") as back:
                again = {}
                for ch in back.get_entity(merged_uid)[0].children:
                    if hasattr(ch, "association") and getattr(ch, "values", None) is not None:
                        again[(ch.name, ch.entity_type.name, ch.association.name)] = np.asarray(ch.values, dtype=float)
            for key, exp in expected.items():
                if key not in again or again[key].shape != exp.shape or not np.array_equal(np.isnan(again[key]), np.isnan(exp)) or not np.allclose(np.nan_to_num(again[key]), np.nan_to_num(exp)):
                    return f"data {key}: the re-opened file holds {None if key not in again else again[key].tolist()} but {exp.tolist()} was merged ({case})"
        return None


class DrapeMerge(Contract):
    """Bounded stand-in for DrapeModelMerger (in-place numpy table arithmetic with ghost rows; the
    prism/layer cross-indexing is outside the engine): every input cell keeps its coordinates
    (x, y of its prism, top and bottom elevation) and its values at the running offset (two ghost
    cells between consecutive inputs), the merged prism/layer tables index each other
    consistently, and the inputs are left unchanged."""
    target = "geoh5py/shared/merging/drape_model.py::DrapeModelMerger.create_object"
    variant = "native-oracle"
    symbolic = False
    has_native = True
    props = ("C16",)
    bounded_scope = "2-4 drape models with 2-3 prisms of 1-3 layers each (quick: 2 and 3 inputs over 6 layer-count patterns = 252 cases; thorough adds 4 inputs); each input carries a float channel and two data of one name with different types; one input also holding object-associated numeric data (1 or 3 values)"

    PATTERNS = [[1, 1], [1, 2], [2, 1], [3, 1], [2, 2, 1], [1, 3, 2]]

    def native_cases(self, tier, rng):
        for k in (2, 3) if tier == "quick" else (2, 3, 4):
            for combo in itertools.product(range(len(self.PATTERNS)), repeat=k):
                if k == 4 and sum(combo) % 5:
                    continue
                yield {"counts": [self.PATTERNS[i] for i in combo]}
        # an input that also holds numeric data belonging to the object as a whole (one value / three values)
        for pos in (0, 1):
            for n in (1, 3):
                yield {"counts": [[1, 2], [2, 1]], "whole": pos, "n": n}

    @staticmethod
    def _make(ws, name, x0, counts, v0):
        from geoh5py.objects import DrapeModel

        counts = np.asarray(counts)
        n = len(counts)
        starts = np.r_[0, np.cumsum(counts)[:-1]]
        top = 10 + 0.5 * np.arange(n)
        prisms = np.c_[x0 + np.arange(n, dtype=float), 5.0 + 0.1 * np.arange(n), top, starts, counts].astype(float)
        layers = np.array([[p, k, top[p] - (k + 1) * (1 + 0.25 * p)] for p in range(n) for k in range(counts[p])], dtype=float)
        d = DrapeModel.create(ws, name=name, layers=layers, prisms=prisms)
        d.add_data({"v": {"values": v0 + np.arange(len(layers), dtype=float)}})
        # one name carried by two data of different types (a float and an integer channel both called "rock")
        d.add_data({"rock": {"values": v0 + 0.5 + np.arange(len(layers), dtype=float), "entity_type": {"name": "rock", "primitive_type": "FLOAT"}}})
        d.add_data({"rock": {"values": (np.arange(len(layers)) + int(v0) + 7).astype("int32"), "entity_type": {"name": "rock_code", "primitive_type": "INTEGER"}}})
        return d

    @staticmethod
    def _geom(prisms, layers):
        """per cell (x, y, top, bottom) as the format defines it; a string when the tables disagree"""
        prisms, layers = np.asarray(prisms, float), np.asarray(layers, float)
        out = []
        for r, (pi, _, bot) in enumerate(layers.tolist()):
            if not 0 <= int(pi) < len(prisms):
                return f"layer row {r} names prism {int(pi)} of {len(prisms)}"
            pr = prisms[int(pi)]
            first = int(pr[3])
            if not first <= r < first + int(pr[4]):
                return f"layer row {r} names prism {int(pi)} whose layers are rows {first}..{first + int(pr[4]) - 1}"
            out.append((pr[0], pr[1], pr[2] if r == first else layers[r - 1, 2], bot))
        return np.array(out)

    def native_check(self, case):
        from geoh5py.shared.merging import DrapeModelMerger
        from geoh5py.workspace import Workspace

        with Workspace() as ws:
            ins = [self._make(ws, f"d{i}", 10.0 * i, c, 100.0 * i) for i, c in enumerate(case["counts"])]
            whole = None
            if "whole" in case:
                whole = np.arange(float(case["n"])) + 900
                ins[case["whole"]].add_data({"whole": {"values": whole, "association": "OBJECT"}})
            snap = [(np.array(o.prisms, float).copy(), np.array(o.layers, float).copy(), np.array(o.get_data("v")[0].values, float).copy()) for o in ins]
            gs = [self._geom(p, l) for p, l, _ in snap]
            try:
                m = DrapeModelMerger.merge_objects(ws, ins)
            except Exception as exc:
                return f"merging drape models raised {type(exc).__name__}: {exc} ({case})"
            if whole is not None:
                got = [c for c in m.children if getattr(c, "name", None) == "whole" and getattr(c, "values", None) is not None]
                if len(got) != 1 or not np.allclose(np.asarray(got[0].values, float), whole):
                    return f"data of an input belonging to the object as a whole (values {whole.tolist()}) are not preserved on the merged drape model ({case})"
            mg = self._geom(m.prisms, m.layers)
            if isinstance(mg, str):
                return f"merged prism/layer tables disagree: {mg} ({case})"
            mv = np.asarray(m.get_data("v")[0].values, float)
            if len(mv) != len(mg):
                return f"{len(mv)} values for {len(mg)} merged cells ({case})"
            off = 0
            for k, (g, (p, l, v)) in enumerate(zip(gs, snap)):
                n = len(g)
                if off + n > len(mg):
                    return f"merged model has {len(mg)} cells, input {k} needs rows {off}..{off + n - 1} ({case})"
                if not np.allclose(mg[off:off + n], g):
                    return f"cells of input {k} do not keep their coordinates ({case})"
                if not np.allclose(mv[off:off + n], v):
                    return f"values of input {k}: {mv[off:off + n].tolist()} expected {v.tolist()} ({case})"
                if k < len(gs) - 1 and not np.all(np.isnan(mv[off + n:off + n + 2])):
                    return f"ghost cells after input {k} carry values {mv[off + n:off + n + 2].tolist()} ({case})"
                off += n + 2
            if off - 2 != len(mg):
                return f"merged model has {len(mg)} cells, expected {off - 2} (inputs + 2 ghosts between consecutive inputs) ({case})"
            # the two data called "rock" stay two data, each with its inputs' values at the running offsets
            rocks = {("f" if np.asarray(c.values).dtype.kind == "f" else "i"): np.asarray(c.values, float) for c in m.children if getattr(c, "name", None) == "rock"}
            if sorted(rocks) != ["f", "i"]:
                return f"two data named 'rock' (a float and an integer type) were merged into {sorted(rocks)} ({case})"
            off = 0
            for k, o in enumerate(ins):
                n = len(gs[k])
                for c in o.children:
                    if getattr(c, "name", None) != "rock":
                        continue
                    kind = "f" if np.asarray(c.values).dtype.kind == "f" else "i"
                    want = np.asarray(c.values, float)
                    got = rocks[kind][off:off + n]
                    if len(got) != n or not np.allclose(got, want):
                        return f"values of input {k} of the {'float' if kind == 'f' else 'integer'} data 'rock': {got.tolist()} expected {want.tolist()} ({case})"
                off += n + 2
            for k, (o, (p, l, v)) in enumerate(zip(ins, snap)):
                if not np.array_equal(np.array(o.prisms, float), p) or not np.array_equal(np.array(o.layers, float), l) or not np.array_equal(np.array(o.get_data("v")[0].values, float), v):
                    return f"input {k} was modified by the merge ({case})"
        return None


CONTRACTS = [PointsCreate, CellCreate, KnownTrailing, MergeData, DrapeMerge]
