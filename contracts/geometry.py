"""C17: derived geometry follows the format's indexing conventions."""
from __future__ import annotations

import itertools

import numpy as np
import z3

from pyvc.contracts import Contract
from pyvc.core import fresh_name
from pyvc.models_np import Z, prefix_sum_fn, sym_arr, to_real, ufun
from pyvc.values import Arr, Obj, Opaque, PDict, mk, sym, to_z3, zbool


def rot_terms(rotation):
    ang = ufun("deg2rad")(to_z3(rotation, "real"))
    c, s = ufun("cos")(ang), ufun("sin")(ang)
    zero, one = z3.RealVal(0), z3.RealVal(1)
    return [[c, -s, zero], [s, c, zero], [zero, zero, one]]


def apply3(M, v):
    return [sum((M[a][b] * v[b] for b in range(3)), z3.RealVal(0)) for a in range(3)]


def sym_origin():
    o = {ax: sym("origin_" + ax, "real") for ax in "xyz"}
    return PDict(o), [o["x"].e, o["y"].e, o["z"].e]


class OctreeCentroids(Contract):
    target = "geoh5py/objects/octree.py::Octree.centroids.fget"
    props = ("C17",)
    has_native = True
    bounded_scope = "octree records over I,J,K in {0,1,2}, sizes in {1,2,4}, cell sizes in {0.5,1,2.5}, rotations {0,30,90,-45}, origins incl. default; <= 3 records (sampled 300/3000)"
    attr_overrides = {
        "octree_cells": lambda I, obj: obj.fields["_octree_cells"],
        "u_cell_size": lambda I, obj: obj.fields["_u_cell_size"],
        "v_cell_size": lambda I, obj: obj.fields["_v_cell_size"],
        "w_cell_size": lambda I, obj: obj.fields["_w_cell_size"],
        "rotation": lambda I, obj: obj.fields["_rotation"],
        "origin": lambda I, obj: obj.fields["_origin"],
    }
    trusted = ("getters of octree_cells / cell sizes / rotation / origin return the stored values (C03 sweep)",)

    def setup(self, ctx):
        from geoh5py.objects import Octree

        n = ctx.int("n_cells", 0)
        cols = {name: sym_arr("oct_" + name, (n.e,), "int") for name in ("I", "J", "K", "NCells")}
        cells = Arr((n.e,), lambda i: z3.IntVal(0), "rec", "octree_cells", fields=cols)
        origin, o = sym_origin()
        sizes = [sym("su", "real"), sym("sv", "real"), sym("sw", "real")]
        rot = sym("rotation", "real")
        obj = Obj(Octree, {"_centroids": None, "_octree_cells": cells, "_u_cell_size": sizes[0], "_v_cell_size": sizes[1], "_w_cell_size": sizes[2], "_rotation": rot, "_origin": origin})
        ctx.env.update(n=n, cols=cols, o=o, sizes=sizes, rot=rot, obj=obj)
        return [obj], {}

    def post(self, ctx, result):
        e = ctx.env
        ok = isinstance(result, Arr) and result.ndim == 2
        ctx.oblige("returns-an-n-by-3-array", ok and result.shape[1] == 3)
        if not ok:
            return
        ctx.oblige("one-centre-per-cell", Z(result.shape[0]) == e["n"].e)
        c = z3.Int(fresh_name("c"))
        half = lambda name: to_real(e["cols"][name].elem(c)) + to_real(e["cols"]["NCells"].elem(c)) / 2
        local = [half("I") * e["sizes"][0].e, half("J") * e["sizes"][1].e, half("K") * e["sizes"][2].e]
        world = apply3(rot_terms(e["rot"]), local)
        for a, ax in enumerate("xyz"):
            ctx.oblige(f"centre-{ax}-is-origin-plus-rotated-(index+size/2)*cell-size", z3.Implies(z3.And(c >= 0, c < e["n"].e), result.elem(c, a) == e["o"][a] + world[a]))
        ctx.oblige("result-is-cached", e["obj"].fields.get("_centroids") is result)

    def native_cases(self, tier, rng):
        for _ in range(300 if tier == "quick" else 3000):
            n = rng.randint(1, 3)
            yield {
                "cells": [[rng.randint(0, 2), rng.randint(0, 2), rng.randint(0, 2), rng.choice([1, 1, 2, 4])] for _ in range(n)],
                "sizes": [rng.choice([0.5, 1.0, 2.5]) for _ in range(3)], "rotation": rng.choice([0.0, 30.0, 90.0, -45.0]),
                "origin": rng.choice([None, [0.0, 0.0, 0.0], [10.0, -5.0, 2.0]]),
            }

    def native_check(self, case):
        from geoh5py.objects import Octree
        from geoh5py.workspace import Workspace

        with Workspace() as ws:
            kw = dict(u_count=4, v_count=4, w_count=4, u_cell_size=case["sizes"][0], v_cell_size=case["sizes"][1], w_cell_size=case["sizes"][2], rotation=case["rotation"])
            if case["origin"] is not None:
                kw["origin"] = case["origin"]
            try:
                oct_ = Octree.create(ws, **kw)
                oct_.octree_cells = np.array(case["cells"], dtype=int)
                got = np.asarray(oct_.centroids, dtype=float)
                n_cells = oct_.n_cells
            except Exception as exc:  # centres must be defined whether or not an origin was given
                return f"{type(exc).__name__}: {exc} for {case}"
        o = np.array(case["origin"] or [0.0, 0.0, 0.0])
        a = np.deg2rad(case["rotation"])
        R = np.array([[np.cos(a), -np.sin(a), 0], [np.sin(a), np.cos(a), 0], [0, 0, 1]])
        cells = np.array(case["cells"], dtype=float)
        local = (cells[:, :3] + cells[:, 3:4] / 2.0) * np.array(case["sizes"])
        exp = (R @ local.T).T + o
        if got.shape != exp.shape or n_cells != len(exp) or not np.allclose(got, exp, atol=1e-9):
            return f"centres {got.tolist()} expected {exp.tolist()} for {case}"
        return None


CONTRACTS = [OctreeCentroids]


class BlockModelCentroids(Contract):
    target = "geoh5py/objects/block_model.py::BlockModel.centroids.fget"
    props = ("C17",)
    has_native = True
    bounded_scope = "delimiters over {-2,-1,0,0.5,1,3} with 1-3 cells per axis (negative and unsorted delimiters included), rotations {0,30,90}, origins incl. default (sampled 200/2000)"
    attr_overrides = {
        "u_cell_delimiters": lambda I, obj: obj.fields["_u_cell_delimiters"],
        "v_cell_delimiters": lambda I, obj: obj.fields["_v_cell_delimiters"],
        "z_cell_delimiters": lambda I, obj: obj.fields["_z_cell_delimiters"],
        "rotation": lambda I, obj: obj.fields["_rotation"],
        "origin": lambda I, obj: obj.fields["_origin"],
    }
    trusted = ("delimiter / rotation / origin getters return the stored values (C03 sweep)",)

    def setup(self, ctx):
        from geoh5py.objects import BlockModel

        dims = {ax: ctx.int("n" + ax, 1) for ax in "uvz"}
        D = {ax: sym_arr(ax + "_delims", (dims[ax].e + 1,), "real") for ax in "uvz"}
        origin, o = sym_origin()
        rot = sym("rotation", "real")
        obj = Obj(BlockModel, {"_centroids": None, "_u_cell_delimiters": D["u"], "_v_cell_delimiters": D["v"], "_z_cell_delimiters": D["z"], "_rotation": rot, "_origin": origin})
        ctx.env.update(dims=dims, D=D, o=o, rot=rot, obj=obj)
        return [obj], {}

    def post(self, ctx, result):
        from pyvc.models_np import unravel_fns

        e = ctx.env
        nU, nV, nZ = e["dims"]["u"].e, e["dims"]["v"].e, e["dims"]["z"].e
        ok = isinstance(result, Arr) and result.ndim == 2 and result.shape[1] == 3
        ctx.oblige("returns-an-n-by-3-array", ok)
        if not ok:
            return
        ctx.oblige("number-of-centres-is-nU*nV*nZ", Z(result.shape[0]) == nU * nV * nZ)
        F, A, B, C = unravel_fns(ctx.I, (nV, nU, nZ))
        i, j, k = z3.Ints(f"{fresh_name('i')} {fresh_name('j')} {fresh_name('k')}")
        rng = z3.And(i >= 0, i < nU, j >= 0, j < nV, k >= 0, k < nZ)
        ctx.oblige("cell-(i,j,k)-sits-at-index-k+i*nZ+j*nU*nZ", z3.Implies(rng, F(j, i, k) == k + i * nZ + j * nU * nZ))

        m = z3.Int(fresh_name("m"))

        def mid(ax, idx):
            d = e["D"][ax]
            n = e["dims"][ax].e
            # the cell sizes as the object reports them; obliged to be consecutive delimiter differences
            size = ctx.I.getattr(e["obj"], ax + "_cells")
            ctx.oblige(f"{ax}-cell-sizes-are-consecutive-delimiter-differences", z3.And(Z(size.shape[0]) == n, z3.Implies(z3.And(m >= 0, m < n), size.elem(m) == d.elem(m + 1) - d.elem(m))))
            S = prefix_sum_fn(ctx.I, size)
            return S(idx + 1) - size.elem(idx) / 2

        local = [mid("u", i), mid("v", j), mid("z", k)]
        world = apply3(rot_terms(e["rot"]), local)
        t = F(j, i, k)
        for a, ax in enumerate("xyz"):
            ctx.oblige(f"centre-{ax}-is-origin-plus-rotated-cell-midpoints", z3.Implies(rng, result.elem(t, a) == e["o"][a] + world[a]), drop=("index-polynomial",))

    def native_cases(self, tier, rng):
        vals = [-2.0, -1.0, 0.0, 0.5, 1.0, 3.0]
        for _ in range(200 if tier == "quick" else 2000):
            def delims():
                n = rng.randint(1, 3)
                d = [0.0]
                for _ in range(n):
                    d.append(d[-1] + rng.choice([-2.0, -1.0, 0.5, 1.0, 3.0]))
                return d
            yield {"u": delims(), "v": delims(), "z": delims(), "rotation": rng.choice([0.0, 30.0, 90.0]), "origin": rng.choice([None, [5.0, -3.0, 1.0]])}

    def native_check(self, case):
        from geoh5py.objects import BlockModel
        from geoh5py.workspace import Workspace

        with Workspace() as ws:
            kw = dict(u_cell_delimiters=np.array(case["u"]), v_cell_delimiters=np.array(case["v"]), z_cell_delimiters=np.array(case["z"]), rotation=case["rotation"])
            if case["origin"] is not None:
                kw["origin"] = case["origin"]
            try:
                bm = BlockModel.create(ws, **kw)
                got = np.asarray(bm.centroids, dtype=float)
                n_cells = bm.n_cells
            except Exception as exc:
                return f"{type(exc).__name__}: {exc} for {case}"
        o = np.array(case["origin"] or [0.0, 0.0, 0.0])
        a = np.deg2rad(case["rotation"])
        R = np.array([[np.cos(a), -np.sin(a), 0], [np.sin(a), np.cos(a), 0], [0, 0, 1]])
        mids = {ax: [(case[ax][m] + case[ax][m + 1]) / 2.0 for m in range(len(case[ax]) - 1)] for ax in "uvz"}
        nU, nV, nZ = len(mids["u"]), len(mids["v"]), len(mids["z"])
        exp = np.zeros((nU * nV * nZ, 3))
        for i in range(nU):
            for j in range(nV):
                for k in range(nZ):
                    exp[k + i * nZ + j * nU * nZ] = R @ np.array([mids["u"][i], mids["v"][j], mids["z"][k]]) + o
        if got.shape != exp.shape or n_cells != len(exp) or not np.allclose(got, exp, atol=1e-9):
            return f"centres differ from the format's index formula for {case}"
        return None


class Grid2DCentroids(Contract):
    target = "geoh5py/objects/grid2d.py::Grid2D.centroids.fget"
    props = ("C17",)
    has_native = True
    bounded_scope = "counts 1-4 x 1-4, cell sizes {0.5,1,-2}, rotations {0,30,90}, dips {0,45,90}, origins incl. default (sampled 200/2000); plus counts 1-12 with inexact cell sizes {0.1,0.3,0.7,0.001} on either axis (exhaustive); setter histories of 2-6 assignments over {vertical on/off, dip, rotation, cell sizes, origin, counts} with the centres read in between (7 fixed + 40 seeded / 400); plus 12 cases computed after another grid of the same orientation was exported to an image, copied, clipped or had its centres array edited in place"
    attr_overrides = {
        "u_count": lambda I, obj: obj.fields["_u_count"], "v_count": lambda I, obj: obj.fields["_v_count"],
        "u_cell_size": lambda I, obj: obj.fields["_u_cell_size"], "v_cell_size": lambda I, obj: obj.fields["_v_cell_size"],
        "rotation": lambda I, obj: obj.fields["_rotation"], "dip": lambda I, obj: obj.fields["_dip"], "origin": lambda I, obj: obj.fields["_origin"],
    }
    trusted = ("count / size / rotation / dip / origin getters return the stored values (C03 sweep)",)

    def setup(self, ctx):
        from geoh5py.objects import Grid2D

        nU, nV = ctx.int("nU", 1), ctx.int("nV", 1)
        du, dv = sym("du", "real"), sym("dv", "real")
        origin, o = sym_origin()
        rot, dip = sym("rotation", "real"), sym("dip", "real")
        obj = Obj(Grid2D, {"_centroids": None, "_u_count": nU, "_v_count": nV, "_u_cell_size": du, "_v_cell_size": dv, "_rotation": rot, "_dip": dip, "_origin": origin})
        ctx.env.update(nU=nU, nV=nV, du=du, dv=dv, o=o, rot=rot, dip=dip)
        return [obj], {}

    def post(self, ctx, result):
        from pyvc.models_np import unravel2_fns

        e = ctx.env
        nU, nV = e["nU"].e, e["nV"].e
        ok = isinstance(result, Arr) and result.ndim == 2 and result.shape[1] == 3
        ctx.oblige("returns-an-n-by-3-array", ok)
        if not ok:
            return
        ctx.oblige("number-of-centres-is-nU*nV", Z(result.shape[0]) == nU * nV)
        F, A, B = unravel2_fns(ctx.I, (nV, nU))
        i, j = z3.Ints(f"{fresh_name('i')} {fresh_name('j')}")
        rng = z3.And(i >= 0, i < nU, j >= 0, j < nV)
        ctx.oblige("cell-(i,j)-sits-at-index-i+j*nU", z3.Implies(rng, F(j, i) == i + j * nU))
        half = z3.RealVal(1) / 2
        local = [(z3.ToReal(i) + half) * e["du"].e, (z3.ToReal(j) + half) * e["dv"].e, z3.RealVal(0)]
        dang = ufun("deg2rad")(e["dip"].e)
        c, s = ufun("cos")(dang), ufun("sin")(dang)
        Dm = [[z3.RealVal(1), z3.RealVal(0), z3.RealVal(0)], [z3.RealVal(0), c, -s], [z3.RealVal(0), s, c]]
        world = apply3(rot_terms(e["rot"]), apply3(Dm, local))
        t = F(j, i)
        for a, ax in enumerate("xyz"):
            ctx.oblige(f"centre-{ax}-is-origin-plus-rotated-dipped-(i+1/2)du,(j+1/2)dv", z3.Implies(rng, result.elem(t, a) == e["o"][a] + world[a]), drop=("index-polynomial",))

    def native_cases(self, tier, rng):
        # cell sizes that are not exactly representable, with every count up to 12 (accumulated float steps)
        for n in range(1, 13):
            for size in (0.1, 0.3, 0.7, 1e-3):
                yield {"nU": n, "nV": 1, "du": size, "dv": 1.0, "rotation": 0.0, "dip": 0.0, "origin": None}
                yield {"nU": 2, "nV": n, "du": 1.0, "dv": size, "rotation": 30.0, "dip": 45.0, "origin": [5.0, -3.0, 1.0]}
        for _ in range(200 if tier == "quick" else 2000):
            yield {"nU": rng.randint(1, 4), "nV": rng.randint(1, 4), "du": rng.choice([0.5, 1.0, -2.0]), "dv": rng.choice([0.5, 1.0, -2.0]),
                   "rotation": rng.choice([0.0, 30.0, 90.0]), "dip": rng.choice([0.0, 45.0, 90.0]), "origin": rng.choice([None, [5.0, -3.0, 1.0]])}
        # setter histories: after any sequence of assignments (the centres read in between, so that they are cached) the
        # centres are those of the geometry the grid reports now
        steps = [("vertical", True), ("vertical", False), ("dip", 30.0), ("dip", 60.0), ("rotation", 45.0), ("rotation", 0.0), ("u_cell_size", 2.0), ("v_cell_size", 0.5),
                 ("origin", [1.0, 2.0, 3.0]), ("u_count", 4), ("v_count", 3)]
        fixed = [[0, 1], [2, 0, 1], [0, 3, 1], [4, 0, 1, 5], [0, 0, 1, 1], [6, 0, 7, 1, 8], [9, 0, 10, 1]]
        for h in fixed:
            yield {"history": [steps[i] for i in h], "nU": 3, "nV": 2, "du": 1.0, "dv": 1.0, "rotation": 20.0, "dip": 30.0, "origin": [5.0, -3.0, 1.0]}
        for _ in range(40 if tier == "quick" else 400):
            yield {"history": [steps[rng.randrange(len(steps))] for _ in range(rng.randint(2, 6))], "nU": 3, "nV": 2, "du": 1.0, "dv": 1.0, "rotation": 20.0, "dip": 30.0, "origin": [5.0, -3.0, 1.0]}
        # the centres do not depend on what else was done with grids of the same orientation earlier in the process
        for prelude in ("to_geoimage", "copy", "clip", "centroids-edited-in-place"):
            for rot, dip in ((30.0, 45.0), (90.0, 90.0), (30.0, 0.0)):
                yield {"nU": 3, "nV": 2, "du": 1.0, "dv": 0.5, "rotation": rot, "dip": dip, "origin": [5.0, -3.0, 1.0], "prelude": prelude}

    def native_check(self, case):
        from geoh5py.objects import Grid2D
        from geoh5py.workspace import Workspace

        if case.get("prelude"):
            with Workspace() as ws0:
                g0 = Grid2D.create(ws0, u_count=5, v_count=6, u_cell_size=2.0, v_cell_size=1.0, rotation=case["rotation"], dip=case["dip"], origin=[1.0, 2.0, 3.0])
                g0.add_data({"band": {"values": np.arange(30.0)}})
                try:
                    if case["prelude"] == "to_geoimage":
                        g0.to_geoimage(["band"])
                    elif case["prelude"] == "copy":
                        g0.copy()
                    elif case["prelude"] == "clip":
                        g0.copy_from_extent(np.array([[0.0, 0.0], [6.0, 6.0]]))
                    else:
                        c0 = g0.centroids
                        c0 += 1000.0  # a caller scribbling on the array it was handed
                except Exception:
                    pass  # the prelude's own success is not this contract's subject
        with Workspace() as ws:
            kw = dict(u_count=case["nU"], v_count=case["nV"], u_cell_size=case["du"], v_cell_size=case["dv"], rotation=case["rotation"], dip=case["dip"])
            if case["origin"] is not None:
                kw["origin"] = case["origin"]
            try:
                g = Grid2D.create(ws, **kw)
                for attr, val in case.get("history", []):
                    _ = g.centroids  # cached
                    setattr(g, attr, val)
                got = np.asarray(g.centroids, dtype=float)
                n_cells = g.n_cells
                if case.get("history"):
                    # what the grid reports now
                    case = dict(case, nU=int(g.u_count), nV=int(g.v_count), du=float(g.u_cell_size), dv=float(g.v_cell_size), rotation=float(g.rotation), dip=float(g.dip),
                                origin=[float(g.origin["x"]), float(g.origin["y"]), float(g.origin["z"])])
            except Exception as exc:
                return f"{type(exc).__name__}: {exc} for {case}"
        o = np.array(case["origin"] or [0.0, 0.0, 0.0])
        a, d = np.deg2rad(case["rotation"]), np.deg2rad(case["dip"])
        R = np.array([[np.cos(a), -np.sin(a), 0], [np.sin(a), np.cos(a), 0], [0, 0, 1]])
        Dm = np.array([[1, 0, 0], [0, np.cos(d), -np.sin(d)], [0, np.sin(d), np.cos(d)]])
        nU, nV = case["nU"], case["nV"]
        exp = np.zeros((nU * nV, 3))
        for i in range(nU):
            for j in range(nV):
                exp[i + j * nU] = R @ (Dm @ np.array([(i + 0.5) * case["du"], (j + 0.5) * case["dv"], 0.0])) + o
        if got.shape != exp.shape or n_cells != len(exp) or not np.allclose(got, exp, atol=1e-9):
            return f"centres differ from the format's index formula for {case}"
        return None


CONTRACTS = [OctreeCentroids, BlockModelCentroids, Grid2DCentroids]



class CallerArraysNative(Contract):
    """The centres (and a curve's segments / part labels) always belong to the geometry the object
    *reports*: when the caller goes on using -- and edits in place -- the very arrays it handed to
    create() or to a setter, either the object does not see the edit (it keeps its own copy) or its
    derived arrays follow; it never reports new delimiters / records with the centres of the old ones."""
    target = "geoh5py/objects/block_model.py::BlockModel.centroids.fget"
    variant = "caller-keeps-its-arrays"
    symbolic = False
    has_native = True
    props = ("C17",)
    bounded_scope = "block model (3 delimiter arrays), octree (record array), drape model (layers, prisms), curve (cells, parts); arrays passed to create() or assigned later, of the stored dtype and of another dtype; centres read, caller's array edited in place, centres compared with those of a fresh object built from what the object now reports (exhaustive over the listed combinations)"

    def native_cases(self, tier, rng):
        for kind, attrs in (("blockmodel", ("u_cell_delimiters", "v_cell_delimiters", "z_cell_delimiters")), ("octree", ("octree_cells",)), ("drape", ("layers", "prisms")), ("curve", ("cells", "parts"))):
            for attr in attrs:
                for how in ("create", "setter"):
                    for same_dtype in (True, False):
                        yield {"kind": kind, "attr": attr, "how": how, "same_dtype": same_dtype}

    @staticmethod
    def _args(kind):
        if kind == "blockmodel":
            return {"u_cell_delimiters": np.array([0.0, 1.0, 3.0, 6.0]), "v_cell_delimiters": np.array([0.0, 1.0, 2.0]), "z_cell_delimiters": np.array([0.0, -1.0, -3.0])}
        if kind == "octree":
            rec = np.zeros(8, dtype=[("I", "<i4"), ("J", "<i4"), ("K", "<i4"), ("NCells", "<i4")])
            k = 0
            for z in range(2):
                for y in range(2):
                    for x in range(2):
                        rec[k] = (x, y, z, 1)
                        k += 1
            return {"u_count": 2, "v_count": 2, "w_count": 2, "u_cell_size": 1.0, "v_cell_size": 1.0, "w_cell_size": 1.0, "octree_cells": rec}
        if kind == "drape":
            return {"layers": np.array([[0, 0, 9.0], [0, 1, 8.0], [1, 0, 9.5]]), "prisms": np.array([[0.0, 0.0, 10.0, 0, 2], [1.0, 0.0, 10.0, 2, 1]])}
        return {"vertices": np.c_[np.arange(5.0), np.zeros(5), np.zeros(5)], "cells": np.array([[0, 1], [1, 2], [3, 4]], dtype="int32"), "parts": None}

    def native_check(self, case):
        from geoh5py.objects import BlockModel, Curve, DrapeModel, Octree
        from geoh5py.workspace import Workspace

        cls = {"blockmodel": BlockModel, "octree": Octree, "drape": DrapeModel, "curve": Curve}[case["kind"]]
        derived = (lambda o: (np.asarray(o.cells).copy(), np.asarray(o.parts).copy())) if case["kind"] == "curve" else (lambda o: (np.asarray(o.centroids, dtype=float).copy(),))
        args = self._args(case["kind"])
        attr = case["attr"]
        if case["kind"] == "curve" and attr == "parts":
            args = {"vertices": args["vertices"], "parts": np.array([0, 0, 0, 1, 1], dtype="int32")}
        elif case["kind"] == "curve":
            args.pop("parts")
        mine = args[attr]
        if not case["same_dtype"]:
            if mine.dtype.names:
                return None  # record arrays have one accepted dtype
            mine = mine.astype("float32" if mine.dtype.kind == "f" else "int64")
        with Workspace() as ws:
            try:
                if case["how"] == "create":
                    obj = cls.create(ws, **{**args, attr: mine})
                else:
                    obj = cls.create(ws, **{k: (v.copy() if isinstance(v, np.ndarray) else v) for k, v in args.items()})
                    setattr(obj, attr, mine)
                first = derived(obj)
            except Exception as exc:
                return None if case["how"] == "setter" else f"{type(exc).__name__}: {exc} ({case})"
            # the caller goes on with its own array
            if mine.dtype.names:
                mine["NCells"][:] = 2
            elif case["kind"] == "curve" and attr == "cells":
                mine[:] = mine[::-1].copy()
            elif case["kind"] == "curve":
                mine[:] = 1 - mine
            elif attr == "layers":
                mine[:, 2] -= 5.0
            elif attr == "prisms":
                mine[:, 0] += 7.0
            else:
                mine *= 2.0
            reported = {}
            for k in args:
                v = getattr(obj, k)
                reported[k] = v.copy() if isinstance(v, np.ndarray) else v
            now = derived(obj)
            try:
                if case["kind"] == "curve":
                    fresh = cls.create(ws, vertices=reported["vertices"], **{attr: reported[attr]})
                else:
                    fresh = cls.create(ws, **reported)
                want = derived(fresh)
            except Exception as exc:
                return f"the geometry now reported by the object cannot be built afresh: {type(exc).__name__}: {exc} ({case})"
            for a, b in zip(now, want):
                if a.shape != b.shape or not np.allclose(a, b):
                    return f"after the caller edited the array it had passed as {attr} in place, the object reports the edited {attr} but its derived arrays are those of the old one ({case})"
        return None


CONTRACTS = CONTRACTS + [CallerArraysNative]

# ---- derived caches are reset by the setters of what they depend on (C17: "the number of centres
# always equals the number of cells", "part labels agree with connectivity" after any assignment) ----
from contracts import setters as _setters  # noqa: E402

_RESETS = {
    ("geoh5py.objects.block_model.BlockModel", "geoh5py/objects/block_model.py"): (["origin", "rotation", "u_cell_delimiters", "v_cell_delimiters", "z_cell_delimiters"], ["_centroids"]),
    ("geoh5py.objects.grid2d.Grid2D", "geoh5py/objects/grid2d.py"): (["origin", "rotation", "dip", "u_cell_size", "v_cell_size", "u_count", "v_count"], ["_centroids"]),
    ("geoh5py.objects.octree.Octree", "geoh5py/objects/octree.py"): (["origin", "rotation", "u_cell_size", "v_cell_size", "w_cell_size", "u_count", "v_count", "w_count", "octree_cells"], ["_centroids"]),
    ("geoh5py.objects.drape_model.DrapeModel", "geoh5py/objects/drape_model.py"): (["layers", "prisms"], ["_centroids"]),
}
RESET_CONTRACTS = []
for (_cls_path, _file), (_attrs, _caches) in _RESETS.items():
    _cname = _cls_path.rsplit(".", 1)[1]
    for _a in _attrs:
        _k = _setters.make(f"Reset_{_cname}_{_a}", f"{_file}::{_cname}.{_a}.fset", _cls_path, _a, resets=_caches, write_through=False, props=("C17",))
        _k.__module__ = __name__
        if (_cname, _a) == ("Grid2D", "dip"):
            _k.coupled = ("_vertical",)  # documented coupling: a dip of 90 degrees is the format's 'vertical' flag
        globals()[_k.__name__] = _k
        RESET_CONTRACTS.append(_k)
for _a, _c in (("cells", "_parts"), ("parts", "_cells")):
    _k = _setters.make(f"Reset_Curve_{_a}", f"geoh5py/objects/curve.py::Curve.{_a}.fset", "geoh5py.objects.curve.Curve", _a, resets=[_c], write_through=False, props=("C17",))
    _k.__module__ = __name__
    globals()[_k.__name__] = _k
    RESET_CONTRACTS.append(_k)
CURVE_RESETS = RESET_CONTRACTS[-2:]

CONTRACTS = [OctreeCentroids, BlockModelCentroids, Grid2DCentroids, CallerArraysNative] + RESET_CONTRACTS


class CurvePartsCells(Contract):
    """Bounded stand-in (the loops over np.unique(parts) and the run-length labelling are outside
    the modelled subset): cells derived from part labels join consecutive vertices of one part only
    and all of them; labels derived from cells are constant exactly on connected runs, also after
    the cells are changed on a live object."""
    target = "geoh5py/objects/curve.py::Curve.parts.fget"
    props = ("C17",)
    symbolic = False
    has_native = True
    bounded_scope = "every part labelling of 2-6 vertices over labels {0,1,2} (incl. non-contiguous labels), and every removal of one segment from a 6-vertex line; every removal of one or two vertices from three labelled curves of 5-7 vertices (exhaustive)"

    def native_cases(self, tier, rng):
        for n in range(2, 7 if tier == "thorough" else 6):
            for labels in itertools.product((0, 1, 2), repeat=n):
                yield {"kind": "from-parts", "parts": list(labels)}
        for n in (4, 6):
            for k in range(n - 1):
                yield {"kind": "remove-cell", "n": n, "cell": k}
        # vertices removed from a curve built from part labels (ends of parts included): the segments left join
        # consecutive surviving vertices of one part only, and the labels agree with them
        for parts in ([0, 0, 0, 1, 1, 1], [0, 0, 1, 1, 1, 2, 2], [0, 0, 0, 0, 0]):
            for k in range(1, 3):
                for gone in itertools.combinations(range(len(parts)), k):
                    yield {"kind": "remove-vertices", "parts": parts, "gone": list(gone)}

    def native_check(self, case):
        from geoh5py.objects import Curve
        from geoh5py.workspace import Workspace

        def components(n, cells):
            parent = list(range(n))

            def find(x):
                while parent[x] != x:
                    parent[x] = parent[parent[x]]
                    x = parent[x]
                return x

            for a, b in cells:
                parent[find(int(a))] = find(int(b))
            return [find(i) for i in range(n)]

        with Workspace() as ws:
            if case["kind"] == "from-parts":
                parts = case["parts"]
                n = len(parts)
                v = np.c_[np.arange(n, dtype=float), np.zeros(n), np.zeros(n)]
                c = Curve.create(ws, vertices=v, parts=parts)
                cells = np.asarray(c.cells)
                exp = set()
                for lab in set(parts):
                    idx = [i for i, p in enumerate(parts) if p == lab]
                    exp |= {(a, b) for a, b in zip(idx[:-1], idx[1:])}
                got = {tuple(sorted(map(int, x))) for x in cells} if len(cells) else set()
                if got != exp:
                    return f"cells {sorted(got)} expected {sorted(exp)} for parts {parts}"
                if len(cells):
                    # labels re-derived from those segments induce the same partition of the vertices in use
                    again = np.asarray(Curve.create(ws, vertices=v, cells=cells.copy()).parts)
                    used = sorted({int(i) for cell in cells for i in cell})
                    for a in used:
                        for b in used:
                            if (parts[a] == parts[b]) != (again[a] == again[b]):
                                return f"part labels {again.tolist()} derived from the segments {cells.tolist()} of labelling {parts} disagree with connectivity"
                return None
            if case["kind"] == "remove-vertices":
                parts, gone = case["parts"], case["gone"]
                n = len(parts)
                v = np.c_[np.arange(n, dtype=float), np.zeros(n), np.zeros(n)]
                c = Curve.create(ws, vertices=v, parts=parts)
                _ = c.cells
                c.remove_vertices(gone)
                keep = [i for i in range(n) if i not in gone]
                xs = [float(x) for x in np.asarray(c.vertices)[:, 0]] if c.vertices is not None else []
                if xs != [float(i) for i in keep]:
                    return f"after removing vertices {gone} the vertices left are {xs} ({case})"
                cells = np.asarray(c.cells).reshape(-1, 2) if c.cells is not None else np.zeros((0, 2), dtype=int)
                if len(cells) and (cells.min() < 0 or cells.max() >= len(keep)):
                    return f"after removing vertices {gone} a segment refers to a vertex that does not exist: {cells.tolist()} ({case})"
                got = {tuple(sorted((keep[int(a)], keep[int(b)]))) for a, b in cells}
                # a segment survives exactly when both its ends do (no segment is invented)
                exp = set()
                for lab in set(parts):
                    idx = [i for i, q in enumerate(parts) if q == lab]
                    exp |= {(a, b) for a, b in zip(idx[:-1], idx[1:]) if a not in gone and b not in gone}
                if got != exp:
                    return f"after removing vertices {gone} from a curve with parts {parts} the segments join original vertices {sorted(got)}, expected {sorted(exp)}"
                comp = components(len(keep), cells)
                labels = np.asarray(c.parts)
                used = sorted({int(i) for cell in cells for i in cell})
                for a in used:
                    for b in used:
                        if (comp[a] == comp[b]) != (labels[a] == labels[b]):
                            return f"after removing vertices {gone}, part labels {labels.tolist()} disagree with the segments {cells.tolist()}"
                return None
            n = case["n"]
            v = np.c_[np.arange(n, dtype=float), np.zeros(n), np.zeros(n)]
            c = Curve.create(ws, vertices=v)
            _ = c.parts
            c.remove_cells([case["cell"]])
            comp = components(n, np.asarray(c.cells))
            parts = np.asarray(c.parts)
            used = sorted({int(i) for cell in np.asarray(c.cells) for i in cell})
            for a in used:
                for b in used:
                    if (comp[a] == comp[b]) != (parts[a] == parts[b]):
                        return f"after removing segment {case['cell']} of a {n}-vertex line, part labels {parts.tolist()} disagree with connectivity"
        return None


class OctreeBaseRefine(Contract):
    """Bounded stand-in (log2 / 2** on floats): the default octree tiles the base grid exactly once."""
    target = "geoh5py/objects/octree.py::Octree.base_refine"
    props = ("C17",)
    symbolic = False
    has_native = True
    bounded_scope = "every power-of-two count triple up to 2^4 per axis (125 configurations) in the quick tier, up to 2^6 (343) in the thorough tier (exhaustive within the bound)"

    def native_cases(self, tier, rng):
        top = 5 if tier == "quick" else 7
        for a in range(top):
            for b in range(top):
                for c in range(top):
                    yield {"counts": [2 ** a, 2 ** b, 2 ** c]}

    def native_check(self, case):
        from geoh5py.objects import Octree
        from geoh5py.workspace import Workspace

        nu, nv, nw = case["counts"]
        with Workspace() as ws:
            o = Octree.create(ws, u_count=nu, v_count=nv, w_count=nw, u_cell_size=1.0, v_cell_size=1.0, w_cell_size=1.0)
            cells = np.asarray(o.octree_cells.tolist(), dtype=int)
            cen = o.centroids
        if len(cen) != len(cells) or o.n_cells != len(cells):
            return f"{len(cen)} centres for {len(cells)} cells ({case})"
        grid = np.zeros((nu, nv, nw), dtype=int)
        for i, j, k, n in cells:
            if i < 0 or j < 0 or k < 0 or i + n > nu or j + n > nv or k + n > nw:
                return f"cell {(i, j, k, n)} leaves the base grid {case}"
            grid[i:i + n, j:j + n, k:k + n] += 1
        if not np.all(grid == 1):
            return f"base grid {case['counts']} not tiled exactly once (coverage counts {np.unique(grid).tolist()})"
        return None


CONTRACTS = CONTRACTS + [CurvePartsCells, OctreeBaseRefine]
