"""C02 (and C12's frame): copies and extent clips of every kind of object -- inside one workspace and
into another one -- leave *both* files structurally valid.  Several object classes override copy /
copy_from_extent and build temporary entities (a GeoImage clips through a temporary Grid2D, surveys
copy their complement, drillholes re-derive their trace); whatever they create has to be removed
from, and linked in, the workspace it lives in.

Bounded stand-in (native): the structural validity clauses are `histories.wf_file`.
"""
from __future__ import annotations

import gc
import os
import shutil
import tempfile

import numpy as np

from contracts.histories import wf_file
from pyvc.contracts import Contract

KINDS = ("points", "curve", "surface", "grid2d", "geoimage", "blockmodel", "octree", "drapemodel", "drillhole", "tem", "dcip", "tipper", "group")


def _verts(n=6, off=0.0):
    return np.c_[np.arange(n, dtype=float) * 10.0 + off, np.arange(n, dtype=float) * 5.0, np.zeros(n)]


def build(ws, kind):
    """One object (or linked pair, or group) of the kind, with data where the class takes data."""
    from geoh5py.groups import ContainerGroup
    from geoh5py.objects import BlockModel, Curve, Drillhole, GeoImage, Grid2D, Octree, Points, Surface

    if kind == "points":
        o = Points.create(ws, name="pts", vertices=_verts())
        d = o.add_data({"a": {"values": np.arange(6.0)}, "b": {"values": np.arange(6.0) * 2}})
        o.add_data_to_group(d, "pg")
        return o
    if kind == "curve":
        o = Curve.create(ws, name="crv", vertices=_verts())
        o.add_data({"a": {"values": np.arange(6.0)}, "c": {"values": np.arange(5.0), "association": "CELL"}})
        return o
    if kind == "surface":
        o = Surface.create(ws, name="srf", vertices=_verts(), cells=np.array([[0, 1, 2], [1, 2, 3], [3, 4, 5]], dtype="uint32"))
        o.add_data({"a": {"values": np.arange(6.0)}})
        return o
    if kind == "grid2d":
        o = Grid2D.create(ws, name="grd", origin=[0.0, 0.0, 0.0], u_cell_size=10.0, v_cell_size=10.0, u_count=6, v_count=5)
        o.add_data({"a": {"values": np.arange(30.0)}})
        return o
    if kind == "geoimage":
        rng = np.random.default_rng(0)
        return GeoImage.create(ws, name="img", image=rng.integers(0, 255, (48, 64, 3)).astype("uint8"))
    if kind == "blockmodel":
        o = BlockModel.create(ws, name="bm", origin=[0.0, 0.0, 0.0], u_cell_delimiters=np.arange(4.0) * 10, v_cell_delimiters=np.arange(4.0) * 10, z_cell_delimiters=np.arange(3.0) * -10)
        o.add_data({"a": {"values": np.arange(18.0)}})
        return o
    if kind == "octree":
        o = Octree.create(ws, name="oct", origin=[0.0, 0.0, 0.0], u_count=4, v_count=4, w_count=4, u_cell_size=10.0, v_cell_size=10.0, w_cell_size=10.0)
        o.add_data({"a": {"values": np.arange(o.n_cells, dtype=float)}})
        return o
    if kind == "drapemodel":
        from geoh5py.objects import DrapeModel

        o = DrapeModel.create(ws, name="drape", layers=np.array([[0, 0, -1.0], [0, 1, -2.0], [1, 0, -1.5], [2, 0, -1.0], [2, 1, -3.0]]),
                              prisms=np.array([[5.0, 5.0, 0.0, 0, 2], [15.0, 5.0, 0.0, 2, 1], [25.0, 5.0, 0.0, 3, 2]]))
        o.add_data({"a": {"values": np.arange(5.0)}})
        return o
    if kind == "drillhole":
        o = Drillhole.create(ws, name="dh", collar=[5.0, 5.0, 0.0], surveys=np.c_[np.r_[0.0, 30.0, 60.0], np.zeros(3), np.ones(3) * -80.0])
        o.add_data({"log": {"depth": np.arange(5.0) * 10, "values": np.arange(5.0)}, "iv": {"from-to": np.c_[np.arange(3.0) * 10, np.arange(3.0) * 10 + 5], "values": np.arange(3.0)}})
        return o
    if kind == "tem":
        from geoh5py.objects import AirborneTEMReceivers, AirborneTEMTransmitters

        rx = AirborneTEMReceivers.create(ws, name="rx", vertices=_verts())
        tx = AirborneTEMTransmitters.create(ws, name="tx", vertices=_verts(off=1.0))
        rx.transmitters = tx
        rx.channels = [1e-3, 2e-3]
        rx.waveform = np.c_[np.linspace(0.0, 1.0, 3), np.r_[0.0, 1.0, 0.0]]
        rx.timing_mark = 0.5
        d = rx.add_data({"ch1": {"values": np.arange(6.0)}, "ch2": {"values": np.arange(6.0) + 1}})
        rx.add_components_data({"dBdt": d})
        rx.add_data({"Transmitter": {"values": np.arange(6.0) + 30}, "ID": {"values": np.arange(6.0) + 40}})
        # the reserved channel names themselves, on a survey class that does not rebuild such channels: ordinary data here
        rx.add_data({"Transmitter ID": {"values": np.arange(6.0) + 50}, "A-B Cell ID": {"values": np.arange(6.0) + 60}})
        return rx
    if kind == "dcip":
        from geoh5py.objects import CurrentElectrode, PotentialElectrode

        cur = CurrentElectrode.create(ws, name="cur", vertices=_verts(), parts=np.zeros(6, dtype="int32"))
        cur.add_default_ab_cell_id()
        pot = PotentialElectrode.create(ws, name="pot", vertices=_verts(off=2.0))
        pot.cells = np.c_[np.arange(5), np.arange(1, 6)].astype("uint32")
        pot.ab_cell_id = np.array([1, 2, 3, 4, 5], dtype="int32")
        pot.current_electrodes = cur
        pot.add_data({"v": {"values": np.arange(5.0), "association": "CELL"}})
        # ordinary data whose names are fragments of the reserved channel names
        pot.add_data({"ID": {"values": np.arange(5.0) + 10, "association": "CELL"}, "Cell": {"values": np.arange(6.0) + 20}})
        return pot
    if kind == "tipper":
        from geoh5py.objects import TipperBaseStations, TipperReceivers

        rx = TipperReceivers.create(ws, name="tip", vertices=_verts())
        base = TipperBaseStations.create(ws, name="base", vertices=_verts(1, off=3.0))
        rx.base_stations = base
        rx.channels = [10.0, 20.0]
        rx.add_data({"Transmitter ID": {"values": np.arange(6.0) + 70}})
        return rx
    if kind == "root":
        # the Root group itself, holding an object and a group
        p = Points.create(ws, name="under-root", vertices=_verts())
        p.add_data({"a": {"values": np.arange(6.0)}})
        ContainerGroup.create(ws, name="grp-under-root")
        return ws.root
    if kind == "group":
        g = ContainerGroup.create(ws, name="grp")
        p = Points.create(ws, name="inner", vertices=_verts(), parent=g)
        p.add_data({"a": {"values": np.arange(6.0)}})
        Curve.create(ws, name="inner-crv", vertices=_verts(off=2.0), parent=g)
        return g
    raise ValueError(kind)


EXTENTS = {
    "keeps-part": np.array([[5.0, 0.0], [35.0, 30.0]]),
    "keeps-all": np.array([[-100.0, -100.0], [1000.0, 1000.0]]),
    "misses": np.array([[5000.0, 5000.0], [5040.0, 5040.0]]),
}


class CopiesKeepFilesValid(Contract):
    target = "geoh5py/objects/object_base.py::ObjectBase.copy_from_extent"
    variant = "copies-keep-both-files-valid"
    symbolic = False
    has_native = True
    native_shards = 6
    props = ("C02", "C12")
    bounded_scope = ("one object per kind in {points, curve, surface, grid2d, geoimage, block model, octree, drape model, drillhole, airborne TEM pair, DC/IP pair, tipper pair, group of objects} with data; "
                     "copy() and copy_from_extent() (box keeps part / keeps all / misses everything, plain and inverse) into {the same workspace, a group of another workspace, the other workspace itself}; "
                     "after closing, both files satisfy every structural validity clause, every stored node of the source (entities, data, the types they use with their value maps) is unchanged, and the source file's entity count is unchanged by copies that go elsewhere (exhaustive over the listed combinations: "
                     "13 kinds x 3 targets x (1 + 3 x 2) operations, plus the Root group as the source x 2 targets x 2 operations); what the target held before is still found by a later reader")

    def native_cases(self, tier, rng):
        for kind in KINDS:
            for target in ("same", "other-group", "other-workspace"):
                yield {"kind": kind, "target": target, "op": "copy"}
                for ext in EXTENTS:
                    for inverse in (False, True):
                        yield {"kind": kind, "target": target, "op": "extent", "extent": ext, "inverse": inverse}
        # the Root group as the source (a file has one Root: whatever the copy becomes, the target keeps its own)
        for target in ("other-group", "other-workspace"):
            yield {"kind": "root", "target": target, "op": "copy"}
            yield {"kind": "root", "target": target, "op": "extent", "extent": "keeps-all", "inverse": False}

    def native_check(self, case):
        from geoh5py.groups import ContainerGroup
        from geoh5py.workspace import Workspace

        d = tempfile.mkdtemp()
        src, dst = os.path.join(d, "src.geoh5"), os.path.join(d, "dst.geoh5")
        try:
            with Workspace.create(src) as ws:
                build(ws, case["kind"])
            n_src = _count(src)
            with Workspace(src, mode="r") as ws:
                own = set()
                for e in list(ws.objects) + [g for g in ws.groups if g is not ws.root]:
                    own |= {str(e.uid), str(e.entity_type.uid)}
                    for c in getattr(e, "children", []):
                        if hasattr(c, "entity_type"):
                            own |= {str(c.uid), str(c.entity_type.uid)}
            from contracts.surveys import IndependentSurveysFrame

            before = IndependentSurveysFrame._digests(src, own)
            with Workspace.create(dst) as other:
                ContainerGroup.create(other, name="clips")
                from geoh5py.objects import Points as _P

                _P.create(other, name="resident", vertices=_verts(3, off=7.0))
            failed = None
            with Workspace(src, mode="r+") as ws, Workspace(dst, mode="r+") as other:
                obj = ws.root if case["kind"] == "root" else [e for e in list(ws.objects) + list(ws.groups) if e.name in ("pts", "crv", "srf", "grd", "img", "bm", "oct", "drape", "dh", "rx", "pot", "tip", "grp")][0]
                parent = {"same": None, "other-group": other.get_entity("clips")[0], "other-workspace": other}[case["target"]]
                try:
                    if case["op"] == "copy":
                        obj.copy(parent=parent)
                    else:
                        obj.copy_from_extent(EXTENTS[case["extent"]], parent=parent, inverse=case["inverse"])
                except Exception as exc:  # a refused copy is fine as long as both files stay valid
                    failed = f"{type(exc).__name__}: {exc}"
                del obj, parent
                gc.collect()
            if failed and case["kind"] != "root":
                # every kind listed can be copied and clipped (the one-station base of a tipper survey is a legal partner)
                return f"{_what(case)} was refused: {failed}"
            for label, path in (("source", src), ("target", dst)):
                bad = wf_file(path)
                if bad:
                    return f"after {_what(case)}{' (which raised ' + failed + ')' if failed else ''} the {label} file is not a valid geoh5 file: {bad}"
            # what the target workspace held before is still there for a later reader
            with Workspace(dst, mode="r") as o:
                seen = {e.name for e in list(o.objects) + list(o.groups)}
            if not {"resident", "clips"} <= seen:
                return f"after {_what(case)} a reader of the target file no longer finds {sorted({'resident', 'clips'} - seen)} (it held them before)"
            # frame: a copy (masked or not, wherever it goes) leaves every stored node of its source as it was --
            # attributes, metadata, values, and the types the source uses (value maps included); only child lists of containers grow
            after = IndependentSurveysFrame._digests(src, own)
            for k in before:
                b, a = dict(before[k]), dict(after.get(k, {}))
                b.pop("members", None), a.pop("members", None)
                if a != b:
                    return f"after {_what(case)} the source's own node {k} changed in {[m for m in b if a.get(m) != b[m]]}"
            if case["target"] != "same" and _count(src) != n_src:
                return f"after {_what(case)} the source file holds {_count(src)} entities instead of {n_src}"
            return None
        finally:
            gc.collect()
            shutil.rmtree(d, ignore_errors=True)


def _what(case):
    if case["op"] == "copy":
        return f"copy() of a {case['kind']} into {case['target']}"
    return f"copy_from_extent({case['extent']}, inverse={case['inverse']}) of a {case['kind']} into {case['target']}"


def _count(path):
    import h5py

    with h5py.File(path, "r") as f:
        p = f[list(f)[0]]
        return sum(len(p[c]) for c in ("Data", "Groups", "Objects"))


CONTRACTS = [CopiesKeepFilesValid]
