"""Contracts for geoh5py/shared/weakref_utils.py (C06 core; used by C01/C05)."""
from __future__ import annotations

import gc
import uuid
import weakref

import z3

from pyvc.contracts import Contract, LoopSpec
from pyvc.core import fresh_name
from pyvc.values import SV, Maybe, SDict, WeakRef, mk, sym, to_z3, zbool


def sym_registry(ctx, name, enumerated=False):
    """A symbolic registry {uid -> weakref}: presence, liveness and referent are arbitrary
    functions of the key (T-weak: a reference is alive or dead, fixed at the time of the call)."""
    has = z3.Function(fresh_name(name + "_has"), z3.IntSort(), z3.BoolSort())
    alive = z3.Function(fresh_name(name + "_alive"), z3.IntSort(), z3.BoolSort())
    tgt = z3.Function(fresh_name(name + "_tgt"), z3.IntSort(), z3.IntSort())
    d = SDict(
        "uid",
        lambda k: has(to_z3(k)),
        lambda k: WeakRef(mk(tgt(to_z3(k)), "ref"), alive(to_z3(k))),
        tag=name,
    )
    info = {"has": has, "alive": alive, "tgt": tgt}
    if enumerated:
        n = z3.Int(fresh_name(name + "_n"))
        key_at = z3.Function(fresh_name(name + "_key"), z3.IntSort(), z3.IntSort())
        i, j = z3.Ints(f"{fresh_name('i')} {fresh_name('j')}")
        ctx.assume(n >= 0)
        ctx.assume(z3.ForAll([i], z3.Implies(z3.And(i >= 0, i < n), has(key_at(i))), patterns=[key_at(i)]))
        ctx.assume(z3.ForAll([i, j], z3.Implies(z3.And(i >= 0, i < j, j < n), key_at(i) != key_at(j))))
        idx = z3.Function(fresh_name(name + "_idx"), z3.IntSort(), z3.IntSort())
        k = z3.Int(fresh_name("k"))
        ctx.assume(z3.ForAll([k], z3.Implies(has(k), z3.And(idx(k) >= 0, idx(k) < n, key_at(idx(k)) == k)), patterns=[has(k)]))
        d.n = mk(n, "int")
        d.key_at = lambda i_: mk(key_at(to_z3(i_, "int")), "uid")
        info.update(n=n, key_at=key_at, idx=idx)
    return d, info


def concrete_registry(entries):
    """entries: list of (key_int, 'live'|'dead').  Returns (dict, keepalive list, uuids)."""

    class Ent:  # weakref-able
        def __init__(self, tag):
            self.tag = tag

    d, keep, keys = {}, [], {}
    for key, state in entries:
        u = uuid.UUID(int=key + 1)
        keys[key] = u
        e = Ent(key)
        d[u] = weakref.ref(e)
        if state == "live":
            keep.append(e)
        del e
    gc.collect()
    return d, keep, keys, Ent


def _reg_cases(rng, tier):
    import itertools

    states = ["absent", "live", "dead"]
    for combo in itertools.product(states, repeat=3):
        entries = [(i, s) for i, s in enumerate(combo) if s != "absent"]
        for probe in range(4):
            yield {"entries": entries, "probe": probe}


class InsertOnce(Contract):
    target = "geoh5py/shared/weakref_utils.py::insert_once"
    props = ("C06",)
    has_native = True
    bounded_scope = "registries over 3 keys x {absent, live, dead}, inserted key in 0..3 (exhaustive)"

    def setup(self, ctx):
        d, info = sym_registry(ctx, "reg")
        key = sym("key", "uid")
        value = sym("value", "ref")
        ctx.env.update(d=d, info=info, key=key, value=value)
        return [d, key, value], {}

    def post(self, ctx, result):
        e = ctx.env
        info, key, d = e["info"], e["key"], e["d"]
        used = z3.And(info["has"](key.e), info["alive"](key.e))
        ctx.oblige("returns-only-when-key-free", z3.Not(used))
        ctx.oblige("key-present", d.has(key))
        ref = d.get(key)
        ctx.oblige("key-refers-to-value", z3.And(zbool(ref.alive), to_z3(ref.target) == e["value"].e))
        k = z3.Int(fresh_name("k"))  # arbitrary other key (validity = for all k)
        other = d.get(mk(k, "uid"))
        ctx.oblige(
            "frame-other-keys-untouched",
            z3.Implies(
                k != key.e,
                z3.And(
                    zbool(d.has(mk(k, "uid"))) == info["has"](k),
                    zbool(other.alive) == info["alive"](k),
                    to_z3(other.target) == info["tgt"](k),
                ),
            ),
            kind="frame",
        )
        ctx.oblige("returns-none", result is None)

    def post_raises(self, ctx, sig):
        e = ctx.env
        info, key, d = e["info"], e["key"], e["d"]
        ctx.oblige("raises-RuntimeError-only", sig.exc_class is RuntimeError, kind="post-exc")
        ctx.oblige("raises-only-when-key-live", z3.And(info["has"](key.e), info["alive"](key.e)), kind="post-exc")
        k = z3.Int(fresh_name("k"))
        other = d.get(mk(k, "uid"))
        ctx.oblige(
            "refused-without-side-effects",
            z3.And(zbool(d.has(mk(k, "uid"))) == info["has"](k), zbool(other.alive) == info["alive"](k), to_z3(other.target) == info["tgt"](k)),
            kind="post-exc",
        )

    # ---- use as callee
    def apply(self, I, args, kwargs):
        d, key, value = args
        if hasattr(value, "attrs") and "__ref__" in getattr(value, "attrs", {}):
            value = value.attrs["__ref__"]  # an abstract entity is stored by its reference term
        used = z3.And(zbool(d.has(key)), zbool(d.get(key).alive))
        if I.path.branch(used, f"insert_once-key-live@{I.cur_line}"):
            I.raise_(RuntimeError)
        d.store(key, WeakRef(value, True))
        return None

    # ---- native
    def native_cases(self, tier, rng):
        return list(_reg_cases(rng, tier))

    def native_check(self, case):
        from geoh5py.shared import weakref_utils

        d, keep, keys, Ent = concrete_registry([tuple(x) for x in case["entries"]])
        before = {k: (r() is not None, r()) for k, r in d.items()}
        key = uuid.UUID(int=case["probe"] + 1)
        val = Ent("new")
        live_before = key in d and d[key]() is not None
        try:
            weakref_utils.insert_once(d, key, val)
        except RuntimeError:
            if not live_before:
                return "raised although key was free"
            after = {k: (r() is not None, r()) for k, r in d.items()}
            return None if after == before else "refused insertion changed the registry"
        except Exception as exc:  # noqa
            return f"unexpected {type(exc).__name__}"
        if live_before:
            return "accepted a key that is in use by a live entity"
        if key not in d or d[key]() is not val:
            return "key does not refer to the inserted value"
        for k, (alive, tgt) in before.items():
            if k != key and (k not in d or d[k]() is not tgt):
                return "another key was altered"
        if set(d) - set(before) - {key}:
            return "spurious key added"
        return None

    def witness(self, model, env, case):
        info, key = env["info"], env["key"]
        kv = model.eval(key.e, model_completion=True).as_long()
        entries = []
        if z3.is_true(model.eval(info["has"](key.e), model_completion=True)):
            entries.append((0, "live" if z3.is_true(model.eval(info["alive"](key.e), model_completion=True)) else "dead"))
        return {"entries": entries, "probe": 0}


class GetCleanRef(Contract):
    target = "geoh5py/shared/weakref_utils.py::get_clean_ref"
    props = ("C06",)
    has_native = True
    bounded_scope = "registries over 3 keys x {absent, live, dead}, looked-up key in 0..3 (exhaustive)"

    def setup(self, ctx):
        d, info = sym_registry(ctx, "reg")
        key = sym("key", "uid")
        ctx.env.update(d=d, info=info, key=key)
        return [d, key], {}

    def post(self, ctx, result):
        e = ctx.env
        info, key, d = e["info"], e["key"], e["d"]
        live = z3.And(info["has"](key.e), info["alive"](key.e))
        I = ctx.I
        ctx.oblige("none-iff-not-live", zbool(I.is_none(result)) == z3.Not(live))
        if result is not None:
            val = result.value if isinstance(result, Maybe) else result
            pres = result.present if isinstance(result, Maybe) else True
            ctx.oblige("returns-the-referent", z3.Implies(zbool(pres), to_z3(val) == info["tgt"](key.e)))
        k = z3.Int(fresh_name("k"))
        other = d.get(mk(k, "uid"))
        ctx.oblige(
            "only-a-dead-looked-up-key-is-dropped",
            z3.And(
                zbool(d.has(mk(k, "uid"))) == z3.And(info["has"](k), z3.Not(z3.And(k == key.e, z3.Not(info["alive"](k))))),
                z3.Implies(zbool(d.has(mk(k, "uid"))), z3.And(zbool(other.alive) == info["alive"](k), to_z3(other.target) == info["tgt"](k))),
            ),
            kind="frame",
        )

    def apply(self, I, args, kwargs):
        from pyvc.values import maybe

        d, key = args
        has = zbool(d.has(key))
        ref = d.get(key)
        alive = zbool(ref.alive) if not isinstance(ref.alive, bool) else z3.BoolVal(ref.alive)
        dead = z3.And(has, z3.Not(alive))
        if I.path.branch(dead, f"get_clean_ref-dead@{I.cur_line}"):
            d.delete(key)
            return None
        return maybe(z3.And(has, alive), ref.target)

    def native_cases(self, tier, rng):
        return list(_reg_cases(rng, tier))

    def native_check(self, case):
        from geoh5py.shared import weakref_utils

        d, keep, keys, Ent = concrete_registry([tuple(x) for x in case["entries"]])
        before = {k: r() for k, r in d.items()}
        key = uuid.UUID(int=case["probe"] + 1)
        got = weakref_utils.get_clean_ref(d, key)
        exp = before.get(key)
        if got is not exp:
            return f"returned {got!r}, expected {exp!r}"
        for k, tgt in before.items():
            should_stay = not (k == key and tgt is None)
            if (k in d) != should_stay:
                return "wrong key dropped/kept"
            if k in d and d[k]() is not tgt:
                return "referent changed"
        return None

    def witness(self, model, env, case):
        info, key = env["info"], env["key"]
        entries = []
        if z3.is_true(model.eval(info["has"](key.e), model_completion=True)):
            entries.append((0, "live" if z3.is_true(model.eval(info["alive"](key.e), model_completion=True)) else "dead"))
        return {"entries": entries, "probe": 0}


def _rnr_inv(ctx, st, k):
    """After k deletions: exactly the dead keys at filter positions < k are gone."""
    e = ctx.env
    info, d = e["info"], e["d"]
    dead_keys = st.seq  # the list being iterated
    x = z3.Int(fresh_name("x"))
    src, pred, pos, rank = e.setdefault("sel", st.seq.sel)
    key_at, idx, n = info["key_at"], info["idx"], info["n"]
    deleted = z3.And(info["has"](x), z3.Not(info["alive"](x)), rank(idx(x)) < k)
    body = zbool(d.has(mk(x, "uid"))) == z3.And(info["has"](x), z3.Not(deleted))
    return [("deleted-exactly-dead-prefix", z3.ForAll([x], body))]


def _rnr_havoc(ctx, st, k):
    e = ctx.env
    info = e["info"]
    d = e["d"]
    has2 = z3.Function(fresh_name("has_k"), z3.IntSort(), z3.BoolSort())
    d.has = lambda kk, _h=has2: _h(to_z3(kk))


class RemoveNoneReferents(Contract):
    target = "geoh5py/shared/weakref_utils.py::remove_none_referents"
    props = ("C06", "C01")
    has_native = True
    bounded_scope = "registries over 4 keys x {absent, live, dead} (exhaustive)"
    loops = {1: LoopSpec(_rnr_inv, _rnr_havoc, "for-key-in-dead_keys")}

    def setup(self, ctx):
        d, info = sym_registry(ctx, "reg", enumerated=True)
        ctx.env.update(d=d, info=info)
        return [d], {}

    def post(self, ctx, result):
        e = ctx.env
        info, d = e["info"], e["d"]
        x = z3.Int(fresh_name("x"))
        ctx.oblige("exactly-dead-keys-removed", zbool(d.has(mk(x, "uid"))) == z3.And(info["has"](x), info["alive"](x)))
        o = d.get(mk(x, "uid"))
        ctx.oblige("live-entries-untouched", z3.Implies(z3.And(info["has"](x), info["alive"](x)), z3.And(zbool(o.alive), to_z3(o.target) == info["tgt"](x))), kind="frame")

    def native_cases(self, tier, rng):
        import itertools

        for combo in itertools.product(["absent", "live", "dead"], repeat=4):
            yield {"entries": [(i, s) for i, s in enumerate(combo) if s != "absent"]}

    def native_check(self, case):
        from geoh5py.shared import weakref_utils

        d, keep, keys, Ent = concrete_registry([tuple(x) for x in case["entries"]])
        before = {k: r() for k, r in d.items()}
        weakref_utils.remove_none_referents(d)
        exp = {k for k, t in before.items() if t is not None}
        if set(d) != exp:
            return f"remaining keys {sorted(map(str, d))} expected {sorted(map(str, exp))}"
        for k in exp:
            if d[k]() is not before[k]:
                return "live entry altered"
        return None


CONTRACTS = [InsertOnce, GetCleanRef, RemoveNoneReferents]
