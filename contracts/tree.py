"""C01 / C02 / C09: tree-level operations above the writer (abstract execution, every path)."""
from __future__ import annotations

import itertools

import z3

from pyvc.contracts import Contract
from pyvc.core import RaiseSig
from pyvc.core import fresh_name
from pyvc.interp import EngineCallable
from pyvc.values import AbsObj, Obj, Opaque, PDict, PList, mk, sym, to_z3, zbool


class ParentSet(Contract):
    """Re-parenting: the entity joins the new parent, leaves the old one exactly when it differs,
    is re-saved under the new parent; assigning the current parent again changes nothing."""
    target = "geoh5py/shared/entity.py::Entity.parent.fset"
    props = ("C01", "C02", "C09", "C10")
    lenient = True

    def cases(self):
        # the entity moved: an object (which can hold children itself) and a data (which cannot)
        return [(c, kind) for c in ("new-parent", "same-parent", "first-parent", "new-parent-refuses") for kind in ("object", "data")]

    def setup(self, ctx):
        from geoh5py.data import FloatData
        from geoh5py.objects import Points

        case, kind = ctx.case
        ctx.env["kind"] = kind
        me = Opaque("self", cls=Points if kind == "object" else FloatData)
        ws = Opaque("self.workspace")
        se = Opaque("save_entity")
        se.maybe_method = lambda I, a, kw: I.event("save_entity", entity=a[0])
        ws.attrs["save_entity"] = se
        me.attrs["workspace"] = ws

        def mk_parent(tag):
            p = Opaque(tag)
            p.distinct = True
            for name in ("add_children", "remove_children"):
                m = Opaque(f"{tag}.{name}")
                m.maybe_method = (lambda I, a, kw, _t=tag, _n=name: I.event(_n, parent=_t, children=a[0]))
                p.attrs[name] = m
            return p

        old, new = mk_parent("old-parent"), mk_parent("new-parent")
        if case == "new-parent-refuses":
            def refuse(I, a, kw):
                I.event("add_children", parent="new-parent", children=a[0])
                raise RaiseSig(TypeError, "this parent does not take such children")

            new.attrs["add_children"].maybe_method = refuse
        ctx.path.assume(~old.none_var())
        ctx.path.assume(~new.none_var())
        me.attrs["_parent"] = None if case == "first-parent" else old
        target = old if case == "same-parent" else new
        ctx.env.update(me=me, old=old, new=new, target=target)
        return [me, target], {}

    def post(self, ctx, result):
        e = ctx.env
        ev = ctx.path.events
        adds = [p for k, p in ev if k == "add_children"]
        rems = [p for k, p in ev if k == "remove_children"]
        saves = [p for k, p in ev if k == "save_entity"]
        tgt = e["target"]
        case = ctx.case[0]
        if case == "new-parent-refuses":
            ctx.oblige("a-refusal-by-the-new-parent-is-not-swallowed", False, note="the new parent refused the child but the assignment returned normally")
            return
        ctx.oblige("the-entity-joins-the-requested-parent", len(adds) == 1 and adds[0]["parent"] == tgt.tag and e["me"].attrs.get("_parent") is tgt)
        if case == "new-parent":
            ctx.oblige("the-entity-leaves-its-old-parent", len(rems) == 1 and rems[0]["parent"] == "old-parent")
            ctx.oblige("the-move-is-written-to-the-file", len(saves) == 1 and saves[0]["entity"] is e["me"])
        else:
            ctx.oblige("assigning-the-current-parent-removes-nothing", len(rems) == 0, note="; ".join(p["parent"] for p in rems))


def _parentset_post_raises(self, ctx, sig):
    e = ctx.env
    ev = ctx.path.events
    rems = [p for k, p in ev if k == "remove_children"]
    saves = [p for k, p in ev if k == "save_entity"]
    ctx.oblige("only-a-refusing-parent-makes-the-move-fail", ctx.case[0] == "new-parent-refuses", kind="post-exc")
    ctx.oblige("a-refused-move-leaves-the-entity-under-its-old-parent", not rems and not saves and e["me"].attrs.get("_parent") is e["old"], kind="post-exc",
               note="the new parent refused the child after the entity had already been detached from its old parent (in memory and on file): it is left without any parent entry")


ParentSet.post_raises = _parentset_post_raises


class PropertyGroupRemove(Contract):
    """remove_properties: every listed member leaves the group (non-members are skipped, not a
    reason to stop), and the group is written back (or deleted when it becomes empty) on every path."""
    target = "geoh5py/groups/property_group.py::PropertyGroup.remove_properties"
    props = ("C01", "C02", "C05")
    lenient = True
    bounded_scope = "groups of 0-3 members x removal lists of 1-3 entries mixing members and non-members (exhaustive)"

    def cases(self):
        out = []
        for n in range(0, 4):
            for req in itertools.chain.from_iterable(itertools.product(range(0, 5), repeat=k) for k in (1, 2, 3)):
                if len(set(req)) == len(req):
                    out.append((n, req))
        return out[:: 7]

    def setup(self, ctx):
        import uuid

        from geoh5py.groups import PropertyGroup

        n, req = ctx.case
        uids = [uuid.UUID(int=i + 1) for i in range(5)]
        me = Opaque("self", cls=PropertyGroup)
        props = PList([uids[i] for i in range(n)])
        me.attrs["_properties"] = props
        ws = Opaque("workspace")
        for name in ("remove_entity", "add_or_update_property_group"):
            m = Opaque(name)
            m.maybe_method = (lambda I, a, kw, _n=name: I.event(_n, target=a[0]))
            ws.attrs[name] = m
        parent = Opaque("parent")
        parent.attrs["workspace"] = ws
        me.attrs["parent"] = parent
        ctx.env.update(me=me, uids=uids, props=props)
        return [me, PList([uids[i] for i in req])], {}

    def post(self, ctx, result):
        e = ctx.env
        n, req = ctx.case
        left = e["props"].items
        for i in req:
            ctx.oblige(f"requested-member-{i}-is-no-longer-listed", e["uids"][i] not in left)
        for i in range(n):
            if i not in req:
                ctx.oblige(f"other-member-{i}-is-kept", e["uids"][i] in left)
        kinds = [k for k, p in ctx.path.events]
        if len(left) == 0 and n > 0 or (n == 0 and False):
            ctx.oblige("an-emptied-group-is-deleted", kinds == ["remove_entity"])
        elif n > 0:
            ctx.oblige("the-changed-group-is-written-back", kinds == ["add_or_update_property_group"])


class PropertyGroupAdd(Contract):
    """add_properties: only data that are children of the group's own object can become members."""
    target = "geoh5py/groups/property_group.py::PropertyGroup.add_properties"
    props = ("C02",)
    lenient = True

    def cases(self):
        return ["own-child-by-uid", "foreign-data-by-uid", "own-child-object", "foreign-data-object"]

    def setup(self, ctx):
        import uuid

        from geoh5py.data import FloatData
        from geoh5py.groups import PropertyGroup

        me = Opaque("self", cls=PropertyGroup)
        me.attrs["_properties"] = None
        own = Opaque("own-data", cls=FloatData)
        own.attrs["uid"] = uuid.UUID(int=1)
        foreign = Opaque("foreign-data", cls=FloatData)
        foreign.attrs["uid"] = uuid.UUID(int=2)
        own.distinct = foreign.distinct = True
        ws = Opaque("workspace")

        def ws_get(I, a, kw):  # the workspace knows every entity
            return PList([own if a[0] == own.attrs["uid"] else (foreign if a[0] == foreign.attrs["uid"] else None)])

        def parent_get(I, a, kw):  # the object only knows its own children
            return PList([own if a[0] == own.attrs["uid"] else None])

        g = Opaque("ws.get_entity")
        g.maybe_method = ws_get
        ws.attrs["get_entity"] = g
        w = Opaque("ws.add_or_update_property_group")
        w.maybe_method = lambda I, a, kw: I.event("write-group", group=a[0])
        ws.attrs["add_or_update_property_group"] = w
        parent = Opaque("parent")
        pg_ = Opaque("parent.get_entity")
        pg_.maybe_method = parent_get
        parent.attrs["get_entity"] = pg_
        parent.attrs["children"] = PList([own])
        parent.attrs["workspace"] = ws
        me.attrs["parent"] = parent
        arg = {"own-child-by-uid": own.attrs["uid"], "foreign-data-by-uid": foreign.attrs["uid"], "own-child-object": own, "foreign-data-object": foreign}[ctx.case]
        ctx.env.update(me=me, own=own, foreign=foreign)
        return [me, arg], {}

    def post(self, ctx, result):
        e = ctx.env
        props = e["me"].attrs.get("_properties")
        listed = [] if props is None else (props.items if isinstance(props, PList) else list(props))
        if ctx.case.startswith("own"):
            ctx.oblige("a-child-of-the-same-object-becomes-a-member", listed == [e["own"].attrs["uid"]])
        else:
            ctx.oblige("data-of-another-object-never-becomes-a-member", e["foreign"].attrs["uid"] not in listed)


class AddSaveConcatenated(Contract):
    """Saving a drillhole of a group keeps every other drillhole in the group's stored child list."""
    target = "geoh5py/shared/concatenation/concatenator.py::Concatenator.add_save_concatenated"
    props = ("C09", "C04")
    lenient = True

    def cases(self):
        return ["new-hole", "already-listed-hole", "first-hole"]

    def setup(self, ctx):
        from contracts.concat import concatenator_class
        from geoh5py.shared.concatenation.drillhole import ConcatenatedDrillhole

        me = Opaque("self", cls=concatenator_class())
        for name in ("update_concatenated_attributes", "update_array_attribute"):
            m = Opaque(name)
            m.maybe_method = (lambda I, a, kw, _n=name: I.event(_n, args=a))
            me.attrs[name] = m
        child = Opaque("hole", cls=ConcatenatedDrillhole)
        child.attrs["uid"] = __import__("uuid").UUID(int=7)
        key = ("{" + str(child.attrs["uid"]) + "}").encode()
        others = [b"{other-1}", b"{other-2}"]
        if ctx.case == "first-hole":
            me.attrs["_concatenated_object_ids"] = None
        elif ctx.case == "new-hole":
            me.attrs["_concatenated_object_ids"] = PList(list(others))
        else:
            me.attrs["_concatenated_object_ids"] = PList([others[0], key, others[1]])
        ctx.env.update(me=me, key=key, others=others)
        return [me, child], {}

    def post(self, ctx, result):
        e = ctx.env
        sets = [p for k, p in ctx.path.events if k == "setattr" and p["target"] == "self" and p["name"] in ("concatenated_object_ids", "_concatenated_object_ids")]
        ids = e["me"].attrs.get("concatenated_object_ids", e["me"].attrs.get("_concatenated_object_ids"))
        listed = ids.items if isinstance(ids, PList) else (list(ids) if ids is not None else [])
        ctx.oblige("the-saved-hole-is-listed-exactly-once", listed.count(e["key"]) == 1)
        if ctx.case != "first-hole":
            ctx.oblige("every-other-hole-stays-listed", all(o in listed for o in e["others"]), note=f"stored child list: {listed}")


class OpenOnOpenWorkspace(Contract):
    """open() on a workspace that is already open changes nothing: same handle, same registries
    (entities obtained earlier stay registered, so their deferred changes still reach the file)."""
    target = "geoh5py/workspace/workspace.py::Workspace.open"
    variant = "already-open"
    props = ("C11", "C09", "C01")
    lenient = True

    def setup(self, ctx):
        import h5py

        from geoh5py.workspace import Workspace

        me = Opaque("self", cls=Workspace)
        h = Opaque("handle", cls=h5py.File)
        ctx.path.assume(h.truth_var())
        ctx.path.assume(~h.none_var())
        me.attrs["_geoh5"] = h
        regs = {}
        for reg in ("_data", "_objects", "_groups", "_types", "_property_groups"):
            regs[reg] = me.attrs[reg] = Opaque("live:" + reg)
        me.attrs["_io_call"] = Opaque("_io_call")
        me.attrs["_io_call"].maybe_method = lambda I, a, kw: (I.event("io"), Opaque("x"))[1]
        me.attrs["fetch_or_create_root"] = Opaque("fetch_or_create_root")
        me.attrs["fetch_or_create_root"].maybe_method = lambda I, a, kw: I.event("load-tree")
        ctx.env.update(me=me, regs=regs, h=h)
        return [me], {}

    def post(self, ctx, result):
        e = ctx.env
        me = e["me"]
        ctx.oblige("the-open-handle-is-kept", me.attrs.get("_geoh5") is e["h"])
        for reg, val in e["regs"].items():
            ctx.oblige(f"registry-{reg}-is-left-alone", me.attrs.get(reg) is val, note="entities obtained before the redundant open() are no longer registered")
        ctx.oblige("nothing-is-read-or-written", not [k for k, p in ctx.path.events if k in ("io", "load-tree")])
        ctx.oblige("returns-the-workspace", result is me)


class OpenMode(Contract):
    """open(mode): the file is opened with the requested mode, or with the mode the workspace was
    constructed with when none is requested; only a failing open falls back, and then to read-only
    (never to a wider mode than asked for)."""
    target = "geoh5py/workspace/workspace.py::Workspace.open"
    variant = "mode"
    props = ("C10", "C11")
    lenient = True

    def cases(self):
        return [(req, ctor, fails) for req in (None, "r", "r+") for ctor in ("r", "r+", "a") for fails in (False, True)]

    def setup(self, ctx):
        import h5py

        from geoh5py.workspace import Workspace

        req, ctor, fails = ctx.case
        me = Opaque("self", cls=Workspace)
        me.attrs["_geoh5"] = None
        me.attrs["_mode"] = ctor
        me.attrs["h5file"] = "/data/p.geoh5"
        me.attrs["_io_call"] = Opaque("_io_call")
        me.attrs["_io_call"].maybe_method = lambda I, a, kw: PDict({})
        me.attrs["fetch_or_create_root"] = Opaque("fetch_or_create_root")
        me.attrs["fetch_or_create_root"].maybe_method = lambda I, a, kw: None
        opened = []

        def hook(I, cls, a, kw):
            if cls is h5py.File:
                mode = a[1] if len(a) > 1 else kw.get("mode", "r")
                opened.append(mode)
                if fails and len(opened) == 1:
                    I.raise_(OSError)
                h = Opaque("handle", cls=h5py.File)
                h.attrs["mode"] = mode
                return h
            return None

        ctx.env.update(me=me, opened=opened, construct_hook=hook)
        return [me], ({} if req is None else {"mode": req})

    def post(self, ctx, result):
        req, ctor, fails = ctx.case
        opened = ctx.env["opened"]
        want = req if req is not None else ctor
        ctx.oblige("the-file-is-first-opened-with-the-requested-or-constructed-mode", bool(opened) and opened[0] == want, note=f"requested {req!r}, constructed with {ctor!r}, opened with {opened[:1]}")
        if fails:
            ctx.oblige("a-failed-open-falls-back-to-read-only-only", opened[1:] == ["r"])
        else:
            ctx.oblige("a-successful-open-is-not-repeated", len(opened) == 1)
        h = ctx.env["me"].attrs.get("_geoh5")
        ctx.oblige("the-handle-kept-is-the-one-opened-last", isinstance(h, Opaque) and h.attrs.get("mode") == (opened[-1] if opened else None))

    def post_raises(self, ctx, sig):
        ctx.oblige("open-does-not-raise-when-the-fallback-succeeds", False, kind="post-exc", note=f"{sig.exc_class.__name__}")


class OpenResetsRegistries(Contract):
    """Workspace.open starts from empty registries for all five kinds (nothing of an earlier
    session of the same object survives)."""
    target = "geoh5py/workspace/workspace.py::Workspace.open"
    props = ("C09", "C01", "C11")
    lenient = True

    def setup(self, ctx):
        from geoh5py.workspace import Workspace

        me = Opaque("self", cls=Workspace)
        me.attrs["_geoh5"] = None
        for reg in ("_data", "_objects", "_groups", "_types", "_property_groups"):
            me.attrs[reg] = Opaque("stale:" + reg)
        me.attrs["_io_call"] = Opaque("_io_call")
        me.attrs["_io_call"].maybe_method = lambda I, a, kw: Opaque("project-attributes")
        me.attrs["fetch_or_create_root"] = Opaque("fetch_or_create_root")
        me.attrs["fetch_or_create_root"].maybe_method = lambda I, a, kw: I.event("load-tree", state={k: me.attrs.get(k) for k in ("_data", "_objects", "_groups", "_types", "_property_groups")})
        ctx.env.update(me=me)
        return [me], {"mode": "r+"}

    def post(self, ctx, result):
        me = ctx.env["me"]
        loads = [p for k, p in ctx.path.events if k == "load-tree"]
        ctx.oblige("the-tree-is-loaded-once", len(loads) == 1)
        if loads:
            for reg, val in loads[0]["state"].items():
                from pyvc.values import PDict as _PD

                ctx.oblige(f"registry-{reg}-is-empty-when-the-tree-is-loaded", isinstance(val, _PD) and len(val.items) == 0)


class _AllOfKind(Contract):
    """Listing the live entities of one kind sweeps that kind's registry against that kind's own
    container of the file (a collected object is deleted from "Objects", never from another
    container) and lists the referents of that registry only."""
    props = ("C02", "C05", "C09")
    lenient = True
    registry = ""
    label = ""

    def setup(self, ctx):
        from geoh5py.workspace import Workspace

        me = Opaque("self", cls=Workspace)
        for reg in ("_data", "_objects", "_groups", "_types", "_property_groups"):
            me.attrs[reg] = Opaque("registry:" + reg)
        sweep = Opaque("remove_none_referents")
        sweep.maybe_method = lambda I, a, kw: I.event("sweep", registry=a[0], label=a[1] if len(a) > 1 else kw.get("rtype"))
        me.attrs["remove_none_referents"] = sweep
        ctx.env.update(me=me)
        return [me], {}

    def post(self, ctx, result):
        me = ctx.env["me"]
        sweeps = [p for k, p in ctx.path.events if k == "sweep"]
        ok = len(sweeps) == 1 and sweeps[0]["registry"] is me.attrs[self.registry] and sweeps[0]["label"] == self.label
        ctx.oblige("the-registry-is-swept-against-the-container-of-its-own-kind", ok,
                   note="; ".join(f"{getattr(p['registry'], 'tag', p['registry'])} swept against {p['label']!r}" for p in sweeps))


def _all_of(method, registry, label):
    return type("AllOf" + label.replace(" ", ""), (_AllOfKind,), {"target": f"geoh5py/workspace/workspace.py::Workspace.{method}", "registry": registry, "label": label, "__module__": __name__})


ALL_OF = [_all_of("_all_data", "_data", "Data"), _all_of("_all_groups", "_groups", "Groups"), _all_of("_all_objects", "_objects", "Objects"),
          _all_of("_all_types", "_types", "Types"), _all_of("_all_property_groups", "_property_groups", "PropertyGroups")]
for _k in ALL_OF:
    globals()[_k.__name__] = _k


CONTRACTS = ALL_OF + [ParentSet, PropertyGroupRemove, PropertyGroupAdd, AddSaveConcatenated, OpenResetsRegistries, OpenOnOpenWorkspace, OpenMode]


class SweepDeadEntries(Contract):
    """Workspace.remove_none_referents: every entry whose entity is gone leaves the registry and is
    removed from the flat container of its kind in the file -- except property groups, which have no
    container of their own (they are stored with their object): for them the registry alone is
    cleaned and the file is not touched; live entries stay."""
    target = "geoh5py/workspace/workspace.py::Workspace.remove_none_referents"
    props = ("C05", "C06")
    lenient = True
    bounded_scope = "registries of 0-3 entries with every pattern of live / dead (exhaustive), for each of the five kinds"

    def cases(self):
        # for types: "dead-in-use" = the type object is gone but stored records of a drillhole group still name the type
        return [(kind, pat) for kind in ("Groups", "Objects", "Data", "Types", "PropertyGroups") for n in range(0, 4)
                for pat in itertools.product((True, False) + (("dead-in-use",) if kind == "Types" else ()), repeat=n)]

    def setup(self, ctx):
        import uuid

        from geoh5py.workspace import Workspace

        kind, pat = ctx.case
        me = Opaque("self", cls=Workspace)

        def io_call(I, a, kw):
            I.event("io", fun=getattr(getattr(a[0], "func", a[0]), "__name__", str(a[0])), args=list(a[1:]), kw=dict(kw))
            return None

        ioc = Opaque("_io_call")
        ioc.maybe_method = io_call
        me.attrs["_io_call"] = ioc
        reg = {}
        keep = []
        in_use = {uuid.UUID(int=i + 1) for i, st in enumerate(pat) if st == "dead-in-use"}
        stub = Opaque("_type_in_stored_records")
        stub.maybe_method = lambda I, a, kw: (I.event("asked-whether-in-use", uid=a[0]), a[0] in in_use)[1]
        me.attrs["_type_in_stored_records"] = stub
        for i, alive in enumerate(pat):
            alive = alive is True
            target = Opaque(f"entity-{i}")
            ctx.path.assume(~target.none_var())  # a live reference yields its entity
            keep.append(target)
            ref = Opaque(f"ref-{i}")
            ref.maybe_method = (lambda I, a, kw, _t=target, _alive=alive: _t if _alive else None)
            reg[uuid.UUID(int=i + 1)] = ref
        d = PDict(reg)
        ctx.env.update(d=d, keys=list(reg), pat=pat)
        return [me, d, kind], {}

    def post(self, ctx, result):
        e = ctx.env
        kind, pat = ctx.case
        left = set(e["d"].items)
        want = {k for k, alive in zip(e["keys"], pat) if alive is True}
        ctx.oblige("exactly-the-dead-entries-leave-the-registry", left == want, note=f"left {sorted(k.int for k in left)}, expected {sorted(k.int for k in want)}")
        ios = [p for k, p in ctx.path.events if k == "io"]
        dead = [k for k, alive in zip(e["keys"], pat) if alive is False]
        kept_types = [k for k, alive in zip(e["keys"], pat) if alive == "dead-in-use"]
        ctx.oblige("a-type-still-named-by-stored-records-stays-in-the-file", not any(p["args"][:1] == [k] for p in ios for k in kept_types),
                   note="the type was deleted from the file although data that are not loaded (concatenated records) still use it: they can no longer be read")
        if kind == "PropertyGroups":
            ctx.oblige("property-groups-have-no-container-in-the-file-to-clear", not ios, note="the file has no 'PropertyGroups' container: asking the writer to delete from it fails")
        else:
            ok = len(ios) == len(dead) and all(p["fun"] == "remove_entity" and p["args"][:2] == [k, kind] and p["kw"].get("mode") == "r+" for p, k in zip(ios, dead))
            ctx.oblige("each-dead-entry-is-removed-from-its-flat-container", ok)


CONTRACTS = CONTRACTS + [SweepDeadEntries]


class TypeInStoredRecords(Contract):
    """Workspace._type_in_stored_records: a type is in use as soon as the attribute records of *any*
    live drillhole group name it (data that are not loaded exist only as those records); other
    groups, dead references and groups without records do not count."""
    target = "geoh5py/workspace/workspace.py::Workspace._type_in_stored_records"
    props = ("C05", "C09", "C04")
    lenient = True

    def cases(self):
        # per registered group: a drillhole group naming the type / a drillhole group naming other types / one without records /
        # an ordinary group / a dead reference
        kinds = ("names-it", "names-others", "no-records", "ordinary", "dead")
        return [c for n in (0, 1, 2, 3) for c in itertools.product(kinds, repeat=n)][::3] + [("names-others", "names-it"), ("no-records", "names-others", "names-it"), ("ordinary", "dead", "names-it")]

    def setup(self, ctx):
        import uuid

        from geoh5py.groups import ContainerGroup, DrillholeGroup
        from geoh5py.shared.concatenation import Concatenator
        from geoh5py.workspace import Workspace

        me = Opaque("self", cls=Workspace)
        wanted = uuid.UUID(int=77)
        conc_cls = type("ConcatenatorDrillholeGroup", (Concatenator, DrillholeGroup), {})
        reg = {}
        for i, kind in enumerate(ctx.case):
            if kind == "ordinary":
                g = Opaque(f"group-{i}", cls=ContainerGroup)
            else:
                g = Opaque(f"group-{i}", cls=conc_cls)
                recs = [PDict({"Name": "h", "Object Type ID": "{" + str(uuid.UUID(int=5)) + "}"}), PDict({"Name": "a", "Type ID": "{" + str(uuid.UUID(int=9)) + "}"})]
                if kind == "names-it":
                    recs.append(PDict({"Name": "Au", "Type ID": "{" + str(wanted) + "}"}))
                g.attrs["concatenated_attributes"] = None if kind == "no-records" else PDict({"Attributes": PList(recs)})
            ctx.path.assume(~g.none_var())
            ref = Opaque(f"ref-{i}")
            ref.maybe_method = (lambda I, a, kw, _g=g, _dead=(kind == "dead"): None if _dead else _g)
            reg[uuid.UUID(int=100 + i)] = ref
        me.attrs["_groups"] = PDict(reg)
        ctx.env.update(wanted=wanted)
        return [me, wanted], {}

    def post(self, ctx, result):
        want = "names-it" in ctx.case
        ctx.oblige("in-use-exactly-when-the-records-of-some-live-drillhole-group-name-the-type", isinstance(result, bool) and result is want,
                   note=f"groups {list(ctx.case)}: answered {result!r}")


CONTRACTS = CONTRACTS + [TypeInStoredRecords]
