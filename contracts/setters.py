"""Setter effects, checked by abstract execution of the real setter body on every path:

* write-through (C03): on every normal-return path, each write to a persistable backing field
  is followed by a `workspace.update_attribute(self, <group>)` whose group covers that field
  (order: store, then persist; coverage: the persisted group really writes that field);
* cache resets (C17/C18): derived caches are reset whenever a field they depend on is assigned.

The execution is abstract (values are opaque), so the obligations are about order, coverage and
resets -- exactly where this defect class lives -- not about the values themselves (C08).
"""
from __future__ import annotations

import importlib
import inspect

from pyvc.contracts import Contract
from pyvc.values import Opaque, PDict

# group name passed to update_attribute -> backing fields H5Writer.update_field writes for it.
# "attributes" covers every attribute of the class's _attribute_map (write_attributes walks it).
ARRAY_GROUPS = {
    "vertices": ["_vertices"], "cells": ["_cells", "_parts"], "octree_cells": ["_octree_cells"], "layers": ["_layers"], "prisms": ["_prisms"],
    "surveys": ["_surveys"], "trace": ["_trace"], "trace_depth": ["_trace_depth"], "values": ["_values"], "metadata": ["_metadata"],
    "options": ["_options"], "u_cell_delimiters": ["_u_cell_delimiters"], "v_cell_delimiters": ["_v_cell_delimiters"],
    "z_cell_delimiters": ["_z_cell_delimiters"], "color_map": ["_color_map"], "value_map": ["_value_map"], "entity_type": ["_entity_type"],
    "property_groups": ["_property_groups"], "file_name": ["_file_name"], "image": ["_image"], "tag": ["_tag"],
}


def covered_by(cls, group):
    if group == "attributes":
        amap = getattr(cls, "_attribute_map", {})
        return {"_" + a for a in amap.values()}
    return set(ARRAY_GROUPS.get(group, ["_" + group]))


def run_setup(ctx, cls, extra_attrs=None):
    me = Opaque("self", cls=cls)
    ws = Opaque("self.workspace")

    def update_attribute(I, a, kw):
        I.event("persist", entity=a[0] if a else None, group=a[1] if len(a) > 1 else kw.get("attribute"))
        if ctx.case == "the-file-refuses-the-write":
            # a closed workspace (Geoh5FileClosedError) or one opened read-only (UserWarning)
            I.raise_(UserWarning, "the file refuses the write")
        return None

    ua = Opaque("workspace.update_attribute")
    ua.maybe_method = update_attribute
    ws.attrs["update_attribute"] = ua
    me.attrs["workspace"] = ws
    for k, v in (extra_attrs or {}).items():
        me.attrs[k] = v
    ctx.env.update(me=me, ws=ws)
    return me


class SetterEffects(Contract):
    """Base: subclasses are generated per (class, attribute)."""

    lenient = True
    cls_path = ""
    attr = ""
    resets = ()  # cache fields that must be None after a successful assignment
    triggers = ()  # backing fields whose assignment makes the caches stale (default: "_" + attr)
    check_write_through = True
    persistable = None  # backing fields that must be persisted when written (None = all fields some group covers)
    coupled = ()  # other stored fields this setter legitimately rewrites (documented coupling)
    props = ("C03",)

    def real_cls(self):
        mod, _, name = self.cls_path.rpartition(".")
        return getattr(importlib.import_module(mod), name)

    def cases(self):
        return ["value", "on-cached-object"] + (["the-file-refuses-the-write"] if self.resets else [])

    def setup(self, ctx):
        cls = self.real_cls()
        me = run_setup(ctx, cls)
        if ctx.case in ("on-cached-object", "the-file-refuses-the-write"):
            for c in self.resets:
                me.attrs[c] = Opaque("cached:" + c)
                ctx.path.assume(~me.attrs[c].none_var())
        value = Opaque("value")
        ctx.path.assume(~value.none_var())  # a valid new value (None is "no assignment" in these setters)
        ctx.env.update(value=value, cls=cls)
        return [me, value], {}

    def post(self, ctx, result):
        e = ctx.env
        cls, me = e["cls"], e["me"]
        events = ctx.path.events
        writes = [(i, p["name"]) for i, (k, p) in enumerate(events) if k == "setattr" and p["target"] == "self"]
        persists = [(i, p["group"]) for i, (k, p) in enumerate(events) if k == "persist" and p["entity"] is me]
        if self.check_write_through:
            all_cov = set()
            for g in list(ARRAY_GROUPS) + ["attributes"]:
                all_cov |= covered_by(cls, g)
            must = set(self.persistable) if self.persistable is not None else all_cov
            lost = []
            for i, name in writes:
                if name not in must or name in self.resets:
                    continue
                if not any(j > i and name in covered_by(cls, g) for j, g in persists if isinstance(g, str)):
                    lost.append(name)
            ctx.oblige("every-stored-field-is-persisted-after-it-is-stored", not lost, note="not persisted after store: " + ", ".join(sorted(set(lost))))
            stored_any = any(name in must and name not in self.resets for _, name in writes)
            ctx.oblige("a-successful-assignment-stores-the-value", stored_any, note="no backing field written on a normal return")
        trig = set(self.triggers) if self.triggers else {"_" + self.attr}
        if self.resets:
            # frame: assigning one attribute leaves what the object holds for every *other* stored attribute alone
            # (derived caches named in `resets` are not stored attributes)
            every = set()
            for g in list(ARRAY_GROUPS) + ["attributes"]:
                every |= covered_by(cls, g)
            loads = {p["name"] for k, p in events if k == "setattr" and p["target"] == "self" and "fetch" in p.get("value_tag", "")}  # lazy loads inside getters
            foreign = sorted({name for _, name in writes if name not in loads and name in every and name not in trig and name not in self.resets and name not in self.coupled})
            ctx.oblige("no-other-stored-attribute-is-overwritten", not foreign, kind="frame", note=f"assigning '{self.attr}' also wrote {foreign}")
        stored_fields = [name for _, name in writes if name in trig]
        for c in self.resets:
            cur = me.attrs.get(c, "unset")
            ok = cur is None or (cur == "unset" and ctx.case != "on-cached-object") or not stored_fields
            ctx.oblige(f"derived-cache-{c}-is-reset-whenever-a-field-is-stored", ok, note=f"{c} survives an assignment that stored {sorted(set(stored_fields))}")

    def post_raises(self, ctx, sig):
        # a refused assignment is outside "a valid new value"; what is claimed: whatever the object now reports, its derived
        # caches belong to it -- a field stored before the refusal has taken its caches down with it
        ctx.oblige("refused-assignment", True, kind="post-exc")
        if ctx.case != "the-file-refuses-the-write":
            return
        me = ctx.env["me"]
        trig = set(self.triggers) if self.triggers else {"_" + self.attr}
        stored_fields = [p["name"] for k, p in ctx.path.events if k == "setattr" and p["target"] == "self" and p["name"] in trig]
        for c in self.resets:
            ctx.oblige(f"derived-cache-{c}-does-not-outlive-a-stored-field-when-the-write-is-refused", me.attrs.get(c) is None or not stored_fields, kind="post-exc",
                       note=f"{sorted(set(stored_fields))} hold the new value, the write was refused, and {c} still holds what was derived from the old value")


def make(name, target, cls_path, attr, resets=(), write_through=True, props=("C03",), persistable=None):
    return type(name, (SetterEffects,), {
        "target": target, "cls_path": cls_path, "attr": attr, "resets": tuple(resets), "check_write_through": write_through,
        "props": props, "persistable": persistable, "__module__": __name__,
    })
