"""Deductive (abstract-execution) contracts on small functions whose defects were found through bounded
stand-ins: the stand-in gives the failing input, the contract states the rule for every path."""
from __future__ import annotations

import z3

from pyvc.contracts import Contract
from pyvc.core import RaiseSig
from pyvc.values import Opaque, PDict, PList


def _ws(ctx, tag="workspace"):
    ws = Opaque(tag)
    ua = Opaque(tag + ".update_attribute")
    ua.maybe_method = lambda I, a, kw: I.event("update_attribute", entity=a[0], what=a[1] if len(a) > 1 else None, snapshot={k: v for k, v in getattr(a[0], "attrs", {}).items() if k.startswith("_")})
    ws.attrs["update_attribute"] = ua
    return ws


class FileNameSet(Contract):
    """FilenameData.file_name: a wrong type is refused before anything changes; on a stored entity the
    bytes are read (they are filed under the current name) before the new name is stored; the values
    are then written."""
    target = "geoh5py/data/filename_data.py::FilenameData.file_name.fset"
    props = ("C03", "C08")
    lenient = True

    def cases(self):
        return [(stored, kind) for stored in (True, False) for kind in ("text", "none", "number")]

    def setup(self, ctx):
        from geoh5py.data import FilenameData

        stored, kind = ctx.case
        me = Opaque("self", cls=FilenameData)
        me.attrs["_file_name"] = "old.bin"
        me.attrs["_on_file"] = stored
        me.attrs["on_file"] = stored
        me.attrs["workspace"] = _ws(ctx)
        value = {"text": "new.bin", "none": None, "number": 7}[kind]
        ctx.env.update(me=me, value=value)
        return [me, value], {}

    attr_overrides = {"values": lambda I, o: (I.event("values-read", name_at_read=o.attrs.get("_file_name")), b"bytes")[1]}

    def post(self, ctx, result):
        e = ctx.env
        stored, kind = ctx.case
        ev = ctx.path.events
        if kind == "number":
            ctx.oblige("a-file-name-of-the-wrong-type-is-refused", False, note="a number was accepted as file name")
            return
        ups = [i for i, (k, p) in enumerate(ev) if k == "update_attribute" and p["what"] == "values"]
        ctx.oblige("the-new-name-is-stored-and-the-values-written", e["me"].attrs.get("_file_name") == e["value"] and len(ups) == 1 and ev[ups[0]][1]["snapshot"].get("_file_name") == e["value"])
        if stored and kind == "text":
            reads = [i for i, (k, p) in enumerate(ev) if k == "values-read" and p["name_at_read"] == "old.bin"]
            ctx.oblige("the-stored-bytes-are-read-under-the-old-name-first", bool(reads) and bool(ups) and reads[0] < ups[0],
                       note="the name changes before the bytes filed under the old name were read: they are looked up under the new name and lost")

    def post_raises(self, ctx, sig):
        e = ctx.env
        ctx.oblige("only-a-wrong-type-is-refused", ctx.case[1] == "number" and sig.exc_class is ValueError, kind="post-exc")
        ctx.oblige("a-refused-name-changes-nothing", e["me"].attrs.get("_file_name") == "old.bin" and not [1 for k, p in ctx.path.events if k == "update_attribute"], kind="post-exc")


class ClearArrays(Contract):
    """clear_array_attributes: the cached arrays are released together with what is derived from them
    (a curve's part labels come from its cells); in-memory workspaces are left alone."""
    target = "geoh5py/shared/utils.py::clear_array_attributes"
    props = ("C07", "C12")
    lenient = True

    def cases(self):
        return ["curve-with-parts", "curve-without-parts", "points", "in-memory"]

    def setup(self, ctx):
        from io import BytesIO

        from geoh5py.objects import Curve, Points

        me = Opaque("entity", cls=Points if ctx.case == "points" else Curve)
        ws = Opaque("workspace")
        ws.attrs["h5file"] = Opaque("buffer", cls=BytesIO) if ctx.case == "in-memory" else "/data/p.geoh5"
        me.attrs["workspace"] = ws
        me.attrs["_vertices"] = Opaque("vertices")
        me.attrs["vertices"] = me.attrs["_vertices"]
        if ctx.case != "points":
            me.attrs["_cells"] = Opaque("cells")
            me.attrs["cells"] = me.attrs["_cells"]
            me.attrs["_parts"] = Opaque("parts") if ctx.case != "curve-without-parts" else None
            if me.attrs["_parts"] is not None:
                ctx.path.assume(~me.attrs["_parts"].none_var())
        ctx.env.update(me=me)
        return [me], {}

    def post(self, ctx, result):
        a = ctx.env["me"].attrs
        if ctx.case == "in-memory":
            ctx.oblige("an-in-memory-workspace-keeps-its-arrays", a.get("_vertices") is not None and a.get("_cells") is not None)
            return
        ctx.oblige("the-cached-arrays-are-released", a.get("_vertices") is None and (ctx.case == "points" or a.get("_cells") is None))
        if ctx.case != "points":
            ctx.oblige("labels-derived-from-the-cells-are-released-with-them", a.get("_parts") is None,
                       note="the cells are released but the part labels derived from them stay: the next read rebuilds the cells from the labels")


class PropertyGroupInitStub(Contract):
    """call summary of PropertyGroup(...) for create_property_group: the construction is recorded"""
    target = "geoh5py/groups/property_group.py::PropertyGroup.__init__"
    variant = "summary-for-create_property_group"
    symbolic = False
    props = ()

    def apply(self, I, args, kwargs):
        I.event("group-created", kw=dict(kwargs))
        return None


class CreatePropertyGroupMembers(Contract):
    """ObjectBase.create_property_group: a group created by the user lists data of its own object only
    (identifiers or their text); groups read from the file are taken as stored."""
    target = "geoh5py/objects/object_base.py::ObjectBase.create_property_group"
    props = ("C02",)
    lenient = True
    uses = (PropertyGroupInitStub,)

    def cases(self):
        return [(src, members) for src in ("user", "file") for members in ("own", "foreign", "own-as-text", "mixed", "none")]

    def setup(self, ctx):
        import uuid

        from geoh5py.data import FloatData
        from geoh5py.objects import Points

        src, members = ctx.case
        me = Opaque("self", cls=Points)
        kids = []
        for i in range(2):
            k = Opaque(f"data{i}", cls=FloatData)
            k.attrs["uid"] = uuid.UUID(int=i + 1)
            kids.append(k)
        me.attrs["children"] = PList(kids)
        me.attrs["_property_groups"] = None
        me.attrs["name"] = "pts"
        foreign = uuid.UUID(int=99)
        props = {"own": [kids[0].attrs["uid"]], "foreign": [foreign], "own-as-text": [str(kids[1].attrs["uid"])], "mixed": [kids[0].attrs["uid"], foreign], "none": None}[members]
        ctx.env["construct_hook"] = lambda I, cls, a, kw: (I.event("group-created", kw=dict(kw)), Opaque("new-group"))[1]
        kw = {"name": "g", "on_file": src == "file"}
        if props is not None:
            kw["properties"] = PList(props)
        return [me], kw

    def post(self, ctx, result):
        src, members = ctx.case
        made = [p for k, p in ctx.path.events if k in ("group-created", "construct")]
        if src == "user" and members in ("foreign", "mixed"):
            ctx.oblige("members-that-are-not-data-of-the-object-are-refused", False, note="a group listing another object's data was created")
            return
        ctx.oblige("the-group-is-created", len(made) >= 1)

    def post_raises(self, ctx, sig):
        src, members = ctx.case
        ctx.oblige("only-foreign-members-of-a-user-made-group-are-refused", src == "user" and members in ("foreign", "mixed") and sig.exc_class is ValueError and not [1 for k, p in ctx.path.events if k in ("group-created", "construct")], kind="post-exc")


class DrillholeClip(Contract):
    """Drillhole.copy_from_extent: the collar decides -- the hole is copied whole (no vertex mask) when
    the collar qualifies, nothing is returned otherwise."""
    target = "geoh5py/objects/drillhole.py::Drillhole.copy_from_extent"
    props = ("C13",)
    lenient = True

    def cases(self):
        return ["collar-qualifies", "collar-does-not-qualify", "box-misses-the-hole"]

    def setup(self, ctx):
        import numpy as np

        from geoh5py.objects import Drillhole

        me = Opaque("self", cls=Drillhole)
        answer = {"collar-qualifies": np.array([True]), "collar-does-not-qualify": np.array([False]), "box-misses-the-hole": None}[ctx.case]
        m = Opaque("mask_by_extent")
        m.maybe_method = lambda I, a, kw: (I.event("mask_by_extent", extent=a[0] if a else kw.get("extent"), inverse=kw.get("inverse")), answer)[1]
        me.attrs["mask_by_extent"] = m
        c = Opaque("copy")
        c.maybe_method = lambda I, a, kw: (I.event("copy", kw=dict(kw)), Opaque("the-copy"))[1]
        me.attrs["copy"] = c
        ext, inv, parent = Opaque("extent"), Opaque("inverse"), Opaque("parent")
        ctx.env.update(ext=ext, inv=inv, parent=parent)
        return [me, ext], {"parent": parent, "inverse": inv}

    def post(self, ctx, result):
        e = ctx.env
        ev = ctx.path.events
        masks = [p for k, p in ev if k == "mask_by_extent"]
        copies = [p for k, p in ev if k == "copy"]
        ctx.oblige("the-selection-uses-the-requested-box-and-inverse-flag", len(masks) == 1 and masks[0]["extent"] is e["ext"] and masks[0]["inverse"] is e["inv"])
        if ctx.case == "collar-qualifies":
            ctx.oblige("the-hole-is-copied-whole-under-the-requested-parent", len(copies) == 1 and copies[0]["kw"].get("parent") is e["parent"] and copies[0]["kw"].get("mask") is None and result is not None,
                       note="the collar's one-entry answer was handed on as a per-vertex mask (or nothing was copied)")
        else:
            ctx.oblige("nothing-is-copied-when-the-collar-does-not-qualify", not copies and result is None)


class ComponentsReadOnly(Contract):
    """BaseEMSurvey.components (a getter): the groups named by the shared metadata are looked up, never
    created; names without a group on this entity are skipped."""
    target = "geoh5py/objects/surveys/electromagnetics/base.py::BaseEMSurvey.components.fget"
    props = ("C10", "C09")
    lenient = True

    def cases(self):
        return ["own-group", "group-of-the-partner", "no-list"]

    def setup(self, ctx):
        from contracts.surveys import em_self

        me = em_self(ctx, "AirborneTEMTransmitters")
        pg = Opaque("dBdt")
        pg.attrs["properties"] = PList([])
        ctx.path.assume(~pg.none_var())
        md = {"EM Dataset": PDict({"Property groups": PList(["dBdt"])} if ctx.case != "no-list" else {})}
        me.attrs["metadata"] = PDict(md)
        me.attrs["_metadata"] = me.attrs["metadata"]
        g = Opaque("get_property_group")
        g.maybe_method = lambda I, a, kw: PList([pg if ctx.case == "own-group" else None])
        me.attrs["get_property_group"] = g
        for name in ("find_or_create_property_group", "create_property_group", "add_data_to_group"):
            w = Opaque(name)
            w.maybe_method = (lambda I, a, kw, _n=name: (I.event("created", how=_n), Opaque("made"))[1])
            me.attrs[name] = w
        ws = Opaque("workspace")
        ge = Opaque("get_entity")
        ge.maybe_method = lambda I, a, kw: PList([Opaque("data")])
        ws.attrs["get_entity"] = ge
        me.attrs["workspace"] = ws
        return [me], {}

    def post(self, ctx, result):
        ctx.oblige("reading-the-components-creates-nothing", not [1 for k, p in ctx.path.events if k == "created"],
                   note="a getter created a property group (written to the file; refused in a workspace opened read-only)")
        if ctx.case == "group-of-the-partner":
            ctx.oblige("a-name-without-a-group-here-is-skipped", isinstance(result, PDict) and "dBdt" not in result.items)
        if ctx.case == "no-list":
            ctx.oblige("no-list-no-components", result is None)


def _concat_data(ctx, stored, holder_of_new, old_registered=True):
    import uuid

    from geoh5py.shared.concatenation.data import ConcatenatedData

    me = Opaque("self", cls=ConcatenatedData)
    uid, other = uuid.UUID(int=7), uuid.UUID(int=8)
    table = {}
    if old_registered:
        table["Property:old"] = "{" + str(uid) + "}"
    if holder_of_new == "another":
        table["Property:new"] = "{" + str(other) + "}"
    elif holder_of_new == "itself":
        table["Property:new"] = "{" + str(uid) + "}"
    attrs = PDict(dict(table))
    conc = Opaque("concatenator")
    g = Opaque("get_concatenated_attributes")
    g.maybe_method = lambda I, a, kw: attrs
    conc.attrs["get_concatenated_attributes"] = g
    u = Opaque("update_array_attribute")
    u.maybe_method = lambda I, a, kw: I.event("update_array_attribute", name=a[1] if len(a) > 1 else None, remove=kw.get("remove", False), table=dict(attrs.items), name_now=me.attrs.get("_name"))
    conc.attrs["update_array_attribute"] = u
    parent = Opaque("hole")
    ctx.path.assume(~parent.none_var())
    parent.attrs["uid"] = uuid.UUID(int=1)
    parent.attrs["concatenator"] = conc
    ac = Opaque("hole.add_children")
    ac.maybe_method = lambda I, a, kw: I.event("add_children", table=dict(attrs.items))
    parent.attrs["add_children"] = ac
    me.attrs.update({"uid": uid, "_uid": uid, "_name": "old", "_on_file": stored, "concatenator": conc, "workspace": _ws(ctx)})
    ctx.env.update(me=me, attrs=attrs, table=dict(table), uid_text="{" + str(uid) + "}", hole=parent)
    return me, parent


class ConcatNameSet(Contract):
    """ConcatenatedData.name: the data of a drillhole are filed under their names -- a stored data takes
    its registration and its values along when renamed, and a name another data of the hole is filed
    under is refused with nothing changed (add_data refuses a second data of a name the same way)."""
    target = "geoh5py/shared/concatenation/data.py::ConcatenatedData.name.fset"
    props = ("C04", "C05", "C03")
    lenient = True
    @staticmethod
    def _values(I, o):
        I.event("values-read", name_now=o.attrs.get("_name"))
        v = Opaque("the-values")
        I.ctx.path.assume(~v.none_var())  # the data holds values
        return v

    attr_overrides = {"values": lambda I, o: ConcatNameSet._values(I, o)}

    def cases(self):
        return [(stored, holder) for stored in (True, False) for holder in ("nobody", "another", "itself")]

    def setup(self, ctx):
        stored, holder = ctx.case
        me, parent = _concat_data(ctx, stored, holder)
        me.attrs["_parent"] = parent
        me.attrs["parent"] = parent
        return [me, "new"], {}

    def post(self, ctx, result):
        e = ctx.env
        stored, holder = ctx.case
        ev = ctx.path.events
        if stored and holder == "another":
            ctx.oblige("a-name-filed-for-another-data-of-the-hole-is-refused", False, note="the other data's registration was overwritten: its values can no longer be reached")
            return
        ctx.oblige("the-name-is-set-and-written", e["me"].attrs.get("_name") == "new" and bool([1 for k, p in ev if k == "update_attribute"]))
        if stored:
            t = e["attrs"].items
            ctx.oblige("the-registration-follows-the-name", t.get("Property:new") == e["uid_text"] and "Property:old" not in t, note=f"records of the hole afterwards: {sorted(t)}")
            moves = [p for k, p in ev if k == "update_array_attribute"]
            reads = [p for k, p in ev if k == "values-read"]
            ctx.oblige("the-values-are-read-under-the-old-name-removed-there-and-filed-under-the-new",
                       bool(reads) and reads[0]["name_now"] == "old" and len(moves) == 2 and moves[0]["name"] == "old" and moves[0]["remove"] is True and moves[1]["name"] == "new" and moves[1]["name_now"] == "new",
                       note="; ".join(f"{p['name']}{' (remove)' if p['remove'] else ''}" for p in moves))
        else:
            ctx.oblige("an-unstored-data-touches-no-record", e["attrs"].items == e["table"] and not [1 for k, p in ev if k == "update_array_attribute"])

    def post_raises(self, ctx, sig):
        e = ctx.env
        stored, holder = ctx.case
        ctx.oblige("only-a-taken-name-is-refused", stored and holder == "another" and sig.exc_class is ValueError, kind="post-exc")
        ctx.oblige("a-refused-name-changes-nothing", e["me"].attrs.get("_name") == "old" and e["attrs"].items == e["table"] and not ctx.path.events, kind="post-exc", note="; ".join(k for k, p in ctx.path.events))


class ConcatParentSet(Contract):
    """ConcatenatedData.parent: the data joins the hole's children and is filed under its name in the
    hole's record; a name under which another data of the hole is filed is refused before anything
    is touched; a record already naming this data (a data read from the file) is left as it is."""
    target = "geoh5py/shared/concatenation/data.py::ConcatenatedData.parent.fset"
    props = ("C04", "C05")
    lenient = True

    def cases(self):
        return ["nobody", "another", "itself", "not-a-container"]

    def setup(self, ctx):
        me, parent = _concat_data(ctx, False, {"not-a-container": "nobody"}.get(ctx.case, ctx.case), old_registered=False)
        me.attrs["_name"] = "new"
        me.attrs["name"] = "new"
        if ctx.case == "not-a-container":
            parent = 5
        else:
            parent.attrs["concatenator"] = me.attrs["concatenator"]
        ctx.env["parent_arg"] = parent
        return [me, parent], {}

    def post(self, ctx, result):
        e = ctx.env
        if ctx.case in ("another", "not-a-container"):
            ctx.oblige("a-taken-name-or-an-unsuitable-parent-is-refused", False, note="the data joined a hole on which another data is filed under its name: removing either one de-registers the other")
            return
        joined = [p for k, p in ctx.path.events if k == "add_children"]
        ctx.oblige("the-data-joins-the-hole-and-is-filed-under-its-name", len(joined) == 1 and e["me"].attrs.get("_parent") is e["parent_arg"] and e["attrs"].items.get("Property:new") == e["uid_text"])
        ctx.oblige("other-records-are-left-alone", {k: v for k, v in e["attrs"].items.items() if k != "Property:new"} == {k: v for k, v in e["table"].items() if k != "Property:new"})

    def post_raises(self, ctx, sig):
        e = ctx.env
        ctx.oblige("only-a-taken-name-or-an-unsuitable-parent-is-refused", ctx.case in ("another", "not-a-container") and sig.exc_class is ValueError, kind="post-exc")
        ctx.oblige("a-refusal-changes-nothing", e["attrs"].items == e["table"] and not ctx.path.events and e["me"].attrs.get("_parent") is None, kind="post-exc")


class PropertyGroupMembersSet(Contract):
    """PropertyGroup.properties (setter, used once, at creation): the member list holds each data
    identifier once, in the order of first mention, whatever spelling (UUID or text) the caller used;
    anything that is not an identifier is refused; an existing list is not replaced."""
    target = "geoh5py/groups/property_group.py::PropertyGroup.properties.fset"
    props = ("C05", "C02")
    lenient = True

    def cases(self):
        return ["empty", "one", "distinct", "repeated", "repeated-as-text", "not-identifiers", "already-set", "not-a-list"]

    def setup(self, ctx):
        import uuid

        from geoh5py.groups import PropertyGroup

        a, b = uuid.UUID(int=11), uuid.UUID(int=12)
        me = Opaque("self", cls=PropertyGroup)
        me.attrs["_properties"] = PList([b]) if ctx.case == "already-set" else None
        arg = {"empty": [], "one": [a], "distinct": [a, b], "repeated": [a, a, b, a], "repeated-as-text": [a, str(a), b, "{" + str(b) + "}"], "not-identifiers": [a, 5], "already-set": [a], "not-a-list": 7}[ctx.case]
        ctx.env.update(me=me, a=a, b=b)
        return [me, PList(arg) if isinstance(arg, list) else arg], {}

    def post(self, ctx, result):
        e = ctx.env
        got = e["me"].attrs.get("_properties")
        items = None if got is None else list(getattr(got, "items", got))
        want = {"empty": [], "one": [e["a"]], "distinct": [e["a"], e["b"]], "repeated": [e["a"], e["b"]], "repeated-as-text": [e["a"], e["b"]], "not-a-list": None}.get(ctx.case, "refused")
        if want == "refused":
            ctx.oblige("an-entry-that-is-no-identifier-or-a-second-assignment-is-refused", False, note=f"accepted: {items}")
            return
        ctx.oblige("each-member-is-listed-once-in-the-order-of-first-mention", items == want,
                   note=f"members stored: {items}; a member listed twice is scrubbed once when its data is removed, and the group goes on naming removed data")

    def post_raises(self, ctx, sig):
        ctx.oblige("only-a-bad-entry-or-a-second-assignment-is-refused", (ctx.case == "not-identifiers" and sig.exc_class in (TypeError, ValueError)) or (ctx.case == "already-set" and sig.exc_class is UserWarning), kind="post-exc")


CONTRACTS = [ConcatNameSet, PropertyGroupMembersSet, ConcatParentSet, FileNameSet, ClearArrays, PropertyGroupInitStub, CreatePropertyGroupMembers, DrillholeClip, ComponentsReadOnly]


class GroupCopyStub(Contract):
    """summary of Group.copy for Concatenator.copy: the group itself (no children) is created under the
    target and handed back."""
    target = "geoh5py/groups/base.py::Group.copy"
    symbolic = False
    props = ()
    made = {}

    def apply(self, I, args, kwargs):
        I.event("group-copied", copy_children=kwargs.get("copy_children"), omit=kwargs.get("omit_list"))
        return self.made["new"]


class ConcatenatorCopy(Contract):
    """Concatenator.copy (repaired by 880bfb6): the stored records are taken over as they are -- identifiers
    included -- only into *another* workspace in which none of the recorded identifiers is in use; when one
    is in use there (a second copy), or inside the same workspace, every child is copied on its own under a
    fresh identifier.  Either way the copy's records are its own objects, never the source's."""
    target = "geoh5py/shared/concatenation/concatenator.py::Concatenator.copy"
    props = ("C06", "C12", "C04")
    lenient = True
    uses = (GroupCopyStub,)

    def cases(self):
        return ["other-workspace-identifiers-free", "other-workspace-a-hole-identifier-in-use", "other-workspace-a-log-identifier-in-use", "same-workspace"]

    def setup(self, ctx):
        import uuid

        from geoh5py.groups import DrillholeGroup

        hole_id, log_id = uuid.UUID(int=31), uuid.UUID(int=32)
        src_ws, dst_ws = Opaque("source-workspace"), Opaque("target-workspace")
        src_ws.distinct = dst_ws.distinct = True
        taken = {"other-workspace-a-hole-identifier-in-use": hole_id, "other-workspace-a-log-identifier-in-use": log_id}.get(ctx.case)
        holder = Opaque("holder")
        ctx.path.assume(holder.truth_var())
        ctx.path.assume(z3.Not(holder.none_var()))
        fe = Opaque("find_entity")

        def find(I, a, kw):
            I.event("asked-whether-in-use", uid=a[0])
            return holder if a[0] == taken else None

        fe.maybe_method = find
        dst_ws.attrs["find_entity"] = fe
        fc = Opaque("fetch_children")
        fc.maybe_method = lambda I, a, kw: I.event("holes-rebuilt-from-the-records", parent=a[0])
        dst_ws.attrs["fetch_children"] = fc
        from geoh5py.workspace import Workspace

        with Workspace() as scratch:  # the concatenating group class is generated at run time
            real_cls = type(DrillholeGroup.create(scratch))
        me = Opaque("self", cls=real_cls)
        new = Opaque("new-group", cls=real_cls)
        me.distinct = new.distinct = True
        me.attrs["workspace"] = src_ws
        new.attrs["workspace"] = src_ws if ctx.case == "same-workspace" else dst_ws
        if ctx.case == "same-workspace":
            src_ws.attrs["find_entity"] = fe
            src_ws.attrs["fetch_children"] = fc
        records = PDict({"Attributes": PList([PDict({"ID": "{" + str(hole_id) + "}", "Name": "hole"}), PDict({"ID": "{" + str(log_id) + "}", "Name": "log"})])})
        ids = PList(["{" + str(hole_id) + "}"])
        me.attrs["concatenated_attributes"] = records
        me.attrs["concatenated_object_ids"] = ids
        me.attrs["index"] = PDict({})
        hole = Opaque("hole")
        copies = []

        def copy_child(I, a, kw):
            copies.append(dict(kw))
            I.event("child-copied", parent=kw.get("parent"), omit=kw.get("omit_list"))
            return Opaque("hole-copy")

        hc = Opaque("hole.copy")
        hc.maybe_method = copy_child
        hole.attrs["copy"] = hc
        me.attrs["children"] = PList([hole])
        GroupCopyStub.made["new"] = new
        ctx.env.update(me=me, new=new, records=records, ids=ids, copies=copies, dst=dst_ws)
        return [me], {"parent": dst_ws if ctx.case != "same-workspace" else src_ws}

    def post(self, ctx, result):
        e = ctx.env
        new = e["new"]
        ev = [k for k, p in ctx.path.events]
        ctx.oblige("the-new-group-is-returned", result is new)
        took = new.attrs.get("concatenated_attributes", new.attrs.get("_concatenated_attributes"))
        took_ids = new.attrs.get("concatenated_object_ids", new.attrs.get("_concatenated_object_ids"))
        ctx.oblige("the-copy-never-holds-the-sources-own-records", took is not e["records"] and took_ids is not e["ids"], kind="frame")
        if ctx.case == "other-workspace-identifiers-free":
            ctx.oblige("free-identifiers-are-kept-the-records-are-taken-over", took is not None and "holes-rebuilt-from-the-records" in ev and not [c for c in e["copies"] if c.get("omit_list")],
                       note=f"records taken over: {took is not None}; events {ev}; child copies {e['copies']}")
        else:
            fresh = [c for c in e["copies"] if c.get("parent") is new and "_uid" in (getattr(c.get("omit_list"), "items", None) or c.get("omit_list") or [])]
            ctx.oblige("identifiers-in-use-are-not-taken-over-every-child-is-copied-under-a-fresh-one", took is None and "holes-rebuilt-from-the-records" not in ev and len(fresh) == 1,
                       note=f"records taken over: {took is not None}; children copied on their own: {len(fresh)}")

    def post_raises(self, ctx, sig):
        ctx.oblige("copying-a-drillhole-group-does-not-raise", False, kind="post-exc", note=f"{sig.exc_class.__name__} at {sig.origin}")


CONTRACTS = CONTRACTS + [GroupCopyStub, ConcatenatorCopy]
