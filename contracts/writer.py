"""Contracts on H5Writer functions used by C03/C08/C09 (abstract execution with typed cases)."""
from __future__ import annotations

import uuid

import numpy as np

from pyvc.contracts import Contract
from pyvc.values import Opaque, PDict


def handle_with_attrs(I_events_tag="attrs.create"):
    h = Opaque("entity_handle")
    attrs = Opaque("entity_handle.attrs")

    def create(I, a, kw):
        I.event("attrs.create", key=a[0] if a else kw.get("name"), value=a[1] if len(a) > 1 else kw.get("data"), dtype=kw.get("dtype", a[2] if len(a) > 2 else None))
        return None

    c = Opaque("attrs.create")
    c.maybe_method = create
    attrs.attrs["create"] = c
    h.attrs["attrs"] = attrs
    return h


class FetchHandleStub(Contract):
    """Call summary only: H5Writer.fetch_handle returns the node of the entity (its own contract
    belongs to C09); here it yields the abstract handle prepared by the caller's contract."""
    target = "geoh5py/io/h5_writer.py::H5Writer.fetch_handle"
    symbolic = False
    props = ()

    def apply(self, I, args, kwargs):
        return I.ctx.env["handle"]


VALUE_TYPES = [bool, np.int8, np.bool_, int, np.int32, np.int64, np.uint32, np.uint8, float, np.float64, np.float32, np.ndarray, str, uuid.UUID]
NARROW_OK = {bool: "int8", np.int8: "int8"}


class WriteAttributes(Contract):
    target = "geoh5py/io/h5_writer.py::H5Writer.write_attributes"
    props = ("C03", "C08")
    lenient = True
    uses = (FetchHandleStub,)
    has_native = True
    bounded_scope = "DataType.number_of_bins in {1, 127, 128, 255, 256, 300, 70000} given as int / np.int32 / np.int64, Drillhole/Grid2D scalar attributes; re-read with plain h5py"

    def cases(self):
        return [t.__name__ for t in VALUE_TYPES]

    def setup(self, ctx):
        from geoh5py.io.h5_writer import H5Writer

        t = [x for x in VALUE_TYPES if x.__name__ == ctx.case][0]
        entity = Opaque("entity")
        value = Opaque("value", cls=t)
        entity.attrs["attribute_map"] = PDict({"Some attribute": "some_attr"})
        entity.attrs["some_attr"] = value
        handle = handle_with_attrs()
        ctx.path.assume(~handle.none_var())  # the entity is stored (precondition)
        ctx.env.update(handle=handle, value=value, t=t, H5Writer=H5Writer)
        return [H5Writer, Opaque("h5file", cls=None), entity], {}

    def post(self, ctx, result):
        e = ctx.env
        t = e["t"]
        creates = [p for k, p in ctx.path.events if k == "attrs.create"]
        ctx.oblige("attribute-is-written-exactly-once", len(creates) == 1 and creates[0]["key"] == "Some attribute")
        if len(creates) != 1:
            return
        dt = creates[0]["dtype"]
        if t in NARROW_OK:
            ctx.oblige("flags-are-stored-as-int8", dt == "int8")
        elif t in (str, uuid.UUID):
            ctx.oblige("text-is-stored-with-the-string-type", dt is e["H5Writer"].str_type or dt == e["H5Writer"].str_type)
        else:
            # the stored type must be derived from the value, never a fixed narrower one
            ctx.oblige("stored-type-is-derived-from-the-value-not-narrowed", isinstance(dt, Opaque), note=f"{t.__name__} stored with fixed dtype {dt!r}")

    def native_cases(self, tier, rng):
        for v in (1, 127, 128, 255, 256, 300, 70000):
            for t in ("int", "int32", "int64"):
                yield {"bins": v, "type": t}

    def native_check(self, case):
        import os
        import tempfile

        import h5py

        from geoh5py.objects import Points
        from geoh5py.workspace import Workspace

        conv = {"int": int, "int32": np.int32, "int64": np.int64}[case["type"]]
        d = tempfile.mkdtemp()
        path = os.path.join(d, "t.geoh5")
        try:
            with Workspace.create(path) as ws:
                pts = Points.create(ws, vertices=np.zeros((2, 3)))
                dat = pts.add_data({"a": {"values": np.ones(2)}})
                dat.entity_type.number_of_bins = conv(case["bins"])
                dat.entity_type.name = "renamed"  # any later scalar assignment rewrites all attributes
                uid = dat.entity_type.uid
            with h5py.File(path, "r") as f:
                proj = f[list(f)[0]]
                node = proj["Types"]["Data types"]["{" + str(uid) + "}"]
                stored = int(node.attrs["Number of bins"])
            if stored != case["bins"]:
                return f"number_of_bins {case['bins']} ({case['type']}) stored as {stored}"
        finally:
            import shutil

            shutil.rmtree(d, ignore_errors=True)
        return None


CONTRACTS = [FetchHandleStub, WriteAttributes]
