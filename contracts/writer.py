"""Contracts on H5Writer functions used by C03/C08/C09 (abstract execution with typed cases)."""
from __future__ import annotations

import uuid

import numpy as np

from pyvc.contracts import Contract
from pyvc.values import Opaque, PDict


def handle_with_attrs(I_events_tag="attrs.create"):
    h = Opaque("entity_handle")
    attrs = Opaque("entity_handle.attrs")

    def create(I, a, kw):
        I.event("attrs.create", key=a[0] if a else kw.get("name"), value=a[1] if len(a) > 1 else kw.get("data"), dtype=kw.get("dtype", a[2] if len(a) > 2 else None))
        return None

    c = Opaque("attrs.create")
    c.maybe_method = create
    attrs.attrs["create"] = c
    h.attrs["attrs"] = attrs
    return h


class FetchHandleStub(Contract):
    """Call summary only: H5Writer.fetch_handle returns the node of the entity (its own contract
    belongs to C09); here it yields the abstract handle prepared by the caller's contract."""
    target = "geoh5py/io/h5_writer.py::H5Writer.fetch_handle"
    symbolic = False
    props = ()

    def apply(self, I, args, kwargs):
        return I.ctx.env["handle"]


VALUE_TYPES = [bool, np.int8, np.bool_, int, np.int32, np.int64, np.uint32, np.uint8, float, np.float64, np.float32, np.ndarray, str, uuid.UUID]
NARROW_OK = {bool: "int8", np.int8: "int8"}


class WriteAttributes(Contract):
    target = "geoh5py/io/h5_writer.py::H5Writer.write_attributes"
    props = ("C03", "C08")
    lenient = True
    uses = (FetchHandleStub,)
    has_native = True
    bounded_scope = "DataType.number_of_bins in {1, 127, 128, 255, 256, 300, 70000} given as int / np.int32 / np.int64, Drillhole/Grid2D scalar attributes; re-read with plain h5py"

    def cases(self):
        return [t.__name__ for t in VALUE_TYPES]

    def setup(self, ctx):
        from geoh5py.io.h5_writer import H5Writer

        t = [x for x in VALUE_TYPES if x.__name__ == ctx.case][0]
        entity = Opaque("entity")
        value = Opaque("value", cls=t)
        entity.attrs["attribute_map"] = PDict({"Some attribute": "some_attr"})
        entity.attrs["some_attr"] = value
        handle = handle_with_attrs()
        ctx.path.assume(~handle.none_var())  # the entity is stored (precondition)
        ctx.env.update(handle=handle, value=value, t=t, H5Writer=H5Writer)
        return [H5Writer, Opaque("h5file", cls=None), entity], {}

    def post(self, ctx, result):
        e = ctx.env
        t = e["t"]
        creates = [p for k, p in ctx.path.events if k == "attrs.create"]
        ctx.oblige("attribute-is-written-exactly-once", len(creates) == 1 and creates[0]["key"] == "Some attribute")
        if len(creates) != 1:
            return
        dt = creates[0]["dtype"]
        if t in NARROW_OK:
            ctx.oblige("flags-are-stored-as-int8", dt == "int8")
        elif t in (str, uuid.UUID):
            ctx.oblige("text-is-stored-with-the-string-type", dt is e["H5Writer"].str_type or dt == e["H5Writer"].str_type)
        else:
            # the stored type must be derived from the value, never a fixed narrower one
            ctx.oblige("stored-type-is-derived-from-the-value-not-narrowed", isinstance(dt, Opaque), note=f"{t.__name__} stored with fixed dtype {dt!r}")

    def native_cases(self, tier, rng):
        for v in (1, 127, 128, 255, 256, 300, 70000):
            for t in ("int", "int32", "int64"):
                yield {"bins": v, "type": t}

    def native_check(self, case):
        import os
        import tempfile

        import h5py

        from geoh5py.objects import Points
        from geoh5py.workspace import Workspace

        conv = {"int": int, "int32": np.int32, "int64": np.int64}[case["type"]]
        d = tempfile.mkdtemp()
        path = os.path.join(d, "t.geoh5")
        try:
            with Workspace.create(path) as ws:
                pts = Points.create(ws, vertices=np.zeros((2, 3)))
                dat = pts.add_data({"a": {"values": np.ones(2)}})
                dat.entity_type.number_of_bins = conv(case["bins"])
                dat.entity_type.name = "renamed"  # any later scalar assignment rewrites all attributes
                uid = dat.entity_type.uid
            with h5py.File(path, "r") as f:
                proj = f[list(f)[0]]
                node = proj["Types"]["Data types"]["{" + str(uid) + "}"]
                stored = int(node.attrs["Number of bins"])
            if stored != case["bins"]:
                return f"number_of_bins {case['bins']} ({case['type']}) stored as {stored}"
        finally:
            import shutil

            shutil.rmtree(d, ignore_errors=True)
        return None


CONTRACTS = [FetchHandleStub, WriteAttributes]


class StoredEditsNative(Contract):
    """Bounded stand-in for assignments on entities that are *already stored* (the sweep above is
    about one assignment on an abstract entity): repeated re-assignment of a data type's value map
    and colour map, and sessions that only edit scalar attributes of concatenated drillholes; after
    every assignment / session a separate reader must see what the writer holds."""
    target = "geoh5py/io/h5_writer.py::H5Writer.write_value_map"
    variant = "stored-edits"
    symbolic = False
    has_native = True
    props = ("C03",)
    bounded_scope = "an attached file renamed in a later session; part labels assigned to a stored curve; values of stored float / integer / boolean / referenced / text / file / comment data assigned again once or twice (same and later sessions); value map and colour map re-assigned 1-4 times on a stored type (same session and across sessions, fresh dictionaries and the earlier dictionary / map object edited in place); concatenated drillholes renamed / re-planned / re-costed / re-surveyed in a session that does nothing else (both format versions); a stored log of a concatenated drillhole given new values in one session and another name in a later one, before or after its values were read there"

    def native_cases(self, tier, rng):
        for n in (1, 2, 3, 4):
            for same_session in (True, False):
                yield {"kind": "value-map", "n": n, "same_session": same_session}
                yield {"kind": "color-map", "n": n, "same_session": same_session}
        for how in ("same-dict-extended", "same-dict-relabelled", "map-object-edited"):
            yield {"kind": "value-map-inplace", "how": how}
        # values assigned again (and again) on stored data of every class: the last assignment is what a reader sees
        for cls in ("float", "integer", "boolean", "referenced", "text", "file", "comments"):
            for how in ("later-session", "same-session-twice", "later-session-twice"):
                yield {"kind": "values-reassigned", "cls": cls, "how": how}
        # an attached file is given another file name, in a later session, with or without its bytes having been read
        for read_first in (False, True):
            for target in ("object", "group"):
                yield {"kind": "file-renamed", "read_first": read_first, "on": target}
        # part labels assigned to a stored curve (they are stored as cells): with and without reading anything back before the close
        for when in ("creating-session", "later-session"):
            for read_back in (False, True):
                yield {"kind": "curve-parts", "when": when, "read_back": read_back}
        for version in (2.0, 2.1):
            for read_first in (False, True):
                for text in (False, True):
                    yield {"kind": "concatenated-data-renamed", "version": version, "read_first": read_first, "text": text}
            for attrs in (["name"], ["planning", "cost"], ["name", "end_of_hole"], ["collar"], ["surveys"], ["surveys", "name"]):
                yield {"kind": "concatenated-scalars", "version": version, "attrs": attrs}
            # coordinates whose shortest text uses an exponent (very small, very large) or no decimal point
            for collar in ([1.5e-07, -3e-05, 1e17], [3e-07, 2.0, 5.0], [-0.0, 1e-10, 123456789.125]):
                yield {"kind": "concatenated-scalars", "version": version, "attrs": ["collar"], "collar": collar}

    def _concatenated_data_renamed(self, case, path):
        """a stored log of a hole in a drillhole group gets new values in one session and another name in a later one
        (with or without its values having been read in that session); a neighbour hole has a log of the same name"""
        from geoh5py.groups import DrillholeGroup
        from geoh5py.objects import Drillhole
        from geoh5py.workspace import Workspace

        depths = np.arange(7.0)
        first, second, other = np.linspace(1.0, 2.0, 7), np.linspace(10.0, 70.0, 7), np.linspace(-3.0, 3.0, 7)
        with Workspace.create(path, version=case["version"]) as ws:
            g = DrillholeGroup.create(ws, name="DH")
            for name, vals in (("A", first), ("B", other)):
                h = Drillhole.create(ws, name=name, parent=g, collar=np.r_[0.0, 0.0, 0.0], surveys=np.c_[np.r_[0.0, 50.0], np.zeros(2), -90.0 * np.ones(2)])
                h.add_data({"Au": {"depth": depths, "values": vals}})
                if case["text"]:
                    h.add_data({"lith": {"depth": depths, "values": np.array([f"{name}{i}" for i in range(7)]), "type": "text"}})
        with Workspace(path) as ws:
            ws.get_entity("A")[0].get_data("Au")[0].values = second.copy()
        with Workspace(path) as ws:
            hole = ws.get_entity("A")[0]
            for old, new in (("Au", "Gold"),) + ((("lith", "rock"),) if case["text"] else ()):
                log = hole.get_data(old)[0]
                if case["read_first"]:
                    _ = log.values
                log.name = new
        with Workspace(path, mode="r") as ws:
            hole = ws.get_entity("A")[0]
            got = hole.get_data("Gold")
            if len(got) != 1 or got[0] is None:
                return f"a stored log renamed to 'Gold': a later reader finds the logs {hole.get_data_list()} ({case})"
            v = got[0].values
            if v is None or not np.allclose(np.asarray(v, dtype=float), second):
                return f"a stored log renamed {'after' if case['read_first'] else 'before'} its values were read in that session: a later reader sees {None if v is None else np.asarray(v).tolist()} under the new name, {second.tolist()} had been assigned ({case})"
            if case["text"]:
                t = hole.get_data("rock")
                tv = None if (not t or t[0] is None) else t[0].values
                if tv is None or [str(x) for x in np.atleast_1d(tv)] != [f"A{i}" for i in range(7)]:
                    return f"a stored text log renamed to 'rock': a later reader sees {tv} ({case})"
            nb = ws.get_entity("B")[0].get_data("Au")[0].values
            if nb is None or not np.allclose(np.asarray(nb, dtype=float), other):
                return f"renaming a log of hole A changed the log of the same name on hole B: {nb} ({case})"
        return None

    def native_check(self, case):
        import os
        import shutil
        import tempfile

        d = tempfile.mkdtemp()
        try:
            return getattr(self, "_" + case["kind"].replace("-", "_"))(case, os.path.join(d, "s.geoh5"))
        finally:
            shutil.rmtree(d, ignore_errors=True)

    @staticmethod
    def _maps(path, uid):
        from geoh5py.workspace import Workspace

        with Workspace(path, mode="r") as ws:
            t = ws.get_entity(uid)[0].entity_type
            vm = None if getattr(t, "value_map", None) is None else {int(k): str(v) for k, v in t.value_map.map.items()}
            cm = None if getattr(t, "color_map", None) is None else np.asarray(t.color_map.values.tolist()).tolist()
        return vm, cm

    def _value_map(self, case, path):
        from geoh5py.objects import Points
        from geoh5py.workspace import Workspace

        with Workspace.create(path) as ws:
            p = Points.create(ws, vertices=np.zeros((4, 3)))
            dat = p.add_data({"r": {"values": np.array([1, 2, 3, 1], dtype="uint32"), "type": "referenced", "value_map": {1: "a", 2: "b", 3: "c"}}})
            uid = dat.uid
        maps = [{1: f"k{j}a", 2: f"k{j}b", 3: f"k{j}c"} for j in range(case["n"])]
        if case["same_session"]:
            with Workspace(path, mode="r+") as ws:
                for m in maps:
                    ws.get_entity(uid)[0].entity_type.value_map = dict(m)
            seen, _ = self._maps(path, uid)
            want = {0: "Unknown", **maps[-1]}
            if seen != want:
                return f"value map assigned {case['n']} times in one session: a later reader sees {seen}, the writer held {want} ({case})"
            return None
        for j, m in enumerate(maps):
            with Workspace(path, mode="r+") as ws:
                ws.get_entity(uid)[0].entity_type.value_map = dict(m)
            seen, _ = self._maps(path, uid)
            want = {0: "Unknown", **m}
            if seen != want:
                return f"value map assignment #{j + 1}: a later reader sees {seen}, the writer held {want} ({case})"
        return None

    def _value_map_inplace(self, case, path):
        """the map given earlier is edited in place by the caller and assigned again to persist it"""
        from geoh5py.objects import Points
        from geoh5py.workspace import Workspace

        with Workspace.create(path) as ws:
            p = Points.create(ws, vertices=np.zeros((4, 3)))
            dat = p.add_data({"r": {"values": np.array([1, 2, 3, 1], dtype="uint32"), "type": "referenced", "value_map": {1: "a", 2: "b", 3: "c"}}})
            uid = dat.uid
        with Workspace(path, mode="r+") as ws:
            t = ws.get_entity(uid)[0].entity_type
            m = {1: "granite", 2: "gneiss"}
            t.value_map = m
            if case["how"] == "same-dict-extended":
                m[3] = "péridotite"
                t.value_map = m
                want = {0: "Unknown", 1: "granite", 2: "gneiss", 3: "péridotite"}
            elif case["how"] == "same-dict-relabelled":
                m[2] = "orthogneiss"
                t.value_map = m
                want = {0: "Unknown", 1: "granite", 2: "orthogneiss"}
            else:
                vm = t.value_map
                vm[2] = "orthogneiss"
                t.value_map = vm
                want = {0: "Unknown", 1: "granite", 2: "orthogneiss"}
            held = {int(k): str(v) for k, v in t.value_map.map.items()}
        seen, _ = self._maps(path, uid)
        if held != want:
            return None  # the writer itself does not hold the edited map: nothing to compare
        if seen != want:
            return f"value map edited in place and assigned again: a later reader sees {seen}, the writer held {want} ({case})"
        return None

    def _color_map(self, case, path):
        from geoh5py.objects import Points
        from geoh5py.workspace import Workspace

        def cmap(j):
            return np.c_[np.linspace(0.0, 3.0, 4) + j, np.arange(4) + 10 * j, np.arange(4) * 2, np.arange(4) * 3, np.ones(4) * 255]

        with Workspace.create(path) as ws:
            p = Points.create(ws, vertices=np.zeros((4, 3)))
            dat = p.add_data({"f": {"values": np.arange(4.0)}})
            dat.entity_type.color_map = cmap(9)
            uid = dat.uid
        for j in range(case["n"]):
            with Workspace(path, mode="r+") as ws:
                t = ws.get_entity(uid)[0].entity_type
                t.color_map = cmap(j)
                if case["same_session"] and j + 1 < case["n"]:
                    t.color_map = cmap(j + 20)
                    t.color_map = cmap(j)
            _, seen = self._maps(path, uid)
            want = [list(map(float, row)) for row in cmap(j).tolist()]
            got = None if seen is None else np.asarray(seen, dtype=float)
            if got is not None and got.shape == (5, 4):
                got = got.T
            if got is None or got.shape != (4, 5) or not np.allclose(got, np.asarray(want)):
                return f"colour map assignment #{j + 1}: a later reader sees {seen}, the writer held {want} ({case})"
        return None

    def _values_reassigned(self, case, path):
        import os

        from geoh5py.objects import Points
        from geoh5py.workspace import Workspace

        cls = case["cls"]
        seq = {
            "float": [np.arange(4.0), np.arange(4.0) + 10, np.arange(4.0) - 5],
            "integer": [np.arange(4, dtype="int32"), np.arange(4, dtype="int32") + 10, np.arange(4, dtype="int32") - 5],
            "boolean": [np.array([True, False, True, False]), np.array([False, False, True, True]), np.array([True, True, True, False])],
            "referenced": [np.array([1, 2, 1, 2], dtype="uint32"), np.array([2, 2, 1, 1], dtype="uint32"), np.array([1, 1, 1, 2], dtype="uint32")],
            "text": [np.array(["a", "b", "c", "d"]), np.array(["e", "f", "g", "h"]), np.array(["i", "j", "k", "l"])],
            "file": [b"first blob", b"second, longer blob", b"3rd"],
            "comments": None,
        }[cls]
        with Workspace.create(path) as ws:
            p = Points.create(ws, name="pts", vertices=np.arange(12.0).reshape(4, 3))
            if cls == "file":
                fpath = os.path.join(os.path.dirname(path), "attachment.bin")
                with open(fpath, "wb") as fh:
                    fh.write(seq[0])
                d = p.add_file(fpath)
            elif cls == "comments":
                p.add_comment("first", "me")
                d = p.comments
            elif cls == "referenced":
                d = p.add_data({"d": {"values": seq[0], "type": "referenced", "value_map": {1: "A", 2: "B"}}})
            else:
                d = p.add_data({"d": {"values": seq[0], **({"type": cls} if cls in ("boolean", "text") else {})}})
            uid = d.uid

        def assign(ws, k):
            d = ws.get_entity(uid)[0]
            if cls == "comments":
                ws.get_entity("pts")[0].add_comment(f"comment {k}", "me")
            else:
                d.values = seq[k]

        def seen():
            with Workspace(path, mode="r") as ws:
                d = ws.get_entity(uid)[0]
                v = d.values
                if cls == "comments":
                    return [c["Text"] for c in v]
                return bytes(v) if cls == "file" else np.asarray(v).tolist()

        steps = {"later-session": [[1]], "same-session-twice": [[1, 2]], "later-session-twice": [[1], [2]]}[case["how"]]
        n_comments = 1
        for session in steps:
            with Workspace(path, mode="r+") as ws:
                for k in session:
                    assign(ws, k)
                    n_comments += 1
            last = session[-1]
            got = seen()
            want = [f"comment {j}" if j else "first" for j in range(n_comments)] if cls == "comments" else (seq[last] if cls == "file" else np.asarray(seq[last]).tolist())
            if cls == "comments":
                want = ["first"] + [f"comment {k}" for sess in steps[: steps.index(session) + 1] for k in sess]
            if got != want:
                return f"{cls} data: after assigning its values again ({case['how']}, assignment #{last}) a later reader sees {got!r}, the writer held {want!r} ({case})"
        return None

    def _file_renamed(self, case, path):
        import os

        from geoh5py.groups import ContainerGroup
        from geoh5py.objects import Points
        from geoh5py.workspace import Workspace

        blob = bytes(range(200)) * 3
        src = os.path.join(os.path.dirname(path), "attachment.bin")
        with open(src, "wb") as fh:
            fh.write(blob)
        with Workspace.create(path) as ws:
            holder = Points.create(ws, name="pts", vertices=np.zeros((2, 3))) if case["on"] == "object" else ContainerGroup.create(ws, name="grp")
            uid = holder.add_file(src).uid
        with Workspace(path, mode="r+") as ws:
            fd = ws.get_entity(uid)[0]
            if case["read_first"]:
                _ = fd.values
            fd.file_name = "renamed.bin"
        with Workspace(path, mode="r") as ws:
            fd = ws.get_entity(uid)[0]
            name, back = fd.file_name, fd.values
        if name != "renamed.bin" or back is None or bytes(back) != blob:
            return f"an attached file was given the file name 'renamed.bin'; a later reader sees the name {name!r} and {None if back is None else len(bytes(back))} of its {len(blob)} bytes ({case})"
        return None

    def _curve_parts(self, case, path):
        from geoh5py.objects import Curve
        from geoh5py.workspace import Workspace

        verts = np.c_[np.arange(6.0), np.zeros(6), np.zeros(6)]
        parts = np.array([0, 0, 1, 1, 1, 2], dtype="int32")
        want = [[0, 1], [2, 3], [3, 4]]
        ws = Workspace.create(path)
        c = Curve.create(ws, name="line", vertices=verts)
        uid = c.uid
        if case["when"] == "later-session":
            del c
            ws.close()
            ws = Workspace(path, mode="r+")
            c = ws.get_entity(uid)[0]
        c.parts = parts
        if case["read_back"]:
            live = np.asarray(c.cells).tolist()
            if sorted(map(list, live)) != want:
                ws.close()
                return f"a curve given the part labels {parts.tolist()} shows the segments {live} ({case})"
        del c
        ws.close()
        with Workspace(path, mode="r") as back:
            got = sorted(map(list, np.asarray(back.get_entity(uid)[0].cells).tolist()))
        if got != want:
            return f"part labels {parts.tolist()} were assigned to a stored curve; a later reader sees the segments {got}, expected {want} ({case})"
        return None

    def _concatenated_scalars(self, case, path):
        from geoh5py.groups import DrillholeGroup
        from geoh5py.objects import Drillhole
        from geoh5py.workspace import Workspace

        with Workspace.create(path, version=case["version"]) as ws:
            g = DrillholeGroup.create(ws, name="DH")
            for k in range(2):
                h = Drillhole.create(ws, name=f"hole_{k}", parent=g, collar=np.r_[float(k), 0.0, 0.0], surveys=np.c_[np.r_[0.0, 10.0], np.zeros(2), np.ones(2) * -90.0])
                h.add_data({"Au": {"depth": np.array([1.0, 2.0]), "values": np.arange(2.0) + k}})
        new = {"name": "hole_renamed", "planning": "Ongoing", "cost": 1234.5, "end_of_hole": 77.0, "collar": [5.0, 6.0, 7.0],
               "surveys": np.c_[np.r_[0.0, 20.0, 40.0], np.r_[10.0, 20.0, 30.0], np.r_[-80.0, -70.0, -60.0]]}
        if case.get("collar"):
            new["collar"] = [float(x) for x in case["collar"]]
        with Workspace(path, mode="r+") as ws:  # a session that only edits scalar attributes of a stored hole
            h = [c for c in ws.get_entity("DH")[0].children if c.name == "hole_1"][0]
            uid = h.uid
            for a in case["attrs"]:
                setattr(h, a, new[a])
        try:
            ws = Workspace(path, mode="r")
            h = ws.get_entity(uid)[0]
        except Exception as exc:
            return f"after assigning {({a: new[a] for a in case['attrs']})} to a stored hole the file cannot be read any more: {type(exc).__name__}: {exc} ({case})"
        with ws:
            for a in case["attrs"]:
                got = getattr(h, a)
                got = [float(got[k]) for k in ("x", "y", "z")] if a == "collar" else got
                if a == "surveys":
                    if np.shape(got) != new[a].shape or not np.allclose(np.asarray(got, dtype=float), new[a]):
                        return f"hole surveys re-assigned on a stored hole: the writer held {new[a].tolist()}, a later reader sees {np.asarray(got).tolist()} ({case})"
                    continue
                if got != new[a]:
                    return f"hole attribute {a}: the writer held {new[a]!r}, a later reader sees {got!r} ({case})"
        return None


CONTRACTS = CONTRACTS + [StoredEditsNative]
