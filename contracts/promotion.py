"""C14: promoting identifiers to entities and demoting them again (abstract execution of every path of
`uuid2entity` and `entity2uuid`; the workspace is an opaque collaborator whose lookups are logged)."""
from __future__ import annotations

import uuid

import z3

from pyvc.contracts import Contract
from pyvc.values import Opaque, PDict, PList


class Uuid2Entity(Contract):
    """uuid2entity(value, workspace): an identifier the workspace lists is answered by the entity the
    workspace finds under *that* identifier; an identifier of a property group is answered by the group
    of that identifier (not by a neighbour of the same object); an unknown identifier by None; anything
    that is not an identifier comes back as it is, without a lookup.  With `entity2uuid` (below) this
    gives the round trip: demoting what was promoted returns the identifier asked for, because the entity
    found under an identifier carries it (C06)."""
    target = "geoh5py/shared/utils.py::uuid2entity"
    props = ("C14",)
    lenient = True

    def cases(self):
        return ["listed-entity", "property-group-of-the-second-object", "unknown-identifier", "text", "number", "none"]

    def setup(self, ctx):
        from geoh5py.objects import Points

        want, other = uuid.UUID(int=11), uuid.UUID(int=12)
        ent = Opaque("the-entity", cls=Points)
        ent.attrs["uid"] = want
        ws = Opaque("workspace")
        ws.attrs["list_entities_name"] = PDict({want: "pts"} if ctx.case == "listed-entity" else {other: "someone"})
        ge = Opaque("get_entity")

        def lookup(I, a, kw):
            I.event("lookup", uid=a[0])
            return PList([ent if a[0] == want else None])

        ge.maybe_method = lookup
        ws.attrs["get_entity"] = ge
        pg_a, pg_b = Opaque("group-a"), Opaque("group-b")
        pg_a.attrs["uid"], pg_b.attrs["uid"] = other, want
        o1, o2 = Opaque("object-without-groups"), Opaque("object-with-groups")
        o1.attrs["property_groups"] = None
        o2.attrs["property_groups"] = PList([pg_a, pg_b] if ctx.case == "property-group-of-the-second-object" else [pg_a])
        ws.attrs["objects"] = PList([o1, o2])
        value = {"text": "not an identifier", "number": 5, "none": None}.get(ctx.case, want)
        ctx.env.update(ent=ent, pg_b=pg_b, value=value, want=want)
        return [value, ws], {}

    def post(self, ctx, result):
        e = ctx.env
        lookups = [p for k, p in ctx.path.events if k == "lookup"]
        if ctx.case == "listed-entity":
            ctx.oblige("a-listed-identifier-is-answered-by-the-entity-found-under-it", result is e["ent"] and len(lookups) == 1 and lookups[0]["uid"] == e["want"])
            ctx.oblige("demoting-the-answer-returns-the-identifier-asked-for", getattr(result, "attrs", {}).get("uid") == e["want"], kind="lemma")
        elif ctx.case == "property-group-of-the-second-object":
            ctx.oblige("a-property-group-identifier-is-answered-by-the-group-carrying-it", result is e["pg_b"])
            ctx.oblige("demoting-the-answer-returns-the-identifier-asked-for", getattr(result, "attrs", {}).get("uid") == e["want"], kind="lemma")
        elif ctx.case == "unknown-identifier":
            ctx.oblige("an-unknown-identifier-is-answered-by-None", result is None)
        else:
            ctx.oblige("a-value-that-is-not-an-identifier-comes-back-as-it-is", (result is e["value"] or result == e["value"]) and not lookups)

    def post_raises(self, ctx, sig):
        ctx.oblige("promotion-does-not-raise", False, kind="post-exc", note=f"{sig.exc_class.__name__} at {sig.origin}")


class Entity2Uuid(Contract):
    """entity2uuid(value): whatever carries an identifier is answered by it; everything else as it is."""
    target = "geoh5py/shared/utils.py::entity2uuid"
    props = ("C14",)
    lenient = True

    def cases(self):
        return ["entity", "text", "number", "none", "identifier"]

    def setup(self, ctx):
        from geoh5py.objects import Points

        ent = Opaque("the-entity", cls=Points)
        ent.attrs["uid"] = uuid.UUID(int=11)
        value = {"entity": ent, "text": "abc", "number": 2.5, "none": None, "identifier": uuid.UUID(int=11)}[ctx.case]
        ctx.env.update(value=value)
        return [value], {}

    def post(self, ctx, result):
        v = ctx.env["value"]
        if ctx.case == "entity":
            ctx.oblige("an-entity-is-answered-by-its-identifier", result == uuid.UUID(int=11))
        else:
            ctx.oblige("anything-else-comes-back-as-it-is", result is v or result == v)

    def post_raises(self, ctx, sig):
        ctx.oblige("demotion-does-not-raise", False, kind="post-exc", note=f"{sig.exc_class.__name__} at {sig.origin}")


CONTRACTS = [Uuid2Entity, Entity2Uuid]


class Demote(Contract):
    """InputFile.demote on a nested dictionary: every entity (top level, inside a list, inside a nested
    form) is replaced by the braced text of its identifier, a container group by its name, every other
    value is kept; the result is a new dictionary and the caller's dictionary -- InputFile.data while a
    file is written -- still holds the entities."""
    target = "geoh5py/ui_json/input_file.py::InputFile.demote"
    props = ("C14",)
    lenient = True

    def setup(self, ctx):
        from geoh5py.groups import ContainerGroup
        from geoh5py.objects import Points
        from geoh5py.ui_json import InputFile

        a, b = Opaque("entity-a", cls=Points), Opaque("entity-b", cls=Points)
        a.attrs["uid"], b.attrs["uid"] = uuid.UUID(int=21), uuid.UUID(int=22)
        grp = Opaque("out-group", cls=ContainerGroup)
        grp.attrs["uid"] = uuid.UUID(int=23)
        grp.attrs["name"] = "results"
        inner = PDict({"value": b, "label": "Object", "enabled": True})
        lst = PList([a, 3, b])
        var = PDict({"objects": a, "several": lst, "form": inner, "count": 5, "title": "run", "nothing": None, "ident": uuid.UUID(int=24)})
        ctx.env.update(a=a, b=b, var=var, inner=inner, lst=lst, before=dict(var.items), inner_before=dict(inner.items), lst_before=list(lst.items))
        return [InputFile, var], {}

    @staticmethod
    def _plain(v):
        if isinstance(v, PDict):
            return {k: Demote._plain(x) for k, x in v.items.items()}
        if isinstance(v, PList):
            return [Demote._plain(x) for x in v.items]
        if isinstance(v, (list, tuple)):
            return [Demote._plain(x) for x in v]
        if isinstance(v, dict):
            return {k: Demote._plain(x) for k, x in v.items()}
        return v

    def post(self, ctx, result):
        e = ctx.env
        br = lambda n: "{" + str(uuid.UUID(int=n)) + "}"  # noqa: E731
        want = {"objects": br(21), "several": [br(21), 3, br(22)], "form": {"value": br(22), "label": "Object", "enabled": True}, "count": 5, "title": "run", "nothing": None, "ident": br(24)}
        got = self._plain(result)
        ctx.oblige("every-entity-is-replaced-by-its-identifier-text-everything-else-kept", got == want, note=f"demoted to {got}")
        ctx.oblige("the-result-is-a-new-dictionary", result is not e["var"])
        same = dict(e["var"].items) == e["before"] and all(e["var"].items[k] is e["before"][k] for k in e["before"]) and dict(e["inner"].items) == e["inner_before"] and list(e["lst"].items) == e["lst_before"]
        ctx.oblige("the-callers-dictionary-still-holds-the-entities", same, kind="frame", note=f"the caller's dictionary now reads {self._plain(e['var'])}")

    def post_raises(self, ctx, sig):
        ctx.oblige("demotion-does-not-raise", False, kind="post-exc", note=f"{sig.exc_class.__name__} at {sig.origin}")


CONTRACTS = CONTRACTS + [Demote]


class Promote(Contract):
    """InputFile.promote with a workspace attached: every identifier (top level, inside a list, inside a
    nested form) is replaced by the entity the workspace finds under it, every other value is kept, and
    demoting the result (the contract above) gives back exactly the identifiers that were promoted."""
    target = "geoh5py/ui_json/input_file.py::InputFile.promote"
    props = ("C14",)
    lenient = True

    def cases(self):
        return ["workspace-attached", "no-workspace"]

    def setup(self, ctx):
        from geoh5py.objects import Points
        from geoh5py.ui_json import InputFile

        ua, ub = uuid.UUID(int=21), uuid.UUID(int=22)
        a, b = Opaque("entity-a", cls=Points), Opaque("entity-b", cls=Points)
        a.attrs["uid"], b.attrs["uid"] = ua, ub
        ws = Opaque("workspace")
        ws.attrs["list_entities_name"] = PDict({ua: "a", ub: "b"})
        ge = Opaque("get_entity")
        ge.maybe_method = lambda I, args, kw: PList([{ua: a, ub: b}.get(args[0])])
        ws.attrs["get_entity"] = ge
        ws.attrs["objects"] = PList([])
        ctx.path.assume(z3.Not(ws.none_var()))
        me = Opaque("self", cls=InputFile)
        me.attrs["_geoh5"] = ws if ctx.case == "workspace-attached" else None
        me.attrs["validate"] = False
        var = PDict({"objects": ua, "several": PList([ua, 3, ub]), "form": PDict({"value": ub, "label": "Object"}), "count": 5, "title": "run", "nothing": None})
        ctx.env.update(a=a, b=b, ua=ua, ub=ub, var=var)
        return [me, var], {}

    def post(self, ctx, result):
        e = ctx.env
        got = Demote._plain(result)
        if ctx.case == "no-workspace":
            ctx.oblige("without-a-workspace-nothing-is-promoted", got == {"objects": e["ua"], "several": [e["ua"], 3, e["ub"]], "form": {"value": e["ub"], "label": "Object"}, "count": 5, "title": "run", "nothing": None})
            return
        a, b = e["a"], e["b"]
        ok = (isinstance(got, dict) and got.get("objects") is a and isinstance(got.get("several"), list) and len(got["several"]) == 3 and got["several"][0] is a and got["several"][1] == 3
              and got["several"][2] is b and isinstance(got.get("form"), dict) and got["form"].get("value") is b and got["form"].get("label") == "Object"
              and got.get("count") == 5 and got.get("title") == "run" and got.get("nothing") is None and set(got) == {"objects", "several", "form", "count", "title", "nothing"})
        ctx.oblige("every-identifier-is-replaced-by-the-entity-found-under-it-everything-else-kept", ok, note=f"promoted to {got}")

        def back(v):
            if isinstance(v, dict):
                return {k: back(x) for k, x in v.items()}
            if isinstance(v, list):
                return [back(x) for x in v]
            return getattr(v, "attrs", {}).get("uid", v) if isinstance(v, Opaque) else v

        ctx.oblige("demoting-the-promoted-dictionary-returns-the-identifiers", back(got) == {"objects": e["ua"], "several": [e["ua"], 3, e["ub"]], "form": {"value": e["ub"], "label": "Object"}, "count": 5, "title": "run", "nothing": None}, kind="lemma")

    def post_raises(self, ctx, sig):
        ctx.oblige("promotion-does-not-raise", False, kind="post-exc", note=f"{sig.exc_class.__name__} at {sig.origin}")


CONTRACTS = CONTRACTS + [Promote]
