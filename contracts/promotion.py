"""C14: promoting identifiers to entities and demoting them again (abstract execution of every path of
`uuid2entity` and `entity2uuid`; the workspace is an opaque collaborator whose lookups are logged)."""
from __future__ import annotations

import uuid

from pyvc.contracts import Contract
from pyvc.values import Opaque, PDict, PList


class Uuid2Entity(Contract):
    """uuid2entity(value, workspace): an identifier the workspace lists is answered by the entity the
    workspace finds under *that* identifier; an identifier of a property group is answered by the group
    of that identifier (not by a neighbour of the same object); an unknown identifier by None; anything
    that is not an identifier comes back as it is, without a lookup.  With `entity2uuid` (below) this
    gives the round trip: demoting what was promoted returns the identifier asked for, because the entity
    found under an identifier carries it (C06)."""
    target = "geoh5py/shared/utils.py::uuid2entity"
    props = ("C14",)
    lenient = True

    def cases(self):
        return ["listed-entity", "property-group-of-the-second-object", "unknown-identifier", "text", "number", "none"]

    def setup(self, ctx):
        from geoh5py.objects import Points

        want, other = uuid.UUID(int=11), uuid.UUID(int=12)
        ent = Opaque("the-entity", cls=Points)
        ent.attrs["uid"] = want
        ws = Opaque("workspace")
        ws.attrs["list_entities_name"] = PDict({want: "pts"} if ctx.case == "listed-entity" else {other: "someone"})
        ge = Opaque("get_entity")

        def lookup(I, a, kw):
            I.event("lookup", uid=a[0])
            return PList([ent if a[0] == want else None])

        ge.maybe_method = lookup
        ws.attrs["get_entity"] = ge
        pg_a, pg_b = Opaque("group-a"), Opaque("group-b")
        pg_a.attrs["uid"], pg_b.attrs["uid"] = other, want
        o1, o2 = Opaque("object-without-groups"), Opaque("object-with-groups")
        o1.attrs["property_groups"] = None
        o2.attrs["property_groups"] = PList([pg_a, pg_b] if ctx.case == "property-group-of-the-second-object" else [pg_a])
        ws.attrs["objects"] = PList([o1, o2])
        value = {"text": "not an identifier", "number": 5, "none": None}.get(ctx.case, want)
        ctx.env.update(ent=ent, pg_b=pg_b, value=value, want=want)
        return [value, ws], {}

    def post(self, ctx, result):
        e = ctx.env
        lookups = [p for k, p in ctx.path.events if k == "lookup"]
        if ctx.case == "listed-entity":
            ctx.oblige("a-listed-identifier-is-answered-by-the-entity-found-under-it", result is e["ent"] and len(lookups) == 1 and lookups[0]["uid"] == e["want"])
            ctx.oblige("demoting-the-answer-returns-the-identifier-asked-for", getattr(result, "attrs", {}).get("uid") == e["want"], kind="lemma")
        elif ctx.case == "property-group-of-the-second-object":
            ctx.oblige("a-property-group-identifier-is-answered-by-the-group-carrying-it", result is e["pg_b"])
            ctx.oblige("demoting-the-answer-returns-the-identifier-asked-for", getattr(result, "attrs", {}).get("uid") == e["want"], kind="lemma")
        elif ctx.case == "unknown-identifier":
            ctx.oblige("an-unknown-identifier-is-answered-by-None", result is None)
        else:
            ctx.oblige("a-value-that-is-not-an-identifier-comes-back-as-it-is", (result is e["value"] or result == e["value"]) and not lookups)

    def post_raises(self, ctx, sig):
        ctx.oblige("promotion-does-not-raise", False, kind="post-exc", note=f"{sig.exc_class.__name__} at {sig.origin}")


class Entity2Uuid(Contract):
    """entity2uuid(value): whatever carries an identifier is answered by it; everything else as it is."""
    target = "geoh5py/shared/utils.py::entity2uuid"
    props = ("C14",)
    lenient = True

    def cases(self):
        return ["entity", "text", "number", "none", "identifier"]

    def setup(self, ctx):
        from geoh5py.objects import Points

        ent = Opaque("the-entity", cls=Points)
        ent.attrs["uid"] = uuid.UUID(int=11)
        value = {"entity": ent, "text": "abc", "number": 2.5, "none": None, "identifier": uuid.UUID(int=11)}[ctx.case]
        ctx.env.update(value=value)
        return [value], {}

    def post(self, ctx, result):
        v = ctx.env["value"]
        if ctx.case == "entity":
            ctx.oblige("an-entity-is-answered-by-its-identifier", result == uuid.UUID(int=11))
        else:
            ctx.oblige("anything-else-comes-back-as-it-is", result is v or result == v)

    def post_raises(self, ctx, sig):
        ctx.oblige("demotion-does-not-raise", False, kind="post-exc", note=f"{sig.exc_class.__name__} at {sig.origin}")


CONTRACTS = [Uuid2Entity, Entity2Uuid]
