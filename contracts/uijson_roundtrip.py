"""C14: ui.json values round-trip through the write mappers and the read mappers."""
from __future__ import annotations

import itertools
import json
import os
from copy import deepcopy
import shutil
import tempfile
import uuid

import numpy as np
import z3

from pyvc.contracts import Contract
from pyvc.core import fresh_name
from pyvc.values import DynV, SV, dyn_sort, mk, sym, to_z3, zbool

VALUE_CASES = ["none", "bool", "int", "real", "+inf", "-inf", "str", "uid"]


def sym_value(ctx, case):
    if case == "none":
        return None
    if case == "bool":
        return sym("v", "bool")
    if case == "int":
        return sym("v", "int")
    if case == "real":
        return sym("v", "real")
    if case == "+inf":
        return float("inf")
    if case == "-inf":
        return float("-inf")
    if case == "str":
        return sym("v", "str")
    return sym("v", "uid")


def same(I, a, b):
    if isinstance(a, float) or isinstance(b, float):
        return type(a) is type(b) and a == b
    if a is None or b is None:
        return a is None and b is None
    return I.eq(a, b)


class _RoundTrip(Contract):
    """write-mapper then read-mapper gives the value back (the exception set is stated)."""
    props = ("C14",)
    reader = ""

    def cases(self):
        return VALUE_CASES

    def setup(self, ctx):
        v = sym_value(ctx, ctx.case)
        ctx.env["v"] = v
        self.extra_pre(ctx, v)
        return [v], {}

    def extra_pre(self, ctx, v):
        pass

    def post(self, ctx, result):
        from pyvc import reflect

        reader, _ = reflect.resolve(self.reader)
        back = ctx.I.call_function(reader, [result], {})
        ctx.oblige("reading-back-what-was-written-gives-the-value", same(ctx.I, back, ctx.env["v"]))


class InfRoundTrip(_RoundTrip):
    target = "geoh5py/shared/utils.py::inf2str"
    reader = "geoh5py/ui_json/utils.py::str2inf"

    def cases(self):
        return VALUE_CASES + ["+inf-numpy", "-inf-numpy"]

    def setup(self, ctx):
        if ctx.case.endswith("-numpy"):
            import numpy as np

            v = np.float64("inf") if ctx.case.startswith("+") else np.float64("-inf")  # what np.log(0.0), x.min() etc. hand back
            ctx.env["v"] = v
            return [v], {}
        return super().setup(ctx)

    def extra_pre(self, ctx, v):
        # a string that itself reads as an infinity is the documented exception
        if isinstance(v, SV) and v.k == "str":
            ctx.assume(z3.And(v.e != to_z3("inf"), v.e != to_z3("-inf")))

    def post(self, ctx, result):
        if "inf" in ctx.case:
            # JSON has no literal for infinities: whatever float type carries one, it is written as text
            ctx.oblige("an-infinity-is-written-as-text", bool(isinstance(result, str) and result == ("inf" if ctx.case.startswith("+") else "-inf")),
                       note=f"inf2str({ctx.env['v']!r} of type {type(ctx.env['v']).__name__}) returned {result!r}")
            back = ctx.I.call_function(__import__("pyvc.reflect", fromlist=["x"]).resolve(self.reader)[0], [result], {})
            ctx.oblige("reading-back-what-was-written-gives-the-value", bool(isinstance(back, float) and back == float(ctx.env["v"])))
            return
        super().post(ctx, result)


class NoneRoundTrip(_RoundTrip):
    target = "geoh5py/shared/utils.py::none2str"
    reader = "geoh5py/shared/utils.py::str2none"

    def extra_pre(self, ctx, v):
        if isinstance(v, SV) and v.k == "str":
            ctx.assume(v.e != to_z3(""))  # the empty string is how None is written


class UuidRoundTrip(_RoundTrip):
    target = "geoh5py/shared/utils.py::as_str_if_uuid"
    reader = "geoh5py/shared/utils.py::str2uuid"

    def cases(self):
        # numbers are left out: str2uuid tests UUID(str(value)), so a number whose decimal text happens
        # to be 32 hex digits is read as an identifier -- part of the stated exception set
        # ("a value whose text is uuid-shaped"), like uuid-shaped strings
        return ["none", "uid"]

    def post(self, ctx, result):
        if ctx.case != "uid":
            return super().post(ctx, result)
        # uid: written as "{" + str(uid) + "}"; UUID(...) parses exactly the strings str(uuid) produces
        from pyvc.models_py import _str_of_uid

        v = ctx.env["v"]
        ok = z3.Function("is_uuid_str", z3.IntSort(), z3.BoolSort())
        parse = z3.Function("uid_of_str", z3.IntSort(), z3.IntSort())
        ctx.oblige("a-uid-is-written-as-text", isinstance(result, SV) and result.k == "str")
        ctx.assume(z3.And(ok(to_z3(result)), parse(to_z3(result)) == v.e))  # T-py: UUID('{'+str(u)+'}') == u (audited natively)
        super().post(ctx, result)


# ------------------------------------------------------------------------------------------
# bounded stand-in: template forms x values through write_ui_json / read_ui_json on disk
# ------------------------------------------------------------------------------------------


class InputFileRoundTrip(Contract):
    target = "geoh5py/ui_json/input_file.py::InputFile.write_ui_json"
    variant = "round-trip"
    symbolic = False
    has_native = True
    props = ("C14",)
    bounded_scope = "template forms (bool, integer, float incl. +-inf, string, choice, object, data, data-or-value, optional/disabled variants; in a scenario of their own: multi-choice, file, group, drillhole-group data with the template defaults and optional variants, range with and without complement; an enabled optional group with an opted-out optional member, flags compared before and after the values are read; a parameter switched off and on again through its dependency (both dependency types); two optional groups in every combination of states) x value corpus x {default options, update_enabled=False}; written, read back, values and enabled states compared; promote/demote of uids on a real workspace; file names with dots in the stem; values assigned to members of optional groups (switch optional or not, before or after its members); values changed through set_data_value or by assigning the data dictionary back (with and without validation; data-or-value forms switched between number and channel)"

    def native_cases(self, tier, rng):
        for opts in ({}, {"update_enabled": False}):
            for touch_data in (False, True):
                for name in ("t.ui.json", "inversion_v1.2.ui.json"):
                    yield {"options": opts, "touch_data": touch_data, "name": name}
        # an enabled optional group one of whose members is itself optional and opted out: every flag reads back as written
        for opts in ({}, {"update_enabled": False}):
            for switch_first in (True, False):
                for touch in ("data-then-flags", "flags-only"):
                    yield {"kind": "opted-out-member", "options": opts, "switch_first": switch_first, "touch": touch, "name": "optout.ui.json"}
        # a parameter switched through its dependency (not optional itself), and two optional groups in different states
        for dtype in ("enabled", "disabled", "default"):
            for how in ("data-setter", "in-place"):
                if dtype in ("enabled", "default") and how == "data-setter":
                    continue  # the validated setter refuses None for the (enabled, optional) switch itself: C15's subject
                yield {"kind": "dependency", "dependency_type": dtype, "how": how, "name": "dep.ui.json"}
        for states in ((True, False), (False, True), (False, False), (True, True)):
            yield {"kind": "two-groups", "states": list(states), "name": "two groups.ui.json"}
        # the remaining template forms: multi-choice, file, group, drillhole-group data (template defaults and optional variants), range
        for opts in ({}, {"update_enabled": False}):
            for validate in (True, False):
                yield {"kind": "more-forms", "options": opts, "validate": validate, "name": "more.ui.json"}
        for how in ("set_data_value", "data-assigned-back"):
            for validate in (True, False):
                yield {"kind": "edits", "how": how, "validate": validate, "name": "edits.ui.json"}
        for obj in (0, 1, 2):
            for grp in (0, 1):
                for validate in (True, False):
                    yield {"kind": "property-groups", "object": obj, "group": grp, "validate": validate}
        # values assigned to the members of optional groups (switch itself optional or not, listed before or after its members)
        for switch_optional in (True, False):
            for switch_first in (True, False):
                # the switch is always given a value too: members of a group whose switch stays disabled are
                # disabled parameters and read back as None by the format's own rule
                for assign_switch in (True,):
                    yield {"kind": "groups", "switch_optional": switch_optional, "switch_first": switch_first, "assign_switch": assign_switch, "name": "groups v2.1.ui.json"}

    def _more_forms(self, case):
        """multi-choice, file, group, drillhole-group data and range forms straight from the templates"""
        from geoh5py.groups import ContainerGroup, DrillholeGroup
        from geoh5py.objects import Drillhole, Points
        from geoh5py.ui_json import InputFile, templates
        from geoh5py.ui_json.constants import default_ui_json
        from geoh5py.workspace import Workspace

        d = tempfile.mkdtemp()
        try:
            path = os.path.join(d, "w.geoh5")
            side = os.path.join(d, "side.txt")
            open(side, "w").write("x")
            with Workspace.create(path) as ws:
                pts = Points.create(ws, vertices=np.zeros((3, 3)), name="pts")
                dat = pts.add_data({"d": {"values": np.arange(3.0)}})
                grp = ContainerGroup.create(ws, name="holder")
                dg = DrillholeGroup.create(ws, name="campaign")
                hole = Drillhole.create(ws, parent=dg, name="h1", collar=[0.0, 0.0, 0.0])
                hole.add_data({"Au": {"depth": np.arange(4.0), "values": np.arange(4.0)}, "Cu": {"depth": np.arange(4.0), "values": np.arange(4.0) * 2}})
                ui = dict(default_ui_json)
                ui["geoh5"] = ws
                ui["multi"] = templates.choice_string_parameter(choice_list=("a", "b", "c"), multi_select=True, value=["a", "c"])
                ui["file"] = templates.file_parameter(file_description=("text",), file_type=("txt",), value=side)
                ui["group"] = templates.group_parameter(value=str(grp.uid))
                ui["group_off"] = templates.group_parameter(optional="disabled")
                ui["dh"] = templates.drillhole_group_data(value=["Au", "Cu"], group_value=dg.uid)
                ui["dh_opt"] = templates.drillhole_group_data(value=["Cu"], group_value=dg.uid, optional="enabled")
                ui["dh_off"] = templates.drillhole_group_data(group_value=dg.uid, optional="disabled")
                # a hole of a drillhole group as the object, one of its depth logs as the data
                ui["hole"] = templates.object_parameter(value=str(hole.uid), mesh_type=[str(Drillhole.default_type_uid())])
                ui["hole_data"] = templates.data_parameter(parent="hole", value=str(hole.get_data("Au")[0].uid), association="Vertex")
                ui["o"] = templates.object_parameter(value=str(pts.uid))
                ui["range"] = templates.range_label_template(parent="o", property_=str(dat.uid), value=[0.5, 1.5])
                ui["range_inv"] = templates.range_label_template(parent="o", property_=str(dat.uid), value=[0.0, 2.0], allow_complement=True, is_complement=True, optional="enabled")
                try:
                    ifile = InputFile(ui_json=ui, validate=case["validate"], validation_options=dict(case["options"]) or None)
                    before = {k: ({m: v[m] for m in ("value", "groupValue", "property", "isComplement", "enabled") if m in v}) for k, v in ifile.ui_json.items() if isinstance(v, dict)}
                    ifile.write_ui_json(name=case["name"], path=d)
                except Exception as exc:
                    return f"forms built from the templates could not be written: {type(exc).__name__}: {exc} ({case})"
            try:
                back = InputFile.read_ui_json(os.path.join(d, case["name"]), validate=case["validate"])
            except Exception as exc:
                return f"reading back the file that was just written fails: {type(exc).__name__}: {exc} ({case})"
            try:
                def plain(v):
                    if hasattr(v, "uid"):
                        v = v.uid
                    if isinstance(v, uuid.UUID):
                        return str(v)
                    if isinstance(v, str):
                        try:
                            return str(uuid.UUID(v)) if len(v) >= 32 else v
                        except ValueError:
                            return v
                    if isinstance(v, (list, tuple)):
                        return [plain(x) for x in v]
                    return v

                for k, members in before.items():
                    for m, v in members.items():
                        v2 = back.ui_json[k].get(m)
                        if m == "enabled":
                            if not case["options"] and members.get("value") is None:
                                continue  # default options tie "enabled" to "has a value"
                            if bool(v) != bool(v2):
                                return f"enabled state of '{k}': {v} before writing, {v2} after reading back ({case})"
                            continue
                        if plain(v) != plain(v2) and not (v is None and v2 in (None, "")):
                            return f"'{k}'.{m}: wrote {plain(v)!r}, read back {plain(v2)!r} ({case})"
            finally:
                if back.geoh5 is not None:
                    try:
                        back.geoh5.close()
                    except Exception:
                        pass
        finally:
            shutil.rmtree(d, ignore_errors=True)
        return None

    def _property_groups(self, case):
        """data forms that select a property group of their object: several objects carry groups (in any order of
        creation); whichever object and group are chosen, the pair reads back"""
        from geoh5py.objects import Points
        from geoh5py.ui_json import InputFile, templates
        from geoh5py.ui_json.constants import default_ui_json
        from geoh5py.workspace import Workspace

        d = tempfile.mkdtemp()
        try:
            path = os.path.join(d, "w.geoh5")
            with Workspace.create(path) as ws:
                objs = []
                for k in range(3):
                    o = Points.create(ws, vertices=np.zeros((3, 3)) + k, name=f"pts{k}")
                    a = o.add_data({f"a{k}": {"values": np.arange(3.0)}, f"b{k}": {"values": np.arange(3.0) + 1}})
                    o.add_data_to_group(a, f"group{k}")
                    if k == 1:
                        o.add_data_to_group(a[:1], "second group of the same object")
                    objs.append(o)
                o = objs[case["object"]]
                pg = o.property_groups[case["group"] % len(o.property_groups)]
                ui = dict(default_ui_json)
                ui["geoh5"] = ws
                ui["obj"] = templates.object_parameter(value=str(o.uid))
                ui["grp"] = templates.data_parameter(parent="obj", value=str(pg.uid), data_group_type="Multi-element")
                try:
                    ifile = InputFile(ui_json=ui, validate=case["validate"])
                    ifile.write_ui_json(name="pg.ui.json", path=d)
                except Exception as exc:
                    return f"a form selecting property group '{pg.name}' of '{o.name}' could not be written: {type(exc).__name__}: {exc} ({case})"
                want = (o.uid, pg.uid)
            try:
                back = InputFile.read_ui_json(os.path.join(d, "pg.ui.json"), validate=case["validate"])
                data = back.data
                got = (getattr(data["obj"], "uid", data["obj"]), getattr(data["grp"], "uid", data["grp"]))
                back.geoh5.close()
            except Exception as exc:
                return f"a form selecting property group '{pg.name}' of '{o.name}' was written but cannot be read back: {type(exc).__name__}: {exc} ({case})"
            if got != want:
                return f"object / property group written as {want} read back as {got} ({case})"
            return None
        finally:
            shutil.rmtree(d, ignore_errors=True)

    def _edits(self, case):
        """values changed after the InputFile was built (set_data_value, or the data dictionary
        assigned back), then written and read: what is read is what the InputFile held"""
        from geoh5py.objects import Points
        from geoh5py.ui_json import InputFile, templates
        from geoh5py.ui_json.constants import default_ui_json
        from geoh5py.workspace import Workspace

        def comparable(v):
            return getattr(v, "uid", v)

        d = tempfile.mkdtemp()
        try:
            with Workspace.create(os.path.join(d, "e.geoh5")) as ws:
                pts = Points.create(ws, vertices=np.zeros((4, 3)), name="pts")
                ca = pts.add_data({"chan_a": {"values": np.arange(4.0)}})
                cb = pts.add_data({"chan_b": {"values": np.arange(4.0) * 2}})
                ui = deepcopy(default_ui_json)
                ui["geoh5"] = ws
                ui["object"] = templates.object_parameter(value=pts.uid)
                ui["count"] = templates.integer_parameter(value=1)
                ui["damping"] = templates.float_parameter(value=0.5, optional="enabled")
                ui["label"] = templates.string_parameter(value="abc", optional="disabled")
                ui["starting"] = templates.data_value_parameter(parent="object", value=1.0)
                ui["reference"] = templates.data_value_parameter(parent="object", value=0.0, is_value=False, prop=cb.uid)
                ui["bound"] = templates.data_value_parameter(parent="object", value=-np.inf, optional="disabled")
                ifile = InputFile(ui_json=ui, validate=case["validate"])
                if case["how"] == "set_data_value":
                    _ = ifile.data
                    edits = (("count", 7), ("label", "xyz")) if case["validate"] else (("count", 7), ("damping", None), ("label", "xyz"))
                    for k, v in edits:
                        ifile.set_data_value(k, v)
                else:
                    data = dict(ifile.data)
                    data.update({"count": 7, "starting": ca, "reference": 2.5, "bound": cb})
                    ifile.data = data
                expected = {k: comparable(v) for k, v in ifile.data.items() if k != "geoh5"}
                # what was assigned is what the InputFile must hold (and then write)
                assigned = dict(edits) if case["how"] == "set_data_value" else {"count": 7, "starting": ca.uid, "reference": 2.5, "bound": cb.uid}
                for k, v in assigned.items():
                    if expected.get(k, "missing") != v:
                        return f"'{k}' was given the value {v!r} but the InputFile holds {expected.get(k, 'missing')!r} ({case})"
                out = ifile.write_ui_json(name=case["name"], path=d)
            try:
                back = InputFile.read_ui_json(out, validate=case["validate"])
            except Exception as exc:
                return f"reading back the file that was just written fails: {type(exc).__name__}: {exc} ({case})"
            try:
                got = {k: comparable(v) for k, v in back.data.items() if k != "geoh5"}
                for k, v in expected.items():
                    if got.get(k, "missing") != v:
                        return f"'{k}': the InputFile held {v!r} when it was written, read back {got.get(k, 'missing')!r} ({case})"
            finally:
                if back.geoh5 is not None:
                    try:
                        back.geoh5.close()
                    except Exception:
                        pass
        finally:
            shutil.rmtree(d, ignore_errors=True)
        return None

    def _dependency(self, case):
        from geoh5py.ui_json import InputFile, templates
        from geoh5py.ui_json.constants import default_ui_json
        from geoh5py.workspace import Workspace

        d = tempfile.mkdtemp()
        try:
            with Workspace.create(os.path.join(d, "g.geoh5")) as ws:
                ui = deepcopy(default_ui_json)
                ui["geoh5"] = ws
                ui["switch"] = templates.float_parameter(label="switch", value=2.0, optional="enabled")
                ui["dependent"] = templates.float_parameter(label="dependent", value=5.0)
                ui["dependent"].update({"dependency": "switch", "enabled": True})
                if case["dependency_type"] != "default":  # without the member the type is "enabled"
                    ui["dependent"]["dependencyType"] = case["dependency_type"]
                ui["other"] = templates.integer_parameter(label="other", value=7)
                if case["dependency_type"] == "default":
                    # stored with the box unchecked and the dependent switched off
                    ui["switch"] = templates.float_parameter(label="switch", value=2.0, optional="disabled")
                    ui["dependent"]["enabled"] = False
                    try:
                        ifile = InputFile(ui_json=ui)
                        live = {k: ifile.data[k] for k in ("switch", "dependent", "other")}
                        out = ifile.write_ui_json(name=case["name"], path=d)
                        back = InputFile.read_ui_json(out)
                    except Exception as exc:
                        return f"a form that depends on an unchecked box (no dependencyType member) and is switched off cannot be written / read back: {type(exc).__name__}: {exc} ({case})"
                    try:
                        got = {k: back.data[k] for k in live}
                    finally:
                        if back.geoh5 is not None:
                            back.geoh5.close()
                    if live != {"switch": None, "dependent": None, "other": 7} or got != live:
                        return f"dependency without a type, box unchecked: live values {live}, read back {got} ({case})"
                    return None
                ifile = InputFile(ui_json=ui)
                # the dependent is switched off: with type "disabled" while the switch stays on, with type "enabled" together with it
                new = {"dependent": None} if case["dependency_type"] == "disabled" else {"switch": None, "dependent": None}
                if case["how"] == "data-setter":
                    data = dict(ifile.data)
                    data.update(new)
                    ifile.data = data
                else:
                    for k, v in new.items():
                        ifile.data[k] = v
                want = {"switch": 2.0, "dependent": 5.0, "other": 7}
                want.update(new)
                out = ifile.write_ui_json(name=case["name"], path=d)
            try:
                back = InputFile.read_ui_json(out)
            except Exception as exc:
                return f"reading back the file that was just written fails: {type(exc).__name__}: {exc} ({case})"
            try:
                for k, v in want.items():
                    if back.data[k] != v:
                        return f"'{k}' (switched through its dependency): wrote {v!r}, read back {back.data[k]!r} with enabled={back.ui_json[k].get('enabled')} ({case})"
                # and on again from the file that was read
                back.data["switch"], back.data["dependent"] = 3.0, 6.0
                out2 = back.write_ui_json(name="again " + case["name"], path=d)
                again = InputFile.read_ui_json(out2)
                try:
                    for k, v in {"switch": 3.0, "dependent": 6.0, "other": 7}.items():
                        if again.data[k] != v:
                            return f"second cycle, '{k}': wrote {v!r}, read back {again.data[k]!r} ({case})"
                finally:
                    if again.geoh5 is not None:
                        again.geoh5.close()
            finally:
                if back.geoh5 is not None:
                    try:
                        back.geoh5.close()
                    except Exception:
                        pass
        finally:
            shutil.rmtree(d, ignore_errors=True)
        return None

    def _two_groups(self, case):
        from geoh5py.ui_json import InputFile, templates
        from geoh5py.ui_json.constants import default_ui_json
        from geoh5py.workspace import Workspace

        d = tempfile.mkdtemp()
        try:
            with Workspace.create(os.path.join(d, "g.geoh5")) as ws:
                ui = deepcopy(default_ui_json)
                ui["geoh5"] = ws
                want = {}
                for gi, on in enumerate(case["states"]):
                    gname = f"Group {gi}"
                    sw = templates.bool_parameter(label=f"use {gi}", value=True)
                    sw.update({"group": gname, "groupOptional": True, "enabled": on})
                    ui[f"use{gi}"] = sw
                    for mi, form in enumerate((templates.float_parameter(label="tolerance", value=0.5 + gi), templates.integer_parameter(label="count", value=3 + gi))):
                        form.update({"group": gname, "enabled": on})
                        ui[f"g{gi}m{mi}"] = form
                        want[f"g{gi}m{mi}"] = (form["value"] if on else None)
                    want[f"use{gi}"] = True if on else None
                try:
                    ifile = InputFile(ui_json=ui)
                    live = {k: ifile.data[k] for k in want}
                    if live != want:
                        return f"the values of two optional groups in the states {case['states']} are {live}, expected {want} ({case})"
                    out = ifile.write_ui_json(name=case["name"], path=d)
                except Exception as exc:
                    return f"a valid input file with two optional groups in the states {case['states']} is refused: {type(exc).__name__}: {exc} ({case})"
            try:
                back = InputFile.read_ui_json(out)
            except Exception as exc:
                return f"reading back the file that was just written fails: {type(exc).__name__}: {exc} ({case})"
            try:
                got = {k: back.data[k] for k in want}
                if got != want:
                    return f"two optional groups in the states {case['states']}: wrote {want}, read back {got} ({case})"
                for gi, on in enumerate(case["states"]):
                    for k in (f"use{gi}", f"g{gi}m0", f"g{gi}m1"):
                        if bool(back.ui_json[k].get("enabled", True)) != on:
                            return f"enabled state of '{k}' in group {gi}: {on} as written, {back.ui_json[k].get('enabled', True)} after reading back ({case})"
            finally:
                if back.geoh5 is not None:
                    try:
                        back.geoh5.close()
                    except Exception:
                        pass
        finally:
            shutil.rmtree(d, ignore_errors=True)
        return None

    def _opted_out(self, case):
        from geoh5py.ui_json import InputFile, templates
        from geoh5py.ui_json.constants import default_ui_json
        from geoh5py.workspace import Workspace

        d = tempfile.mkdtemp()
        try:
            with Workspace.create(os.path.join(d, "g.geoh5")) as ws:
                ui = deepcopy(default_ui_json)
                ui["geoh5"] = ws
                sw = templates.bool_parameter(value=True)
                sw.update({"group": "Filter", "groupOptional": True, "enabled": True})
                members = {"cutoff": templates.float_parameter(value=2.0, optional="disabled"), "passes": templates.integer_parameter(value=3), "taper": templates.float_parameter(value=0.1, optional="enabled")}
                for m in members.values():
                    m["group"] = "Filter"
                if case["switch_first"]:
                    ui["switch"] = sw
                    ui.update(members)
                else:
                    ui.update(members)
                    ui["switch"] = sw
                ifile = InputFile(ui_json=ui, validation_options=dict(case["options"]) or None)
                want_enabled = {"switch": True, "cutoff": False, "passes": True, "taper": True}
                want_data = {"switch": True, "cutoff": None, "passes": 3, "taper": 0.1}
                out = ifile.write_ui_json(name=case["name"], path=d)
            try:
                back = InputFile.read_ui_json(out, validation_options=dict(case["options"]) or None)
            except Exception as exc:
                return f"reading back the file that was just written fails: {type(exc).__name__}: {exc} ({case})"
            try:
                if case["touch"] == "data-then-flags":
                    for k, v in want_data.items():
                        if back.data[k] != v:
                            return f"'{k}': wrote {v!r}, read back {back.data[k]!r} ({case})"
                for k, st in want_enabled.items():
                    got = back.ui_json[k].get("enabled", True)
                    if bool(got) != st:
                        return f"enabled state of '{k}': {st} as written, {got} after reading back{' and reading the values' if case['touch'] == 'data-then-flags' else ''} ({case})"
            finally:
                if back.geoh5 is not None:
                    try:
                        back.geoh5.close()
                    except Exception:
                        pass
        finally:
            shutil.rmtree(d, ignore_errors=True)
        return None

    def _groups(self, case):
        from geoh5py.objects import Points
        from geoh5py.ui_json import InputFile, templates
        from geoh5py.ui_json.constants import default_ui_json
        from geoh5py.workspace import Workspace

        d = tempfile.mkdtemp()
        try:
            with Workspace.create(os.path.join(d, "g.geoh5")) as ws:
                Points.create(ws, vertices=np.zeros((3, 3)), name="pts")
                ui = deepcopy(default_ui_json)
                ui["geoh5"] = ws
                ui["plain_int"] = templates.integer_parameter(value=3)
                ui["plain_opt"] = templates.string_parameter(value="abc", optional="disabled")
                sw = templates.choice_string_parameter(value="Option A", optional="disabled") if case["switch_optional"] else templates.choice_string_parameter(value="Option A")
                sw.update({"group": "Detrending", "groupOptional": True, "enabled": False})
                members = {"order": templates.integer_parameter(value=1), "weight": templates.float_parameter(value=0.5)}
                for m in members.values():
                    m.update({"group": "Detrending", "enabled": False})
                if case["switch_first"]:
                    ui["switch"] = sw
                    ui.update(members)
                else:
                    ui.update(members)
                    ui["switch"] = sw
                ifile = InputFile(ui_json=ui)
                data = dict(ifile.data)
                new = {"order": 2, "weight": 0.25, "plain_int": 7}
                if case["assign_switch"]:
                    new["switch"] = "Option B"
                data.update(new)
                ifile.data = data
                expected = {k: v for k, v in ifile.data.items() if k != "geoh5"}
                enabled_before = {k: f.get("enabled", True) for k, f in ifile.ui_json.items() if isinstance(f, dict) and "label" in f}
                out = ifile.write_ui_json(name=case["name"], path=d)
            try:
                back = InputFile.read_ui_json(out)
            except Exception as exc:
                return f"reading back the file that was just written fails: {type(exc).__name__}: {exc} ({case})"
            try:
                for k, v in expected.items():
                    if back.data[k] != v:
                        return f"'{k}': wrote {v!r}, read back {back.data[k]!r} ({case})"
                for k, st in enabled_before.items():
                    if bool(back.ui_json[k].get("enabled", True)) != bool(st):
                        return f"enabled state of '{k}': {st} before writing, {back.ui_json[k].get('enabled', True)} after reading back ({case})"
                if case["assign_switch"]:
                    for k in new:
                        if not back.ui_json[k].get("enabled", True):
                            return f"'{k}' was given the value {new[k]!r} but is disabled in the file ({case})"
                if back.data["plain_opt"] is not None or back.ui_json["plain_opt"]["enabled"]:
                    return f"the disabled optional parameter did not stay None/disabled ({case})"
            finally:
                if back.geoh5 is not None:
                    try:
                        back.geoh5.close()
                    except Exception:
                        pass
        finally:
            shutil.rmtree(d, ignore_errors=True)
        return None

    def native_check(self, case):
        if case.get("kind") == "groups":
            return self._groups(case)
        if case.get("kind") == "edits":
            return self._edits(case)
        if case.get("kind") == "property-groups":
            return self._property_groups(case)
        if case.get("kind") == "more-forms":
            return self._more_forms(case)
        if case.get("kind") == "opted-out-member":
            return self._opted_out(case)
        if case.get("kind") == "dependency":
            return self._dependency(case)
        if case.get("kind") == "two-groups":
            return self._two_groups(case)
        from geoh5py.objects import Points
        from geoh5py.ui_json import InputFile, templates
        from geoh5py.ui_json.constants import default_ui_json
        from geoh5py.workspace import Workspace

        d = tempfile.mkdtemp()
        try:
            path = os.path.join(d, "w.geoh5")
            with Workspace.create(path) as ws:
                pts = Points.create(ws, vertices=np.zeros((3, 3)), name="pts")
                dat = pts.add_data({"d": {"values": np.arange(3.0)}})
                ui = dict(default_ui_json)
                ui["geoh5"] = ws
                ui["b"] = templates.bool_parameter(value=True)
                ui["i"] = templates.integer_parameter(value=7)
                ui["f_pos"] = templates.float_parameter(value=float("inf"))
                ui["f_neg"] = templates.float_parameter(value=float("-inf"))
                ui["f_pos_np"] = templates.float_parameter(value=np.float64("inf"))
                ui["f_neg_np"] = templates.float_parameter(value=np.log(np.float64(0.0)))
                ui["f"] = templates.float_parameter(value=-2.5)
                ui["s"] = templates.string_parameter(value="hello é")
                ui["c"] = templates.choice_string_parameter(choice_list=["a", "b"], value="b")
                ui["o"] = templates.object_parameter(value=str(pts.uid))
                ui["dd"] = templates.data_parameter(parent="o", value=str(dat.uid))
                ui["dv"] = templates.data_value_parameter(parent="o", value=3.5, is_value=True)
                ui["opt_off"] = templates.float_parameter(value=1.0, optional="disabled")
                ui["opt_on_empty"] = templates.object_parameter(optional="enabled")
                ui["opt_on_empty"]["value"] = None
                ifile = InputFile(ui_json=ui, validate=False, validation_options=dict(case["options"]) or None)
                if case["touch_data"]:
                    _ = ifile.data
                before_enabled = {k: v.get("enabled", True) for k, v in ifile.ui_json.items() if isinstance(v, dict)}
                before_vals = {k: (v.get("value") if v.get("isValue", True) else v.get("property")) for k, v in ifile.ui_json.items() if isinstance(v, dict)}
                try:
                    ifile.write_ui_json(name=case.get("name", "t.ui.json"), path=d)
                except Exception as exc:
                    return f"writing the form values failed: {type(exc).__name__}: {exc} ({case})"
            try:
                back = InputFile.read_ui_json(os.path.join(d, case.get("name", "t.ui.json")), validate=False)
            except Exception as exc:
                return f"reading back the file that was just written fails: {type(exc).__name__}: {exc} ({case})"
            ui2 = back.ui_json
            for k, exp_en in before_enabled.items():
                en2 = ui2[k].get("enabled", True)
                must_keep = True
                if not case["options"] and before_vals[k] is None:
                    must_keep = False  # default options: update_enabled ties enabled to "has a value"
                if must_keep and bool(en2) != bool(exp_en):
                    return f"enabled state of '{k}': {exp_en} before writing, {en2} after reading back ({case})"
            for k, v in before_vals.items():
                v2 = ui2[k].get("value") if ui2[k].get("isValue", True) else ui2[k].get("property")
                if hasattr(v, "uid"):
                    v = v.uid
                if hasattr(v2, "uid"):
                    v2 = v2.uid
                if isinstance(v, str) and isinstance(v2, uuid.UUID):
                    v = uuid.UUID(v)
                if isinstance(v2, str) and isinstance(v, uuid.UUID):
                    v2 = uuid.UUID(v2)
                if isinstance(v, float) and isinstance(v2, (int, float)):
                    if not (v == v2):
                        return f"'{k}': wrote {v!r}, read back {v2!r} ({case})"
                elif v != v2 and not (v is None and v2 in (None, "")):
                    return f"'{k}': wrote {v!r}, read back {v2!r} ({case})"
            if back.geoh5 is not None:
                try:
                    back.geoh5.close()
                except Exception:
                    pass
        finally:
            shutil.rmtree(d, ignore_errors=True)
        return None


CONTRACTS = [InfRoundTrip, NoneRoundTrip, UuidRoundTrip, InputFileRoundTrip]


# ------------------------------------------------------------------------------------------
# set_enabled over concrete-shape ui.json dictionaries with symbolic switch values
# ------------------------------------------------------------------------------------------


class SetEnabled(Contract):
    """set_enabled(ui_json, parameter, value), written from the ui.json documentation: an optional
    parameter takes the new enabled state; when the parameter is the switch of its group (the first
    member carrying `groupOptional`) the members of that group follow: all are switched off with it, and
    switching it on enables the members without a checkbox of their own (an optional member keeps its
    own choice); nothing else changes.
    The dictionary has a concrete shape (which members exist) and symbolic member values."""
    target = "geoh5py/ui_json/utils.py::set_enabled"
    props = ("C14",)
    bounded_scope = "ui.json dictionaries of 2-3 forms; per form: in group G or not, optional or not, groupOptional present or not, enabled present (symbolic) or absent; every target parameter (exhaustive over these shapes, the optional member being absent, true or false: 2688 cases); the enabled values and the new state are symbolic"

    def cases(self):
        # o: the form's "optional" member is absent (False), true (True) or present and false ("no": as good as absent)
        per = [(g, o, go, en) for g in (False, True) for o in (False, True, "no") for go in (False, True) for en in (False, True)]
        out = []
        for shape in itertools.product(per, repeat=2):
            for target in range(2):
                out.append((shape, target))
        per3 = [(g, o, go, True) for g in (False, True) for o in (False, True) for go in (False, True)]
        for shape in itertools.product(per3, repeat=3):
            for target in range(3):
                out.append((shape, target))
        return out

    def setup(self, ctx):
        from pyvc.values import PDict

        shape, target = ctx.case
        ui = PDict()
        before = {}
        for i, (g, o, go, en) in enumerate(shape):
            form = PDict({"label": f"p{i}", "value": 1.0})
            if g:
                form.items["group"] = "G"
            if o:
                form.items["optional"] = (o is True)
            if go:
                form.items["groupOptional"] = True
            if en:
                form.items["enabled"] = sym(f"enabled{i}", "bool")
            before[f"p{i}"] = form.items.get("enabled")
            ui.items[f"p{i}"] = form
        value = sym("value", "bool")
        ctx.env.update(ui=ui, before=before, value=value)
        return [ui, f"p{target}", value], {}

    def post(self, ctx, result):
        e = ctx.env
        shape, target = ctx.case
        shape = tuple((g, o is True, go, en) for g, o, go, en in shape)  # an explicit "optional": false is not optional
        switch = next((i for i, (g, o, go, en) in enumerate(shape) if g and go), None)
        tg, to, tgo, ten = shape[target]
        for i, (g, o, go, en) in enumerate(shape):
            now = e["ui"].items[f"p{i}"].items.get("enabled")
            takes = (i == target and o) or (tg and switch == target and g)
            if takes and i != target and o:
                # a member with a checkbox of its own: switched off with its group, but an enabled group does not tick it
                # (corrected from the property: "every member takes it" made an opted-out member read back as enabled)
                was = e["before"][f"p{i}"]
                if now is None:
                    kept, off = z3.BoolVal(was is None), z3.BoolVal(False)
                elif was is None:
                    kept, off = z3.BoolVal(False), z3.Not(to_z3(now))
                else:
                    kept, off = to_z3(now) == to_z3(was), z3.Not(to_z3(now))
                ctx.oblige(f"p{i}-is-switched-off-with-its-group-and-keeps-its-own-choice-when-the-group-is-enabled", z3.If(e["value"].e, kept, off),
                           note=f"optional member p{i} of the group switched by p{target}: enabled={now}")
            elif takes:
                ctx.oblige(f"p{i}-takes-the-new-enabled-state", now is not None and to_z3(now) == e["value"].e,
                           note=f"form p{i} should follow the switch p{target} but keeps enabled={now}")
            else:
                was = e["before"][f"p{i}"]
                same = (now is None and was is None) or (now is not None and was is not None and to_z3(now) == to_z3(was))
                ctx.oblige(f"p{i}-is-left-alone", same)

    def post_raises(self, ctx, sig):
        ctx.oblige("set_enabled-does-not-raise", False, kind="post-exc", note=f"{sig.exc_class.__name__} at {sig.origin}")


CONTRACTS = CONTRACTS + [SetEnabled]


class Flatten(Contract):
    """flatten(ui_json): a disabled form yields None, an enabled one its `value` (or its `property`
    when `isValue` is false); plain members pass through; nothing else appears."""
    target = "geoh5py/ui_json/utils.py::flatten"
    props = ("C14",)
    bounded_scope = "dictionaries of two entries; per entry: plain member, or form with enabled present/absent x isValue present/absent (values symbolic) x property present; exhaustive over these shapes"

    def cases(self):
        per = ["plain"] + [("form", en, iv) for en in (False, True) for iv in (False, True)]
        return list(itertools.product(per, repeat=2))

    def setup(self, ctx):
        from pyvc.values import PDict

        ui = PDict()
        spec = {}
        for i, kind in enumerate(ctx.case):
            name = f"p{i}"
            if kind == "plain":
                v = sym(f"plain{i}", "real")
                ui.items[name] = v
                spec[name] = ("plain", v)
                continue
            _, en, iv = kind
            val, prop = sym(f"value{i}", "real"), sym(f"property{i}", "uid")
            form = PDict({"label": name, "value": val, "property": prop})
            e_, v_ = None, None
            if en:
                e_ = form.items["enabled"] = sym(f"enabled{i}", "bool")
            if iv:
                v_ = form.items["isValue"] = sym(f"isValue{i}", "bool")
            ui.items[name] = form
            spec[name] = ("form", e_, v_, val, prop)
        ctx.env.update(ui=ui, spec=spec)
        return [ui], {}

    def post(self, ctx, result):
        from pyvc.values import PDict

        e = ctx.env
        ok = isinstance(result, PDict) and list(result.items) == list(e["spec"])
        ctx.oblige("one-entry-per-member-in-order", ok)
        if not ok:
            return
        I = ctx.I
        for name, sp in e["spec"].items():
            got = result.items[name]
            if sp[0] == "plain":
                ctx.oblige(f"{name}-plain-member-passes-through", got is sp[1])
                continue
            _, en, iv, val, prop = sp
            enabled = z3.BoolVal(True) if en is None else en.e
            is_value = z3.BoolVal(True) if iv is None else iv.e
            is_none = zbool(I.is_none(got))
            ctx.oblige(f"{name}-is-None-iff-disabled", is_none == z3.Not(enabled))
            if got is not None:
                inner = got.value if hasattr(got, "present") else got
                pres = got.present if hasattr(got, "present") else z3.BoolVal(True)
                # the value is the `value` member when isValue, else the `property` member
                if isinstance(inner, SV) and inner.k == "real":
                    ctx.oblige(f"{name}-enabled-value-form-yields-its-value", z3.Implies(z3.And(enabled, pres), z3.And(is_value, inner.e == val.e)))
                elif isinstance(inner, SV):
                    ctx.oblige(f"{name}-enabled-property-form-yields-its-property", z3.Implies(z3.And(enabled, pres), z3.And(z3.Not(is_value), inner.e == prop.e)))
                else:
                    ctx.oblige(f"{name}-yields-value-or-property", False, note=f"unexpected result {type(inner).__name__}")


CONTRACTS = CONTRACTS + [Flatten]
