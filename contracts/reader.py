"""C19 (and the read-back half of C01): H5Reader functions over the symbolic link graph.  The
file is *not* assumed well-formed below the entity: every optional member may be absent."""
from __future__ import annotations

import gc
import itertools
import os
import shutil
import tempfile

import numpy as np
import z3

from contracts.h5graph import A, F, KINDS
from pyvc.contracts import Contract
from pyvc.core import RaiseSig, fresh_name
from pyvc.models_h5 import H5Node
from pyvc.values import SV, AbsObj, Obj, Opaque, PDict, PList, mk, sym, to_z3, zbool

MEMBERS = ["Data", "Groups", "Objects", "PropertyGroups", "Type"]


def entity_node(ctx, f, kind, uid):
    """The node stored for `uid` (possibly absent) with a bounded shape: the six member names the
    layout knows, each present or not; each child container holds at most two entries."""
    I = ctx.I
    un = f.uname(I, uid)
    node = f.flat(f.pre, kind, un)
    f.st.declare_members(node, MEMBERS)
    f.st.declare_attrs(node, ["Allow delete", "ID", "Name"])
    kids = {}
    for sub in ("Data", "Groups", "Objects"):
        c = f.pre.link(node, A(sub))
        names = [sym(f"{sub.lower()}_child{i}", "str") for i in range(1)]
        # child entries are named by identifiers (as_str_if_uuid output parses as a UUID)
        ok_ = z3.Function("is_uuid_str", z3.IntSort(), z3.BoolSort())
        for nm_ in names:
            ctx.assume(ok_(nm_.e))
        f.st.declare_members(c, names)
        kids[sub] = (c, names)
    # distinct entries carry distinct identifiers (names of different children differ and parse injectively)
    parse_ = z3.Function("uid_of_str", z3.IntSort(), z3.IntSort())
    allnames = [nm_.e for _, (_, ns) in kids.items() for nm_ in ns]
    ctx.assume(z3.Distinct(*allnames))
    ctx.assume(z3.Distinct(*[parse_(x) for x in allnames]))
    return un, node, kids


class FetchChildren(Contract):
    target = "geoh5py/io/h5_reader.py::H5Reader.fetch_children"
    props = ("C19", "C01")
    bounded_scope = "entity nodes with any subset of the members {Data, Groups, Objects, Type, PropertyGroups, Concatenated Data} and at most one entry per child container (all presence patterns, symbolic names)"

    def cases(self):
        return ["group", "object"]

    def setup(self, ctx):
        from geoh5py.io.h5_reader import H5Reader

        f = F(ctx)
        uid = sym("uid", "uid")
        un, node, kids = entity_node(ctx, f, ctx.case, uid)
        ctx.env.update(f=f, uid=uid, node=node, kids=kids)
        return [H5Reader, f.file, uid, ctx.case], {}

    def post(self, ctx, result):
        e = ctx.env
        f, node = e["f"], e["node"]
        from pyvc.values import SDict

        ok = isinstance(result, (PDict, SDict))
        ctx.oblige("returns-a-dictionary", ok)
        if not ok:
            return
        want = {"Data": "data", "Groups": "group", "Objects": "object"}
        parse = z3.Function("uid_of_str", z3.IntSort(), z3.IntSort())
        for sub, (c, names) in e["kids"].items():
            for nm in names:
                present = z3.And(node != 0, c != 0, f.pre.link(c, nm.e) != 0)
                key = mk(parse(nm.e), "uid")  # str2uuid(name)
                if isinstance(result, PDict):
                    ctx.oblige(f"{sub}-entry-listed-iff-stored-with-its-kind", z3.Not(present) if not result.items else False)
                else:
                    has = zbool(result.has(key))
                    ctx.oblige(f"{sub}-entry-listed-iff-stored", has == present)
                    val = result.get(key)
                    from pyvc.values import Maybe as _Mb

                    if isinstance(val, _Mb):
                        okv = z3.And(val.present, val.value == want[sub]) if isinstance(val.value, str) else z3.BoolVal(False)
                    else:
                        okv = (val == want[sub]) if isinstance(val, str) or val is None else zbool(ctx.I.eq(val, want[sub]))
                    ctx.oblige(f"{sub}-entry-has-the-kind-of-its-container", z3.Implies(present, okv))
        ctx.oblige("reading-changes-nothing", z3.And(f.st.links == f.pre.links, f.st.attrs == f.pre.attrs), kind="frame")

    def post_raises(self, ctx, sig):
        ctx.oblige("a-missing-optional-member-never-makes-the-listing-fail", False, kind="post-exc", note=f"{sig.exc_class.__name__} at {sig.origin}")


class FetchArrayAttribute(Contract):
    target = "geoh5py/io/h5_reader.py::H5Reader.fetch_array_attribute"
    props = ("C19",)

    def cases(self):
        return ["vertices", "cells", "surveys"]

    def setup(self, ctx):
        from geoh5py.io.h5_reader import H5Reader

        f = F(ctx)
        uid = sym("uid", "uid")
        ctx.env.update(f=f, uid=uid)
        return [H5Reader, f.file, uid, "Objects", ctx.case], {}

    def post(self, ctx, result):
        from geoh5py.shared.utils import KEY_MAP

        e = ctx.env
        f = e["f"]
        node = f.flat(f.pre, "object", f.uname(ctx.I, e["uid"]))
        ds = f.pre.link(node, A(KEY_MAP[ctx.case]))
        if result is None:
            ctx.oblige("none-only-when-the-entity-or-the-dataset-is-missing", z3.Or(node == 0, ds == 0))
        else:
            ctx.oblige("values-returned-only-when-the-dataset-exists", z3.And(node != 0, ds != 0))
        ctx.oblige("reading-changes-nothing", z3.And(f.st.links == f.pre.links, f.st.attrs == f.pre.attrs), kind="frame")

    def post_raises(self, ctx, sig):
        ctx.oblige("a-missing-dataset-is-not-an-error", False, kind="post-exc", note=f"{sig.exc_class.__name__} at {sig.origin}")


class FetchAttributes(Contract):
    target = "geoh5py/io/h5_reader.py::H5Reader.fetch_attributes"
    props = ("C19", "C01")
    bounded_scope = "entity nodes with any subset of the attributes {ID, Name, Allow delete} and of the members Type / PropertyGroups"

    def cases(self):
        return ["group", "object", "data"]

    def setup(self, ctx):
        from geoh5py.io.h5_reader import H5Reader

        f = F(ctx)
        uid = sym("uid", "uid")
        un, node, kids = entity_node(ctx, f, ctx.case, uid)
        ctx.env.update(typed_attr_values=True, f=f, uid=uid, node=node, fta=lambda I, a, kw: (I.event("fetch_type_attributes", handle=a[-1]), PDict({"from-type": True}))[1],
                       fpg=lambda I, a, kw: (I.event("fetch_property_groups"), PDict({"from-groups": True}))[1])
        return [H5Reader, f.file, uid, ctx.case], {}

    def post(self, ctx, result):
        e = ctx.env
        f, node = e["f"], e["node"]
        if result is None:
            ctx.oblige("none-only-when-the-entity-is-not-stored", node == 0)
            return
        ctx.oblige("a-stored-entity-is-described", node != 0)
        attrs, tattrs, pgs = result
        ent = attrs.items["entity"]
        for name in ("Allow delete", "ID", "Name"):
            present = f.pre.attr(node, A(name)) != 0
            ctx.oblige(f"attribute-{name.replace(' ', '-')}-reported-iff-stored", z3.If(present, name in ent.items, name not in ent.items))
            if name in ent.items:
                v = ent.items[name]
                got = v.term if isinstance(v, Opaque) and getattr(v, "term", None) is not None else (to_z3(v) if isinstance(v, SV) else None)
                ctx.oblige(f"attribute-{name.replace(' ', '-')}-is-reported-as-stored", got is not None and z3.Implies(present, got == f.pre.attr(node, A(name))),
                           note="the reported value is not the stored one (altered on the way in)")
        ctx.oblige("marked-as-stored", ent.items.get("on_file") is True)
        has_type = f.pre.link(node, A("Type")) != 0
        ctx.oblige("type-attributes-read-iff-a-type-link-exists", z3.If(has_type, tattrs.items["entity_type"].items.get("from-type") is True if isinstance(tattrs.items["entity_type"], PDict) else False, isinstance(tattrs.items["entity_type"], PDict) and len(tattrs.items["entity_type"].items) == 0))
        has_pg = f.pre.link(node, A("PropertyGroups")) != 0
        ctx.oblige("property-groups-read-iff-the-block-exists", z3.If(has_pg, isinstance(pgs, PDict) and pgs.items.get("from-groups") is True, isinstance(pgs, PDict) and len(pgs.items) == 0))

    def post_raises(self, ctx, sig):
        ctx.oblige("a-missing-optional-item-is-not-an-error", False, kind="post-exc", note=f"{sig.exc_class.__name__} at {sig.origin}")


class FetchTypeAttributesStub(Contract):
    target = "geoh5py/io/h5_reader.py::H5Reader.fetch_type_attributes"
    symbolic = False
    props = ()

    def apply(self, I, args, kwargs):
        return I.ctx.env["fta"](I, args, kwargs)


class FetchPropertyGroupsStub(Contract):
    target = "geoh5py/io/h5_reader.py::H5Reader.fetch_property_groups"
    symbolic = False
    props = ()

    def apply(self, I, args, kwargs):
        return I.ctx.env["fpg"](I, args, kwargs)


FetchAttributes.uses = (FetchTypeAttributesStub, FetchPropertyGroupsStub)


# ------------------------------------------------------------------------------------------
# bounded stand-in: single deletions on real files (the whole-file quantifier of C19 is fault
# enumeration, another family; the sweep below is labelled as such)
# ------------------------------------------------------------------------------------------


class SingleDeletionSweep(Contract):
    target = "geoh5py/io/h5_reader.py::H5Reader.fetch_children"
    variant = "single-deletions"
    symbolic = False
    has_native = True
    native_shards = 8
    props = ("C19",)
    bounded_scope = "one reference file (nested groups, points, curve with property group, 2-D grid, block model, surface and octree with cell data, float/text/referenced/boolean data with colour/value maps): every single deletion of an optional attribute, of the Root link, of a property-group block, of a colour/value map, of an attribute of a colour/value map and of an empty child container; plus single deletions of mandatory items (type link, identifier, primitive type): an error or exactly the described entities left out; unaffected entities compared with the intact file"

    def _build(self, path, version=None):
        from geoh5py.groups import ContainerGroup
        from geoh5py.objects import Curve, Points
        from geoh5py.workspace import Workspace

        with (Workspace.create(path) if version is None else Workspace.create(path, version=version)) as ws:
            if version is not None:
                # a drillhole group in the storage format of that version
                from geoh5py.groups import DrillholeGroup
                from geoh5py.objects import Drillhole

                dg = DrillholeGroup.create(ws, name="holes")
                dh = Drillhole.create(ws, name="hole", parent=dg, collar=[0.0, 0.0, 0.0], surveys=np.c_[np.r_[0.0, 10.0], np.zeros(2), np.ones(2) * -90.0])
                dh.add_data({"log": {"depth": np.array([1.0, 2.0]), "values": np.array([5.0, 6.0])}})
            # identifiers chosen so that, in identifier order, the nested group comes first, the (random) root
            # in between and the outer group last: the order in which a rebuild meets them is then fixed
            g1 = ContainerGroup.create(ws, name="site", uid=__import__("uuid").UUID("ffffffff-ffff-ffff-ffff-fffffffffff0"))
            # the nested group's identifier sorts before its parent's and before the root's: a rebuild that
            # walks the flat container in identifier order meets the child first
            g2 = ContainerGroup.create(ws, name="sub_site", parent=g1, uid=__import__("uuid").UUID(int=1))
            p = Points.create(ws, name="stations", vertices=np.arange(9.0).reshape(3, 3), parent=g1)
            grav = p.add_data({"grav": {"values": np.arange(3.0)}})
            grav.entity_type.color_map = np.c_[np.linspace(0.0, 2.0, 4), np.arange(4) * 10, np.arange(4) * 20, np.arange(4) * 30, np.ones(4) * 255]
            p.add_data({"grav2": {"values": np.arange(3.0) + 5}})
            p.add_data({"grav3": {"values": np.arange(3.0) + 9}})
            p.add_data({"note": {"values": np.array(["a", "b", "c"]), "type": "text"}})
            c = Curve.create(ws, name="line", vertices=np.arange(12.0).reshape(4, 3), parent=g2)
            a = c.add_data({"a": {"values": np.arange(4.0)}})
            b = c.add_data({"b": {"values": np.array([1, 2, 1, 2], dtype="uint32"), "type": "referenced", "value_map": {1: "x", 2: "y"}}})
            c.add_data_to_group([a, b], "grp")
            c.add_data_to_group([a], "grp-a")
            c.add_data_to_group([b], "grp-b")
            c.add_data({"flag": {"values": np.array([True, False, True, True]), "type": "boolean"}})
            # objects whose own (optional) attributes decide how many entries their data have
            from geoh5py.objects import BlockModel, Grid2D, Octree, Surface

            gr = Grid2D.create(ws, name="grid", origin=[1.0, 2.0, 3.0], u_cell_size=2.0, v_cell_size=3.0, u_count=3, v_count=2, rotation=30.0, dip=10.0, parent=g1)
            gr.add_data({"gval": {"values": np.arange(6.0)}})
            bm = BlockModel.create(ws, name="blocks", origin=[0.0, 0.0, 0.0], u_cell_delimiters=np.arange(3.0), v_cell_delimiters=np.arange(3.0), z_cell_delimiters=np.arange(2.0), parent=g1)
            bm.add_data({"bval": {"values": np.arange(4.0)}})
            sf = Surface.create(ws, name="tin", vertices=np.arange(12.0).reshape(4, 3), cells=np.array([[0, 1, 2], [1, 2, 3]], dtype="uint32"), parent=g2)
            sf.add_data({"sval": {"values": np.arange(2.0), "association": "CELL"}})
            oc = Octree.create(ws, name="tree", origin=[0.0, 0.0, 0.0], u_count=2, v_count=2, w_count=2, u_cell_size=1.0, v_cell_size=1.0, w_cell_size=1.0, parent=g2)
            oc.add_data({"oval": {"values": np.arange(oc.n_cells, dtype=float)}})

    def _snapshot(self, path):
        from contracts.histories import tree_snapshot
        from geoh5py.workspace import Workspace

        with Workspace(path, mode="r") as ws:
            return tree_snapshot(ws)

    NAMES = ("site", "sub_site", "stations", "line", "grav", "grav2", "grav3", "note", "a", "b", "flag", "grid", "gval", "blocks", "bval", "tin", "sval", "tree", "oval")

    @staticmethod
    def _find(f, name):
        proj = f[list(f)[0]]
        for cont in ("Groups", "Objects", "Data"):
            for key in proj[cont]:
                node = proj[cont][key]
                nm = node.attrs.get("Name")
                nm = nm.decode() if isinstance(nm, bytes) else nm
                if nm == name:
                    return node, key
        return None, None

    def native_cases(self, tier, rng):
        import h5py

        d = tempfile.mkdtemp()
        targets = [{"kind": "root-link"}]
        always = []
        try:
            path = os.path.join(d, "ref.geoh5")
            self._build(path)
            with h5py.File(path, "r") as f:
                for k in f[list(f)[0]].attrs:
                    for version in (None, 1.0, 2.0, 2.1):  # None: the constructor's default; 2.1 given explicitly is the same format, named by the writer
                        always.append({"kind": "project-attr", "attr": k, "version": version})
                for name in self.NAMES:
                    node, _ = self._find(f, name)
                    for k in node.attrs:
                        if k not in ("ID", "Name"):
                            targets.append({"kind": "attr", "entity": name, "attr": k})
                    for sub in ("Data", "Groups", "Objects"):
                        if sub in node and isinstance(node[sub], h5py.Group) and len(node[sub]) == 0:
                            targets.append({"kind": "member", "entity": name, "member": sub})
                    if "PropertyGroups" in node:
                        targets.append({"kind": "member", "entity": name, "member": "PropertyGroups"})
                        # every attribute of every property-group block: the block describes that one group only
                        for gi, gkey in enumerate(sorted(node["PropertyGroups"])):
                            for k in node["PropertyGroups"][gkey].attrs:
                                always.append({"kind": "pg-attr", "entity": name, "group": gi, "attr": k})
                    t = node["Type"]
                    for k in t.attrs:
                        if k not in ("ID", "Primitive type"):  # a type's Name is optional (the classes know their default names)
                            targets.append({"kind": "type-attr", "entity": name, "attr": k})
                    for sub in ("Color map", "Value map"):
                        if sub in t:
                            always.append({"kind": "type-member", "entity": name, "member": sub})  # few, and each with its own reader branch: never sampled away
                            for k in t[sub].attrs:
                                always.append({"kind": "type-member-attr", "entity": name, "member": sub, "attr": k})
                    # mandatory items: the reader may raise, or leave out exactly what the item describes
                    always.append({"kind": "mandatory-type-link", "entity": name})
                    if name in ("grav", "a", "line"):
                        always.append({"kind": "mandatory-attr", "entity": name, "attr": "ID"})
                        always.append({"kind": "mandatory-type-attr", "entity": name, "attr": "Primitive type" if name in ("grav", "a") else "ID"})
        finally:
            shutil.rmtree(d, ignore_errors=True)
        for t in targets + always:  # every single deletion, in both tiers (a few hundred small files)
            yield t

    def native_check(self, case):
        import h5py

        d = tempfile.mkdtemp()
        try:
            path = os.path.join(d, "ref.geoh5")
            self._build(path, version=case.get("version"))
            ref = self._snapshot(path)
            owner_uid = None
            with h5py.File(path, "r+") as f:
                if case["kind"] == "root-link":
                    del f[list(f)[0]]["Root"]
                elif case["kind"] == "project-attr":
                    del f[list(f)[0]].attrs[case["attr"]]
                else:
                    node, key = self._find(f, case["entity"])
                    owner_uid = key.strip("{}")
                    pg_name = None
                    if case["kind"] == "pg-attr":
                        blk = node["PropertyGroups"][sorted(node["PropertyGroups"])[case["group"]]]
                        pg_name = blk.attrs.get("Group Name")
                        pg_name = pg_name.decode() if isinstance(pg_name, bytes) else pg_name
                        del blk.attrs[case["attr"]]
                    elif case["kind"] == "attr":
                        del node.attrs[case["attr"]]
                    elif case["kind"] == "member":
                        del node[case["member"]]
                    elif case["kind"] in ("type-attr", "mandatory-type-attr"):
                        if case["attr"] not in node["Type"].attrs:
                            return None
                        del node["Type"].attrs[case["attr"]]
                    elif case["kind"] == "type-member-attr":
                        del node["Type"][case["member"]].attrs[case["attr"]]
                    elif case["kind"] == "mandatory-type-link":
                        del node["Type"]
                    elif case["kind"] == "mandatory-attr":
                        del node.attrs[case["attr"]]
                    else:
                        del node["Type"][case["member"]]
            mandatory = case["kind"].startswith("mandatory") or case["kind"] == "pg-attr"
            try:
                got = self._snapshot(path)
            except Exception as exc:
                if mandatory:
                    return None  # an error is an allowed answer to a missing mandatory item
                return f"file no longer opens after deleting optional item {case}: {type(exc).__name__}: {exc}"
            if case["kind"] == "pg-attr":
                # the block describes one property group: every entity, and every *other* group of the same object, is as before
                for uid, desc in ref.items():
                    if uid not in got:
                        return f"deleting attribute '{case['attr']}' of the block of property group '{pg_name}' lost {desc['class']} '{desc['name']}'"
                    for k, v in desc.items():
                        if k == "property_groups":
                            for gname, members in v.items():
                                if uid == owner_uid and gname == pg_name:
                                    continue
                                if got[uid].get(k, {}).get(gname) != members:
                                    return f"deleting attribute '{case['attr']}' of the block of property group '{pg_name}' changed group '{gname}' of {desc['class']} '{desc['name']}': {members} -> {got[uid].get(k, {}).get(gname)}"
                        elif got[uid].get(k) != v:
                            return f"deleting attribute '{case['attr']}' of the block of property group '{pg_name}' altered {desc['class']} '{desc['name']}'.{k}: {v!r} -> {got[uid].get(k)!r}"
                return None
            if mandatory:
                # what the item describes: the entity (or all entities of its type) and their descendants
                described = {owner_uid}
                if case["kind"] == "mandatory-type-attr":
                    described |= {u for u, dsc in ref.items() if dsc["class"] == ref[owner_uid]["class"]}
                grow = True
                while grow:
                    grow = False
                    for u, dsc in ref.items():
                        if u not in described and dsc["parent"] in described:
                            described.add(u)
                            grow = True
                for uid, desc in ref.items():
                    if uid in described:
                        continue
                    if uid not in got:
                        return f"deleting the mandatory item {case} also lost {desc['class']} '{desc['name']}', which it does not describe"
                    for k, v in desc.items():
                        if k == "children":
                            # others are kept; the described entity may be missing or come back under another
                            # identifier (its own stored identifier is what was deleted), never a stranger from elsewhere
                            if (set(got[uid].get(k, [])) - set(v)) & set(ref) or (set(v) - set(got[uid].get(k, []))) - described:
                                return f"deleting the mandatory item {case} changed the children of {desc['class']} '{desc['name']}': {v} -> {got[uid].get(k)}"
                        elif k == "property_groups":
                            continue  # groups listing a left-out data may shrink
                        elif got[uid].get(k) != v:
                            return f"deleting the mandatory item {case} altered {desc['class']} '{desc['name']}'.{k}: {v!r} -> {got[uid].get(k)!r}"
                return None
            root_uid = [u for u, dsc in ref.items() if dsc["parent"] == "None"][0]
            shares_type = set()
            if case["kind"].startswith("type"):
                shares_type = {u for u, dsc in ref.items() if dsc["class"] == ref[owner_uid]["class"]} if owner_uid in ref else set()
            versioned = set()
            if case["kind"] == "project-attr" and case["attr"] == "Version":
                # the version says how drillhole groups store their holes: those subtrees are what it describes
                versioned = {u for u, dsc in ref.items() if "Drillhole" in dsc["class"]}
                grow = True
                while grow:
                    grow = False
                    for u, dsc in ref.items():
                        if u not in versioned and dsc["parent"] in versioned:
                            versioned.add(u)
                            grow = True
            for uid, desc in ref.items():
                if uid in versioned:
                    continue
                if case["kind"] == "root-link" and uid == root_uid:
                    continue  # the former root record is what the missing link described
                if uid == owner_uid or uid in shares_type:
                    continue  # the entity (or the entities of the type) the missing item describes may change
                if uid not in got:
                    return f"deleting {case} lost entity {desc['class']} '{desc['name']}'"
                for k, v in desc.items():
                    if case["kind"] == "root-link":
                        # the missing link described the root only: every other entity keeps its parent and
                        # its children; the children of the former root hang under it or under the rebuilt root
                        new_roots = {u for u, dsc in got.items() if dsc["parent"] == "None"}
                        if k == "parent" and v == root_uid and got[uid].get(k) in new_roots | {root_uid}:
                            continue
                    if got[uid].get(k) != v:
                        return f"deleting {case} altered {desc['class']} '{desc['name']}'.{k}: {v!r} -> {got[uid].get(k)!r}"
        finally:
            shutil.rmtree(d, ignore_errors=True)
        return None


CONTRACTS = [FetchChildren, FetchArrayAttribute, FetchTypeAttributesStub, FetchPropertyGroupsStub, FetchAttributes, SingleDeletionSweep]


class RebuildRoot(Contract):
    """Workspace.fetch_or_create_root without a Root link: every stored group and object that is
    not loaded yet is loaded (once); the list of stored identifiers is walked with Python's
    live-list semantics, so changing it while walking is seen."""
    target = "geoh5py/workspace/workspace.py::Workspace.fetch_or_create_root"
    props = ("C19",)
    lenient = True
    bounded_scope = "flat containers with 0-4 stored identifiers per kind; each loaded entity brings along any subset of the identifiers listed after/before it as already-loaded descendants (sampled descent patterns incl. chains of 3-4 levels met outer-first and inner-first)"

    def cases(self):
        out = []
        for n in range(0, 5):
            # descent pattern: entity i brings along (loads) the set D[i] of other indices
            pats = [tuple(() for _ in range(n))]
            if n >= 2:
                pats.append(tuple(((1,) if i == 0 else ()) for i in range(n)))
                pats.append(tuple(((0,) if i == n - 1 else ()) for i in range(n)))
            if n >= 3:
                pats.append(tuple(((0, 1) if i == 2 else ()) for i in range(n)))
                pats.append(tuple(((1, 2) if i == 0 else ()) for i in range(n)))
                # chains of three levels (outer lists middle, middle lists inner) in every identifier order
                for outer, middle, inner in itertools.permutations(range(3)):
                    pats.append(tuple(((middle,) if i == outer else ((inner,) if i == middle else ())) for i in range(n)))
            if n >= 4:
                pats.append(tuple(((0, 1) if i == 2 else ()) for i in range(n)))
                pats.append(tuple(((i + 1,) if i < n - 1 else ()) for i in range(n)))
                pats.append(tuple(((i - 1,) if i > 0 else ()) for i in range(n)))
            for p in pats:
                out.append((n, p))
        return out

    def setup(self, ctx):
        import uuid

        from geoh5py.groups import ContainerGroup
        from geoh5py.workspace import Workspace

        n, pattern = ctx.case
        uids = [uuid.UUID(int=i + 1) for i in range(n)]
        loaded = set()
        me = Opaque("self", cls=Workspace)

        def load_entity(I, a, kw):
            if a[1] == "root":
                return None  # no Root link
            I.event("load", uid=a[0], etype=a[1])
            loaded.add(a[0])
            ent = Opaque(f"entity-{a[0].int}", cls=ContainerGroup)
            ent.attrs["uid"] = a[0]
            return ent

        def fetch_children(I, a, kw):
            ent = a[0]
            i = ent.attrs["uid"].int - 1
            kids = []

            def bring(ii):  # the whole stored subtree comes along (recursively=True)
                for j in (pattern[ii] if ii < len(pattern) else ()):
                    if uids[j] in loaded:
                        continue
                    loaded.add(uids[j])
                    k = Opaque(f"descendant-{j}", cls=ContainerGroup)
                    k.attrs["uid"] = uids[j]
                    kids.append(k)
                    bring(j)

            bring(i)
            return PList(kids)

        def get_entity(I, a, kw):
            if a[0] in loaded:
                e_ = Opaque("already-loaded", cls=ContainerGroup)
                return PList([e_])
            return PList([None])

        def io_call(I, a, kw):
            fn = getattr(getattr(a[0], "func", a[0]), "__name__", "")
            if fn == "fetch_children":  # the children a stored entity lists in the file
                i = a[1].int - 1
                return PDict({uids[j]: "group" for j in (pattern[i] if a[2] == "group" and i < len(pattern) else ())})
            return PList(list(uids)) if a[1] == "group" else PList([])

        for name, fn in (("load_entity", load_entity), ("fetch_children", fetch_children), ("get_entity", get_entity), ("_io_call", io_call), ("create_entity", lambda I, a, kw: Opaque("new-root"))):
            m = Opaque(name)
            m.maybe_method = fn
            me.attrs[name] = m
        ctx.env.update(uids=uids, loaded=loaded)
        return [me], {}

    def post(self, ctx, result):
        e = ctx.env
        n, pattern = ctx.case
        nested = {j for p_ in pattern for j in p_}
        direct = [p["uid"] for k, p in ctx.path.events if k == "load"]
        for i, u in enumerate(e["uids"]):
            ctx.oblige(f"stored-group-{i}-is-returned", u in e["loaded"], note=f"identifier #{i} of the flat Groups container is never loaded")
            if i in nested:
                ctx.oblige(f"nested-group-{i}-comes-with-its-parent-not-under-the-rebuilt-root", u not in direct,
                           note=f"group #{i} is stored as the child of another group but is loaded directly under the rebuilt root (its parent is altered)")
            else:
                ctx.oblige(f"top-level-group-{i}-is-loaded-once", direct.count(u) == 1)


class LoadStoredRoot(Contract):
    """fetch_or_create_root with a Root link: the loaded root and its type are marked as stored (every
    later assignment on them is then routed to the file, and refused on a read-only handle), and the
    tree below the root is loaded."""
    target = "geoh5py/workspace/workspace.py::Workspace.fetch_or_create_root"
    variant = "root-link-present"
    props = ("C10", "C19", "C01")
    lenient = True

    def setup(self, ctx):
        from geoh5py.groups import RootGroup
        from geoh5py.workspace import Workspace

        me = Opaque("self", cls=Workspace)
        root = Opaque("root", cls=RootGroup)
        rtype = Opaque("root-type")
        rtype.attrs["on_file"] = False
        root.attrs["on_file"] = False
        root.attrs["entity_type"] = rtype
        le = Opaque("load_entity")
        le.maybe_method = lambda I, a, kw: root
        me.attrs["load_entity"] = le
        fc = Opaque("fetch_children")
        fc.maybe_method = lambda I, a, kw: I.event("fetch-children", entity=a[0], recursively=kw.get("recursively", a[1] if len(a) > 1 else False))
        me.attrs["fetch_children"] = fc
        ctx.env.update(me=me, root=root, rtype=rtype)
        return [me], {}

    def post(self, ctx, result):
        e = ctx.env
        ctx.oblige("the-stored-root-becomes-the-workspace-root", e["me"].attrs.get("_root") is e["root"])
        ctx.oblige("the-root-is-marked-as-stored", e["root"].attrs.get("_on_file", e["root"].attrs.get("on_file")) is True)
        ctx.oblige("the-roots-type-is-marked-as-stored", e["rtype"].attrs.get("on_file") is True,
                   note="assignments on the root's type would bypass the file (and the read-only guard)")
        fc = [p for k, p in ctx.path.events if k == "fetch-children"]
        ctx.oblige("the-tree-below-the-root-is-loaded", len(fc) == 1 and fc[0]["entity"] is e["root"] and fc[0]["recursively"] is True)


CONTRACTS = CONTRACTS + [RebuildRoot, LoadStoredRoot]


class SurveyPairMetadataDeleted(Contract):
    """A linked survey pair one of whose entities has lost its optional Metadata dataset: the file
    opens, and the *other* entity -- which the missing item does not describe -- keeps its survey
    description (channels, unit, loop radius, its component groups, its link) in the session and in
    the file, whichever entity is looked at first and whatever the mode."""
    target = "geoh5py/io/h5_reader.py::H5Reader.fetch_metadata"
    variant = "survey-pair-metadata-deleted"
    symbolic = False
    has_native = True
    props = ("C19", "C20")
    bounded_scope = "an airborne TEM pair (channels, unit, loop radius, one component group) and a DC pair; the Metadata dataset of {receivers, transmitters} deleted with h5py; opened in {r, r+}; first read from {the stripped entity, the partner: its link to the stripped one, then its metadata}; the partner's metadata compared in the session and after another re-open (exhaustive)"

    def native_cases(self, tier, rng):
        for family in ("tem", "dc"):
            for stripped in ("receivers", "transmitters"):
                for mode in ("r", "r+"):
                    for first in ("partner-link", "partner-metadata", "stripped"):
                        yield {"family": family, "stripped": stripped, "mode": mode, "first": first}

    def native_check(self, case):
        import copy

        import h5py

        from geoh5py.workspace import Workspace

        d = tempfile.mkdtemp()
        try:
            path = os.path.join(d, "pair.geoh5")
            v = np.c_[np.arange(6.0), np.zeros(6), np.zeros(6)]
            with Workspace.create(path) as ws:
                if case["family"] == "tem":
                    from geoh5py.objects import AirborneTEMReceivers, AirborneTEMTransmitters

                    rx = AirborneTEMReceivers.create(ws, name="rx", vertices=v)
                    tx = AirborneTEMTransmitters.create(ws, name="tx", vertices=v + 1.0)
                    rx.transmitters = tx
                    rx.channels = [1e-3, 2e-3, 4e-3]
                    rx.unit = "Milliseconds (ms)"
                    rx.loop_radius = 12.5
                    dat = rx.add_data({"c1": {"values": np.arange(6.0)}, "c2": {"values": np.arange(6.0) + 1}, "c3": {"values": np.arange(6.0) + 2}})
                    rx.add_components_data({"dBdt": dat})
                else:
                    from geoh5py.objects import CurrentElectrode, PotentialElectrode

                    tx = CurrentElectrode.create(ws, name="tx", vertices=v, parts=np.zeros(6, dtype="int32"))
                    tx.add_default_ab_cell_id()
                    rx = PotentialElectrode.create(ws, name="rx", vertices=v + 2.0)
                    rx.cells = np.c_[np.arange(5), np.arange(1, 6)].astype("uint32")
                    rx.ab_cell_id = np.array([1, 2, 3, 4, 5], dtype="int32")
                    rx.current_electrodes = tx
                ids = {"receivers": rx.uid, "transmitters": tx.uid}

            def plain(md):
                def walk(x):
                    if isinstance(x, dict):
                        return {str(k): walk(v_) for k, v_ in sorted(x.items(), key=lambda kv: str(kv[0]))}
                    if isinstance(x, (list, tuple, np.ndarray)):
                        return [walk(v_) for v_ in x]
                    return str(x) if not isinstance(x, (int, float, bool, type(None))) else x
                return walk(copy.deepcopy(md))

            partner_key = "transmitters" if case["stripped"] == "receivers" else "receivers"
            with Workspace(path, mode="r") as ws:
                ref = plain(ws.get_entity(ids[partner_key])[0].metadata)
            with h5py.File(path, "r+") as f:
                proj = f[list(f)[0]]
                node = proj["Objects"]["{" + str(ids[case["stripped"]]) + "}"]
                if "Metadata" not in node:
                    return f"harness: the {case['stripped']} hold no Metadata dataset ({case})"
                del node["Metadata"]
            try:
                ws = Workspace(path, mode=case["mode"])
            except Exception as exc:
                return f"the file no longer opens after the Metadata of the {case['stripped']} was deleted: {type(exc).__name__}: {exc} ({case})"
            try:
                partner = ws.get_entity(ids[partner_key])[0]
                stripped = ws.get_entity(ids[case["stripped"]])[0]
                link = {"tem": {"receivers": "receivers", "transmitters": "transmitters"}, "dc": {"receivers": "potential_electrodes", "transmitters": "current_electrodes"}}[case["family"]]
                steps = {"partner-link": [lambda: getattr(partner, link[case["stripped"]]), lambda: partner.metadata, lambda: stripped.metadata],
                         "partner-metadata": [lambda: partner.metadata, lambda: getattr(partner, link[case["stripped"]]), lambda: stripped.metadata],
                         "stripped": [lambda: stripped.metadata, lambda: getattr(stripped, link[partner_key]), lambda: partner.metadata]}[case["first"]]
                for st in steps:
                    try:
                        st()
                    except Exception:
                        pass  # what the stripped entity can still tell is its own business (and writes are refused in mode r)
                now = plain(partner.metadata)
                if now != ref:
                    diff = [k for k in set(ref.get("EM Dataset", ref)) | set(now.get("EM Dataset", now)) if ref.get("EM Dataset", ref).get(k) != now.get("EM Dataset", now).get(k)]
                    return f"the {partner_key} of a pair whose {case['stripped']} lost their Metadata: their own survey description changed in {sorted(diff)} ({case})"
            finally:
                ws.close()
            with Workspace(path, mode="r") as ws:
                later = plain(ws.get_entity(ids[partner_key])[0].metadata)
                if later != ref:
                    return f"the stored survey description of the {partner_key} was rewritten after the {case['stripped']} lost their Metadata ({case})"
            return None
        finally:
            gc.collect()
            shutil.rmtree(d, ignore_errors=True)


CONTRACTS = CONTRACTS + [SurveyPairMetadataDeleted]


class EmptyConcatContainerDeleted(Contract):
    """A drillhole group whose holes carry no data yet stores an empty 'Data' container next to its
    tables: without it (an empty child container is an optional item) the file opens and every hole
    comes back with its collar and its survey."""
    target = "geoh5py/io/h5_reader.py::H5Reader.fetch_concatenated_values"
    variant = "empty-data-container-deleted"
    symbolic = False
    has_native = True
    props = ("C19",)
    bounded_scope = "a drillhole group with 1-3 holes (3-station surveys) and no data, format versions 2.0 / 2.1; the empty 'Concatenated Data/Data' container deleted with h5py; collars and surveys of every hole compared (exhaustive)"

    def native_cases(self, tier, rng):
        for n in (1, 2, 3):
            for version in (2.0, 2.1):
                yield {"holes": n, "version": version}

    def native_check(self, case):
        import h5py

        from geoh5py.groups import DrillholeGroup
        from geoh5py.objects import Drillhole
        from geoh5py.workspace import Workspace

        d = tempfile.mkdtemp()
        try:
            path = os.path.join(d, "e.geoh5")
            with Workspace.create(path, version=case["version"]) as ws:
                dg = DrillholeGroup.create(ws, name="dg")
                for k in range(case["holes"]):
                    Drillhole.create(ws, parent=dg, name=f"h{k}", collar=[float(k), 1.0, 2.0], surveys=np.c_[np.r_[0.0, 50.0, 100.0], np.r_[0.0, 10.0 + k, 20.0], -80.0 * np.ones(3)])

            def look():
                with Workspace(path, mode="r") as ws:
                    return {h.name: ([float(h.collar[c]) for c in ("x", "y", "z")], np.asarray(h.surveys.tolist() if hasattr(h.surveys, "tolist") else h.surveys, dtype=float).round(4).tolist()) for h in ws.get_entity("dg")[0].children}

            ref = look()
            removed = 0
            with h5py.File(path, "r+") as f:
                proj = f[list(f)[0]]
                for key in proj["Groups"]:
                    node = proj["Groups"][key]
                    if "Concatenated Data" in node and "Data" in node["Concatenated Data"] and len(node["Concatenated Data"]["Data"]) == 0:
                        del node["Concatenated Data"]["Data"]
                        removed += 1
            if removed != 1:
                return None  # the writer keeps no empty container here: nothing to delete
            try:
                got = look()
            except Exception as exc:
                return f"the file no longer opens after the empty 'Data' container of its drillhole group was deleted: {type(exc).__name__}: {exc} ({case})"
            if got != ref:
                bad = sorted(k for k in ref if got.get(k) != ref[k])
                return f"deleting the empty 'Data' container of a drillhole group altered the holes {bad}: {got.get(bad[0])} instead of {ref[bad[0]]} ({case})"
            return None
        finally:
            gc.collect()
            shutil.rmtree(d, ignore_errors=True)


CONTRACTS = CONTRACTS + [EmptyConcatContainerDeleted]
