"""C10 / C09: reading never writes.  Every public property of every entity, data and type of a stored
project is read in a workspace opened read-only (no read may fail for wanting to write, the bytes of
the file stay as they are) and in a writable one (no node of the file changes)."""
from __future__ import annotations

import hashlib
import inspect
import os
import shutil
import tempfile

from pyvc.contracts import Contract


class GettersDoNotWrite(Contract):
    target = "geoh5py/workspace/workspace.py::Workspace.update_attribute"
    variant = "getters-do-not-write"
    symbolic = False
    has_native = True
    native_shards = 4
    props = ("C10", "C09")
    bounded_scope = ("one stored object per kind in {points, curve, surface, grid2d, geoimage, block model, octree, drape model, drillhole, airborne TEM pair, DC/IP pair, tipper pair, group}; "
                     "every public property of every object, group, data and type read once, in a workspace opened with mode 'r' and in one opened 'r+' (exhaustive over the classes' properties)")

    def native_cases(self, tier, rng):
        from contracts.copy_wf import KINDS

        for kind in KINDS:
            for mode in ("r", "r+"):
                yield {"kind": kind, "mode": mode}

    def native_check(self, case):
        from contracts.copy_wf import build
        from contracts.histories import file_digests
        from geoh5py.workspace import Workspace

        d = tempfile.mkdtemp()
        try:
            path = os.path.join(d, "g.geoh5")
            with Workspace.create(path) as ws:
                build(ws, case["kind"])
            sha = hashlib.sha256(open(path, "rb").read()).hexdigest()
            before = file_digests(path)
            refused = []
            with Workspace(path, mode=case["mode"]) as ws:
                for ent in list(ws.objects) + list(ws.groups) + list(ws.data) + list(ws.types):
                    for attr in sorted(set(dir(type(ent)))):
                        if attr.startswith("_") or not isinstance(inspect.getattr_static(type(ent), attr, None), property):
                            continue
                        try:
                            getattr(ent, attr)
                        except UserWarning as exc:
                            if "read-only" in str(exc) or "mode" in str(exc):
                                refused.append(f"{type(ent).__name__}.{attr}")
                        except Exception:
                            pass  # a property that cannot answer for this entity is not this contract's subject
            if refused:
                return f"reading {refused[:4]} in a workspace opened read-only was refused as an attempt to write ({case})"
            if case["mode"] == "r":
                if hashlib.sha256(open(path, "rb").read()).hexdigest() != sha:
                    return f"reading the properties of a {case['kind']} changed the bytes of a file opened read-only ({case})"
                return None
            after = file_digests(path)
            changed = sorted(k for k in set(before) | set(after) if before.get(k) != after.get(k))
            if changed:
                return f"reading the properties of a {case['kind']} changed the file at {[c[-60:] for c in changed[:3]]} ({case})"
            return None
        finally:
            shutil.rmtree(d, ignore_errors=True)


CONTRACTS = [GettersDoNotWrite]
