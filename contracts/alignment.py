"""C07: data stay aligned with the geometry they are attached to."""
from __future__ import annotations

import itertools

import numpy as np
import z3

from pyvc import theory
from pyvc.contracts import Contract, LoopSpec
from pyvc.core import RaiseSig, fresh_name
from pyvc.models_np import Z, select_cache, sym_arr
from pyvc.values import AbsObj, Arr, Obj, Opaque, PList, SList, mk, sym, to_z3, zbool


# ------------------------------------------------------------------------------------------
# native oracle shared by the removal contracts
# ------------------------------------------------------------------------------------------


def _build(ws, case):
    from geoh5py.objects import Curve, Points, Surface

    n = case["n"]
    verts = np.c_[np.arange(n, dtype=float), np.arange(n, dtype=float) * 10, np.zeros(n)]
    kind = case["kind"]
    if kind == "points":
        obj = Points.create(ws, vertices=verts)
    elif kind == "curve":
        obj = Curve.create(ws, vertices=verts, cells=np.array(case["cells"], dtype="uint32"))
    else:
        obj = Surface.create(ws, vertices=verts, cells=np.array(case["cells"], dtype="uint32"))
    data = {}
    obj.add_data({"v_float": {"values": np.arange(n, dtype=float) + 0.5, "association": "VERTEX"}})
    obj.add_data({"v_int": {"values": np.arange(n, dtype="int32") + 100, "association": "VERTEX"}})
    obj.add_data({"v_text": {"values": np.array([f"t{i}" for i in range(n)]), "association": "VERTEX", "type": "text"}})
    if kind != "points":
        nc = len(case["cells"])
        obj.add_data({"c_float": {"values": np.arange(nc, dtype=float) + 0.25, "association": "CELL"}})
        obj.add_data({"c_text": {"values": np.array([f"c{i}" for i in range(nc)]), "association": "CELL", "type": "text"}})
    return obj, verts


def _state(obj):
    out = {"vertices": np.array(obj.vertices, dtype=float), "cells": None if getattr(obj, "cells", None) is None or obj.__class__.__name__ == "Points" else np.array(obj.cells, dtype=int)}
    for ch in obj.children:
        if hasattr(ch, "values") and getattr(ch, "association", None) is not None:
            v = ch.values
            out[ch.name] = None if v is None else np.array(v)
    return out


def _consistent(obj):
    """geometry and data mutually consistent: counts match, cells reference existing vertices."""
    st = _state(obj)
    n = len(st["vertices"])
    for name, v in st.items():
        if name.startswith("v_") and v is not None and len(v) != n:
            return f"{name} has {len(v)} entries for {n} vertices"
    if st["cells"] is not None:
        nc = len(st["cells"])
        if nc and (st["cells"].min() < 0 or st["cells"].max() >= n):
            return f"cells reference vertex {st['cells'].max()} of {n}"
        for name, v in st.items():
            if name.startswith("c_") and v is not None and len(v) != nc:
                return f"{name} has {len(v)} entries for {nc} cells"
    return None


def check_removal(case):
    """Run remove_vertices / remove_cells on a real object and compare with the property's wording."""
    from geoh5py.workspace import Workspace

    with Workspace() as ws:
        obj, verts = _build(ws, case)
        before = _state(obj)
        n = case["n"]
        idx = case["indices"]
        arg = idx if case.get("as_list", True) else np.array(idx, dtype=int)
        try:
            if case["op"] == "remove_vertices":
                obj.remove_vertices(arg)
            else:
                obj.remove_cells(arg)
        except Exception as exc:
            bad = _consistent(obj)
            if bad:
                return f"{case['op']}({idx}) raised {type(exc).__name__} and left the object inconsistent: {bad} ({case})"
            # a refused / failed operation is allowed as long as it leaves a consistent object
            # and (the property's wording) every surviving element kept its value
            mid = _state(obj)
            if len(mid["vertices"]) == len(before["vertices"]):
                for name in before:
                    same = (mid[name] is None and before[name] is None) or (mid[name] is not None and before[name] is not None and np.array_equal(mid[name], before[name]))
                    if not same:
                        return f"{case['op']}({idx}) raised {type(exc).__name__} but changed {name} ({case})"
            return None
        after = _state(obj)
        if case["op"] == "remove_vertices":
            gone = {i % n for i in idx}
            keep = [i for i in range(n) if i not in gone]
            if not np.array_equal(after["vertices"], before["vertices"][keep]):
                return f"surviving vertices differ ({case})"
            for name in before:
                if name.startswith("v_") and before[name] is not None:
                    if after[name] is None or len(after[name]) != len(keep) or not np.array_equal(after[name], before[name][keep]):
                        return f"{name} after remove_vertices({idx}) is {None if after[name] is None else after[name].tolist()} expected {before[name][keep].tolist()} ({case})"
            if before["cells"] is not None:
                ckeep = [c for c, cell in enumerate(before["cells"]) if not (set(map(int, cell)) & gone)]
                exp_coords = before["vertices"][before["cells"][ckeep]] if ckeep else np.zeros((0,) + before["cells"].shape[1:] + (3,))
                got_cells = after["cells"] if after["cells"] is not None else np.zeros((0, before["cells"].shape[1]), dtype=int)
                if len(got_cells) != len(ckeep):
                    return f"{len(got_cells)} cells survive, expected {len(ckeep)} ({case})"
                if len(ckeep):
                    if got_cells.min() < 0 or got_cells.max() >= len(keep):
                        return f"cells reference a vertex that does not exist ({got_cells.tolist()}) ({case})"
                    if not np.array_equal(after["vertices"][got_cells], exp_coords):
                        return f"a surviving cell no longer joins the same coordinates: cells {got_cells.tolist()} ({case})"
                for name in before:
                    if name.startswith("c_") and before[name] is not None:
                        if after[name] is None or not np.array_equal(after[name], before[name][ckeep]):
                            return f"{name} after remove_vertices({idx}) does not follow the surviving cells ({case})"
        else:
            nc = len(before["cells"])
            gone = {i % nc for i in idx}
            ckeep = [c for c in range(nc) if c not in gone]
            if not np.array_equal(after["cells"], before["cells"][ckeep]) or not np.array_equal(after["vertices"], before["vertices"]):
                return f"surviving cells / vertices differ after remove_cells({idx}) ({case})"
            for name in before:
                if name.startswith("c_") and before[name] is not None:
                    if after[name] is None or not np.array_equal(after[name], before[name][ckeep]):
                        return f"{name} after remove_cells({idx}) does not follow the surviving cells ({case})"
                if name.startswith("v_") and before[name] is not None and not np.array_equal(after[name], before[name]):
                    return f"{name} changed although no vertex was removed ({case})"
        bad = _consistent(obj)
        return f"{bad} ({case})" if bad else None


def removal_cases(tier, rng, kinds, ops):
    n = 5
    geoms = {
        "points": [None],
        "curve": [[[0, 1], [1, 2], [2, 3], [3, 4]], [[0, 1], [2, 3]], [[3, 4], [0, 1]], [[1, 2]]],
        "surface": [[[0, 1, 2], [2, 3, 4]], [[0, 1, 2]], [[4, 3, 2], [0, 1, 2], [1, 2, 3]]],
    }
    idx_sets = [[0], [4], [2], [0, 4], [1, 2], [3, 1], [2, 2], [4, 2, 2], [0, 1, 2, 3], [-1], [1, 3, 1]]
    for kind in kinds:
        for cells in geoms[kind]:
            for op in ops:
                if op == "remove_cells" and kind == "points":
                    continue
                for idx in idx_sets:
                    if op == "remove_cells":
                        nc = len(cells)
                        idx2 = sorted({i for i in idx if -nc <= i < nc}, reverse=True)
                        if not idx2 or len({i % nc for i in idx2}) >= nc:
                            continue  # removing every cell is outside the property's quantifier (all-but-one at most)
                        yield {"kind": kind, "n": n, "cells": cells, "op": op, "indices": idx2, "as_list": True}
                    else:
                        for as_list in (True, False):
                            yield {"kind": kind, "n": n, "cells": cells, "op": op, "indices": idx, "as_list": as_list}


class _NativeRemoval(Contract):
    symbolic = False
    has_native = True
    props = ("C07",)
    kinds = ()
    ops = ()

    def native_cases(self, tier, rng):
        return removal_cases(tier, rng, self.kinds, self.ops)

    def native_check(self, case):
        if _known_no_touched_cell(case):
            return None
        return check_removal(case)


def _known_no_touched_cell(case):
    return False


class PointsRemoveVerticesNative(_NativeRemoval):
    target = "geoh5py/objects/points.py::Points.remove_vertices"
    variant = "native"
    kinds = ("points",)
    ops = ("remove_vertices",)
    bounded_scope = "5-point cloud with float/int/text vertex data; 11 index sets incl. repeated, unsorted, negative, first/last/all-but-one; list and array arguments (exhaustive over the listed shapes)"


class CellRemoveNative(_NativeRemoval):
    target = "geoh5py/objects/cell_object.py::CellObject.remove_vertices"
    variant = "native"
    kinds = ("curve", "surface")
    ops = ("remove_vertices", "remove_cells")
    bounded_scope = "5-vertex curves (4 cell lists incl. unused vertices, unordered segments) and surfaces (3 cell lists) with float/int/text vertex and cell data; 11 index sets incl. repeated, unsorted, negative; list and array arguments (exhaustive over the listed shapes)"


CONTRACTS = [PointsRemoveVerticesNative, CellRemoveNative]


class ReleasedCacheNative(Contract):
    """The aligned state reached by a removal is also the state an object shows once its cached
    arrays are released (clear_array_attributes, what copy(clear_cache=True) does) and the state a
    later session reads: no derived cache (a curve's parts) may bring the old geometry back."""
    target = "geoh5py/objects/cell_object.py::CellObject.remove_cells"
    variant = "released-cache"
    symbolic = False
    has_native = True
    native_shards = 4
    props = ("C07",)
    bounded_scope = "file-backed 5-vertex curves (6 cell lists incl. a closed ring and a triangle) and surfaces (2) and a point cloud with vertex/cell data; parts read or not before the operation; remove_vertices / remove_cells with 4 index sets, or no removal at all (release through clear_array_attributes or through copy(clear_cache=True)); an object and its copy, one of them losing vertices (the other must not notice); state compared right after the operation, after clear_array_attributes(recursive) and after re-opening the file"

    def native_cases(self, tier, rng):
        geoms = {"points": [None], "curve": [[[0, 1], [1, 2], [2, 3], [3, 4]], [[0, 1], [2, 3]], [[3, 4], [0, 1]], [[0, 1], [1, 2], [3, 4]], [[0, 1], [1, 2], [2, 3], [3, 4], [4, 0]], [[0, 1], [1, 2], [0, 2], [3, 4]]],
                 "surface": [[[0, 1, 2], [2, 3, 4]], [[4, 3, 2], [0, 1, 2], [1, 2, 3]]]}
        # releasing the cached arrays alone (what copy(clear_cache=True) does to its source) changes nothing either
        for kind, cl in geoms.items():
            for cells in cl:
                for how in ("clear", "copy-clear_cache"):
                    for parts_read in ((False, True) if kind == "curve" else (False,)):
                        yield {"kind": kind, "n": 5, "cells": cells, "op": "none", "indices": [], "parts_read": parts_read, "how": how}
        # an object and its copy are two objects: removing from one (also vertices no cell uses) leaves the other as it was
        twins = {"curve": [[[0, 2], [2, 3], [3, 4]], [[0, 1], [1, 2], [2, 3], [3, 4]]], "surface": [[[0, 2, 3], [3, 4, 0]], [[0, 1, 2], [2, 3, 4]]], "points": [None]}
        for kind, cl in twins.items():
            for cells in cl:
                for idx in ([1], [0], [4], [1, 4]):
                    for who in ("source", "copy"):
                        yield {"kind": kind, "n": 5, "cells": cells, "op": "remove_vertices", "indices": idx, "parts_read": False, "how": "twin", "who": who}
        for kind, cl in geoms.items():
            for cells in cl:
                for op in ("remove_vertices", "remove_cells"):
                    if kind == "points" and op == "remove_cells":
                        continue
                    for idx in ([0], [4], [2], [1, 3]):
                        if op == "remove_cells":
                            idx = sorted({i for i in idx if i < len(cells)})
                            if not idx or len(idx) >= len(cells):
                                continue
                        for parts_read in ((False, True) if kind == "curve" else (False,)):
                            yield {"kind": kind, "n": 5, "cells": cells, "op": op, "indices": idx, "parts_read": parts_read}

    def native_check(self, case):
        import os
        import shutil
        import tempfile

        from geoh5py.shared.utils import clear_array_attributes
        from geoh5py.workspace import Workspace

        def same(a, b):
            for k in set(a) | set(b):
                x, y = a.get(k), b.get(k)
                if (x is None) != (y is None) or (x is not None and (np.shape(x) != np.shape(y) or not np.array_equal(x, y))):
                    return f"{k}: {None if x is None else np.asarray(x).tolist()} became {None if y is None else np.asarray(y).tolist()}"
            return None

        d = tempfile.mkdtemp()
        try:
            path = os.path.join(d, "r.geoh5")
            with Workspace.create(path) as ws:
                obj, _ = _build(ws, case)
                uid = obj.uid
                if case["parts_read"]:
                    obj.parts  # materialise the derived cache
                if case.get("how") == "twin":
                    state0 = lambda o: {k: (None if v is None else np.atleast_1d(v)) for k, v in _state(o).items()}
                    twin = obj.copy()
                    actor, bystander = (obj, twin) if case["who"] == "source" else (twin, obj)
                    before = state0(bystander)
                    try:
                        actor.remove_vertices(list(case["indices"]))
                    except Exception:
                        pass  # a refusal must leave the bystander alone just as well
                    bad = same(before, state0(bystander)) or _consistent(bystander) or _consistent(actor)
                    if bad:
                        return f"remove_vertices({case['indices']}) on the {case['who']} of a copied pair changed the other object: {bad} ({case})"
                    return None
                try:
                    if case["op"] != "none":
                        getattr(obj, case["op"])(list(case["indices"]))
                except Exception:
                    return None  # refusals are CellRemoveNative's subject
                # text data of a one-element geometry is stored as a single string and read as a bare str:
                # the same one entry (C08 treats the two spellings as equal), normalised here
                state = lambda o: {k: (None if v is None else np.atleast_1d(v)) for k, v in _state(o).items()}
                after = state(obj)
                bad = _consistent(obj)
                if bad:
                    return f"{bad} ({case})"
                if case.get("how") == "copy-clear_cache":
                    obj.copy(clear_cache=True)
                else:
                    clear_array_attributes(obj, recursive=True)
                bad = same(after, state(obj))
                if bad:
                    return f"after {case['op']}({case['indices']}) and a release of the cached arrays: {bad} ({case})"
            with Workspace(path, mode="r") as ws:
                bad = same(after, state(ws.get_entity(uid)[0]))
                if bad:
                    return f"after {case['op']}({case['indices']}) a later session reads another state: {bad} ({case})"
            return None
        finally:
            shutil.rmtree(d, ignore_errors=True)


CONTRACTS = CONTRACTS + [ReleasedCacheNative]


# ------------------------------------------------------------------------------------------
# deductive part
# ------------------------------------------------------------------------------------------


class FormatLength(Contract):
    target = "geoh5py/data/numeric_data.py::NumericData.format_length"
    props = ("C07", "C08")
    has_native = True
    attr_overrides = {"n_values": lambda I, obj: obj.fields["_n_values"], "nan_value": lambda I, obj: obj.fields["_nan_value"], "association": lambda I, obj: obj.fields["_association"]}
    trusted = ("n_values / nan_value / association getters (n_values is the parent's vertex or cell count)",)
    bounded_scope = "float data on a 3-vertex object, value arrays of length 0-5, vertex / cell / object association (exhaustive)"

    def cases(self):
        return ["no-count", "VERTEX", "CELL", "OBJECT"]

    def setup(self, ctx):
        from geoh5py.data import FloatData
        from geoh5py.data.data_association_enum import DataAssociationEnum

        n = None if ctx.case == "no-count" else ctx.int("n_values", 0)
        m = ctx.int("len_values", 0)
        vals = sym_arr("values", (m.e,), "real")
        ndv = sym("nan_value", "real")
        assoc = DataAssociationEnum.VERTEX if ctx.case == "no-count" else DataAssociationEnum[ctx.case]
        obj = Obj(FloatData, {"_n_values": n, "_nan_value": ndv, "_association": assoc})
        ctx.env.update(n=n, m=m, vals=vals, ndv=ndv)
        return [obj, vals], {}

    def post(self, ctx, result):
        e = ctx.env
        ok = isinstance(result, Arr) and result.ndim == 1
        ctx.oblige("returns-a-1d-array", ok)
        if not ok:
            return
        i = z3.Int(fresh_name("i"))
        if e["n"] is None:
            ctx.oblige("no-expected-count-values-unchanged", z3.And(Z(result.shape[0]) == e["m"].e, z3.Implies(z3.And(i >= 0, i < e["m"].e), result.elem(i) == e["vals"].elem(i))))
            return
        n, m = e["n"].e, e["m"].e
        ctx.oblige("one-entry-per-vertex-or-cell", z3.Implies(m <= n, Z(result.shape[0]) == n) if ctx.case != "OBJECT" else z3.Implies(m < n, Z(result.shape[0]) == n))
        ctx.oblige("given-values-kept-in-place", z3.Implies(z3.And(i >= 0, i < m, i < Z(result.shape[0])), result.elem(i) == e["vals"].elem(i)))
        ctx.oblige("missing-entries-are-no-data", z3.Implies(z3.And(i >= m, i < n), result.elem(i) == e["ndv"].e))
        if ctx.case != "OBJECT":
            ctx.oblige("longer-arrays-never-accepted", m <= n)

    def post_raises(self, ctx, sig):
        e = ctx.env
        ctx.oblige("raises-ValueError-only", sig.exc_class is ValueError, kind="post-exc")
        ctx.oblige("refuses-only-arrays-longer-than-the-geometry", e["n"] is not None and ctx.case != "OBJECT" and True, kind="post-exc")
        if e["n"] is not None:
            ctx.oblige("refused-array-is-longer-than-the-geometry", e["m"].e > e["n"].e, kind="post-exc")

    def native_cases(self, tier, rng):
        for assoc in ("VERTEX", "CELL", "OBJECT"):
            for m in range(0, 6):
                yield {"assoc": assoc, "m": m}

    def native_check(self, case):
        from geoh5py.objects import Curve
        from geoh5py.workspace import Workspace

        with Workspace() as ws:
            c = Curve.create(ws, vertices=np.c_[np.arange(3.0), np.zeros(3), np.zeros(3)])
            n = {"VERTEX": 3, "CELL": 2, "OBJECT": None}[case["assoc"]]
            first = np.arange(n if n else 1, dtype=float)
            d = c.add_data({"d": {"values": first, "association": case["assoc"]}})
            vals = np.arange(case["m"], dtype=float) + 10
            try:
                d.values = vals
            except ValueError:
                return None if (n is not None and case["m"] > n) else f"refused {case}"
            got = np.asarray(d.values)
            if n is not None:
                if case["m"] > n:
                    return f"accepted {case['m']} values for {n} elements"
                exp = np.r_[vals, np.full(n - case["m"], np.nan)]
                if len(got) != n or not np.array_equal(got, exp, equal_nan=True):
                    return f"values {got.tolist()} expected {exp.tolist()} ({case})"
        return None


def _children(ctx, n, nc):
    """One child of each kind (the loop over children treats them independently)."""
    from geoh5py.data.data_association_enum import DataAssociationEnum as A

    from geoh5py.data import FloatData, TextData
    from geoh5py.groups import PropertyGroup

    classes = {"vertex_data": FloatData, "cell_data": FloatData, "object_data": FloatData, "no_values": PropertyGroup, "vertex_data_2": TextData}

    def child(tag, assoc, length, with_values=True):
        attrs = {"association": assoc, "name": tag, "workspace": Opaque("ws")}
        if with_values:
            arr = sym_arr(tag + "_values", (length,), "real")
            attrs["_values"] = arr
        ctx.env.setdefault("child_values", {})[tag] = attrs.get("_values")
        return AbsObj(tag, attrs, cls=classes[tag])

    m = ctx.int("n_object_values", 0)
    kids = [child("vertex_data", A.VERTEX, n), child("cell_data", A.CELL, nc), child("object_data", A.OBJECT, m.e), child("no_values", None, 0, with_values=False), child("vertex_data_2", A.VERTEX, n)]
    ctx.env["kids"] = {k.tag: k for k in kids}
    return PList(kids)


class VerticesSetStub(Contract):
    """Call summary of Points.vertices.fset (trusted here; its write-through is C03's, its shape
    checks are restated): rejects non (n,3) input and fewer rows than currently stored."""
    target = "geoh5py/objects/points.py::Points.vertices.fset"
    symbolic = False
    props = ()

    def apply(self, I, args, kwargs):
        me, xyz = args
        if not (isinstance(xyz, Arr) and xyz.ndim == 2 and xyz.shape[1] == 3):
            I.raise_(ValueError)
        cur = me.fields.get("_vertices")
        if cur is not None:
            if I.path.branch(Z(xyz.shape[0]) < Z(cur.shape[0]), "fewer-vertices"):
                I.raise_(ValueError)
        me.fields["_vertices"] = xyz
        I.event("persist", entity=me, group="vertices", arr=xyz)
        return None


class CellsSetStub(Contract):
    target = "geoh5py/objects/curve.py::Curve.cells.fset"
    symbolic = False
    props = ()

    def apply(self, I, args, kwargs):
        me, cells = args
        if not (isinstance(cells, Arr) and cells.ndim == 2):
            I.raise_(ValueError)
        cur = me.fields.get("_cells")
        if cur is not None:
            if I.path.branch(Z(cells.shape[0]) < Z(cur.shape[0]), "fewer-cells"):
                I.raise_(ValueError)
        me.fields["_cells"] = cells
        me.fields["_parts"] = None
        I.event("cells-set", arr=cells)
        I.event("persist", entity=me, group="cells", arr=cells)
        return None


class SurfaceCellsSetStub(CellsSetStub):
    target = "geoh5py/objects/surface.py::Surface.cells.fset"


def _in_removed(idx, n, i):
    q = z3.Int(fresh_name("q"))
    e = idx.elem(q)
    return z3.Exists([q], z3.And(q >= 0, q < Z(idx.shape[0]), z3.If(e >= 0, e, e + n) == i))


def _written_through(ctx, obj, field, group):
    """the array now held in `field` is the one the public setter stored and persisted last"""
    cur = obj.fields.get(field)
    last = [p for k, p in ctx.path.events if k == "persist" and p.get("group") == group and p.get("entity") is obj]
    return bool(last) and last[-1].get("arr") is cur


class PointsRemoveVertices(Contract):
    target = "geoh5py/objects/points.py::Points.remove_vertices"
    props = ("C07",)
    uses = (VerticesSetStub,)
    attr_overrides = {"vertices": lambda I, obj: obj.fields["_vertices"], "children": lambda I, obj: obj.fields["_children"]}
    trusted = ("vertices getter returns the stored (n,3) array; child.values assignment (NumericData.values.fset -> format_length, verified separately)",)

    def setup(self, ctx):
        from geoh5py.objects import Points

        n = ctx.int("n", 1)
        k = ctx.int("n_indices", 0)
        V = sym_arr("vertices", (n.e, 3), "real")
        idx = sym_arr("indices", (k.e,), "int")
        obj = Obj(Points, {"_vertices": V, "_children": _children(ctx, n.e, ctx.int("nc", 0).e)})
        ctx.env.update(n=n, V=V, idx=idx, obj=obj)
        return [obj, idx], {}

    def post(self, ctx, result):
        e = ctx.env
        obj, V, idx, n = e["obj"], e["V"], e["idx"], e["n"].e
        newV = obj.fields["_vertices"]
        ok = newV is not V and getattr(newV, "sel", None) is not None
        ctx.oblige("vertices-replaced-by-a-selection-of-the-old-ones", ok)
        ctx.oblige("the-reduced-vertices-are-written-through-to-the-file", _written_through(ctx, obj, "_vertices", "vertices"), note="the stored vertices were not assigned through the persisting setter")
        if not ok:
            return
        _, keep, pos, rank = newV.sel
        m = Z(newV.shape[0])
        t, a, i = z3.Ints(f"{fresh_name('t')} {fresh_name('a')} {fresh_name('i')}")
        ctx.oblige("surviving-vertices-keep-their-coordinates-and-order", z3.Implies(z3.And(t >= 0, t < m, a >= 0, a < 3), z3.And(newV.elem(t, a) == V.elem(pos(t), a), pos(t) >= 0, pos(t) < n, keep.elem(pos(t)))))
        ctx.oblige("exactly-the-requested-vertices-are-removed", z3.Implies(z3.And(i >= 0, i < n), keep.elem(i) == z3.Not(_in_removed(idx, n, i))))
        ctx.oblige("every-kept-vertex-survives", z3.Implies(z3.And(i >= 0, i < n, keep.elem(i)), z3.And(rank(i) >= 0, rank(i) < m, pos(rank(i)) == i)))
        for tag in ("vertex_data", "vertex_data_2"):
            kid = e["kids"][tag]
            old = e["child_values"][tag]
            new = kid.attrs.get("values")
            okc = isinstance(new, Arr)
            ctx.oblige(f"{tag}-values-reassigned", okc)
            if okc:
                ctx.oblige(f"{tag}-has-one-entry-per-surviving-vertex", Z(new.shape[0]) == m)
                ctx.oblige(f"{tag}-each-surviving-vertex-keeps-its-value", z3.Implies(z3.And(t >= 0, t < m), new.elem(t) == old.elem(pos(t))))
        for tag in ("cell_data", "object_data", "no_values"):
            ctx.oblige(f"{tag}-untouched", "values" not in e["kids"][tag].attrs)

    def post_raises(self, ctx, sig):
        e = ctx.env
        ctx.oblige("a-refused-removal-changes-nothing", e["obj"].fields["_vertices"] is e["V"] and all("values" not in k.attrs for k in e["kids"].values()), kind="post-exc")
        ctx.oblige("raises-only-index-errors", sig.exc_class in (ValueError, IndexError), kind="post-exc")


CONTRACTS = [PointsRemoveVerticesNative, CellRemoveNative, ReleasedCacheNative, FormatLength, VerticesSetStub, CellsSetStub, SurfaceCellsSetStub, PointsRemoveVertices]


def _cell_obj(ctx, w):
    from geoh5py.objects import Curve, Surface

    n = ctx.int("n", 1)
    nc = ctx.int("nc", 1)
    V = sym_arr("vertices", (n.e, 3), "real")
    C = sym_arr("cells", (nc.e, w), "int")
    c, j = z3.Ints(f"{fresh_name('c')} {fresh_name('j')}")
    ctx.assume(z3.ForAll([c, j], z3.Implies(z3.And(c >= 0, c < nc.e, j >= 0, j < w), z3.And(C.elem(c, j) >= 0, C.elem(c, j) < n.e)), patterns=[C.elem(c, j)]))
    obj = Obj(Curve if w == 2 else Surface, {"_vertices": V, "_cells": C, "_parts": None, "_children": _children(ctx, n.e, nc.e)})
    ctx.env.update(n=n, nc=nc, V=V, C=C, obj=obj, w=w)
    return obj


class CellRemoveCells(Contract):
    target = "geoh5py/objects/cell_object.py::CellObject.remove_cells"
    props = ("C07",)
    uses = (CellsSetStub, SurfaceCellsSetStub)
    attr_overrides = {"vertices": lambda I, obj: obj.fields["_vertices"], "cells": lambda I, obj: obj.fields["_cells"], "children": lambda I, obj: obj.fields["_children"]}
    trusted = ("vertices/cells getters return the stored arrays; cells setter (C03) ; child.values assignment",)

    def cases(self):
        return [2, 3]

    def setup(self, ctx):
        obj = _cell_obj(ctx, ctx.case)
        k = ctx.int("n_indices", 1)
        idx = sym_arr("indices", (k.e,), "int")
        ctx.env.update(idx=idx)
        return [obj, idx], {}

    def post(self, ctx, result):
        e = ctx.env
        obj, C, idx, nc, w = e["obj"], e["C"], e["idx"], e["nc"].e, e["w"]
        newC = obj.fields["_cells"]
        ok = newC is not C and getattr(newC, "sel", None) is not None
        ctx.oblige("cells-replaced-by-a-selection-of-the-old-ones", ok)
        ctx.oblige("the-reduced-cells-are-written-through-to-the-file", _written_through(ctx, obj, "_cells", "cells"), note="the stored cells were not assigned through the persisting setter")
        if not ok:
            return
        _, keep, pos, rank = newC.sel
        m = Z(newC.shape[0])
        t, j, i = z3.Ints(f"{fresh_name('t')} {fresh_name('j')} {fresh_name('i')}")
        ctx.oblige("surviving-cells-keep-their-vertices-and-order", z3.Implies(z3.And(t >= 0, t < m, j >= 0, j < w), z3.And(newC.elem(t, j) == C.elem(pos(t), j), keep.elem(pos(t)), pos(t) >= 0, pos(t) < nc)))
        ctx.oblige("exactly-the-requested-cells-are-removed", z3.Implies(z3.And(i >= 0, i < nc), keep.elem(i) == z3.Not(_in_removed(idx, nc, i))))
        ctx.oblige("vertices-untouched", obj.fields["_vertices"] is e["V"])
        kid, old = e["kids"]["cell_data"], e["child_values"]["cell_data"]
        new = kid.attrs.get("values")
        okc = isinstance(new, Arr)
        ctx.oblige("cell-data-reassigned", okc)
        if okc:
            ctx.oblige("cell-data-has-one-entry-per-surviving-cell", Z(new.shape[0]) == m)
            ctx.oblige("each-surviving-cell-keeps-its-value", z3.Implies(z3.And(t >= 0, t < m), new.elem(t) == old.elem(pos(t))))
        for tag in ("vertex_data", "vertex_data_2", "object_data", "no_values"):
            ctx.oblige(f"{tag}-untouched", "values" not in e["kids"][tag].attrs)

    def post_raises(self, ctx, sig):
        e = ctx.env
        ctx.oblige("a-refused-removal-changes-nothing", e["obj"].fields["_cells"] is e["C"] and e["obj"].fields["_vertices"] is e["V"] and all("values" not in k.attrs for k in e["kids"].values()), kind="post-exc")


class CellRemoveVertices(Contract):
    target = "geoh5py/objects/cell_object.py::CellObject.remove_vertices"
    props = ("C07",)
    uses = (VerticesSetStub, CellsSetStub, SurfaceCellsSetStub)
    attr_overrides = CellRemoveCells.attr_overrides
    trusted = CellRemoveCells.trusted
    max_paths = 400

    def cases(self):
        return [2, 3]

    def setup(self, ctx):
        obj = _cell_obj(ctx, ctx.case)
        k = ctx.int("n_indices", 1)
        idx = sym_arr("indices", (k.e,), "int")
        ctx.env.update(idx=idx)
        return [obj, idx], {}

    def post(self, ctx, result):
        e = ctx.env
        obj, V, C, idx, n, nc, w = e["obj"], e["V"], e["C"], e["idx"], e["n"].e, e["nc"].e, e["w"]
        newV, newC = obj.fields["_vertices"], obj.fields["_cells"]
        ok = isinstance(newV, Arr) and newV is not V and getattr(newV, "sel", None) is not None and isinstance(newC, Arr)
        ctx.oblige("geometry-replaced-by-selections", ok)
        ctx.oblige("the-reduced-vertices-are-written-through-to-the-file", _written_through(ctx, obj, "_vertices", "vertices"), note="the stored vertices were not assigned through the persisting setter")
        if isinstance(newC, Arr) and newC is not C:
            ctx.oblige("the-reduced-cells-are-written-through-to-the-file", _written_through(ctx, obj, "_cells", "cells"), note="the stored cells were not assigned through the persisting setter")
        if not ok:
            return
        _, vmask, vpos, vrank = newV.sel
        m = Z(newV.shape[0])
        t, a, i, c, j = z3.Ints(f"{fresh_name('t')} {fresh_name('a')} {fresh_name('i')} {fresh_name('c')} {fresh_name('j')}")
        kept = lambda x: z3.Not(_in_removed(idx, n, x))
        ctx.oblige("surviving-vertices-keep-their-coordinates-and-order", z3.Implies(z3.And(t >= 0, t < m, a >= 0, a < 3), z3.And(newV.elem(t, a) == V.elem(vpos(t), a), vpos(t) >= 0, vpos(t) < n)))
        ctx.oblige("exactly-the-requested-vertices-are-removed", z3.Implies(z3.And(i >= 0, i < n), vmask.elem(i) == kept(i)), drop=("selection-uniqueness",))
        for tag in ("vertex_data", "vertex_data_2"):
            kid, old = e["kids"][tag], e["child_values"][tag]
            new = kid.attrs.get("values")
            okc = isinstance(new, Arr)
            ctx.oblige(f"{tag}-values-reassigned", okc)
            if okc:
                ctx.oblige(f"{tag}-has-one-entry-per-surviving-vertex", Z(new.shape[0]) == m)
                ctx.oblige(f"{tag}-each-surviving-vertex-keeps-its-value", z3.Implies(z3.And(t >= 0, t < m), new.elem(t) == old.elem(vpos(t))))
        mc = Z(newC.shape[0])
        for jj in range(w):  # one obligation per cell column: small queries are the stable ones
            ctx.oblige(f"cells-reference-existing-vertices[column {jj}]", z3.Implies(z3.And(c >= 0, c < mc), z3.And(newC.elem(c, jj) >= 0, newC.elem(c, jj) < m)))
        # every surviving cell joins the same coordinates as before: there is an old cell (the
        # cpos(c)-th) none of whose vertices was removed, and new vertex -> old vertex through vpos
        sets = [p["arr"] for k_, p in ctx.path.events if k_ == "cells-set"]
        all_kept = lambda cc: z3.And(*[kept(C.elem(cc, jj)) for jj in range(w)])
        if len(sets) == 2 and getattr(sets[0], "sel", None) is not None:
            _, keepc, cpos, crank = sets[0].sel
            cp = lambda cc: cpos(cc)
            ctx.oblige("exactly-the-cells-with-a-removed-vertex-are-dropped", z3.Implies(z3.And(c >= 0, c < nc), keepc.elem(c) == all_kept(c)))
            ctx.oblige("surviving-cells-are-old-cells-in-order", z3.Implies(z3.And(c >= 0, c < mc), z3.And(cpos(c) >= 0, cpos(c) < nc, keepc.elem(cpos(c)))))
        elif len(sets) == 1:
            cp = lambda cc: cc
            ctx.oblige("no-cell-dropped-only-when-no-cell-uses-a-removed-vertex", z3.And(mc == nc, z3.Implies(z3.And(c >= 0, c < nc), all_kept(c))))
        else:
            ctx.oblige("cells-assigned-once-or-twice", False)
            return
        for jj in range(w):
            ctx.oblige(f"every-surviving-cell-joins-the-same-coordinates[column {jj}]", z3.Implies(z3.And(c >= 0, c < mc, a >= 0, a < 3), newV.elem(newC.elem(c, jj), a) == V.elem(C.elem(cp(c), jj), a)))
        kid, old = e["kids"]["cell_data"], e["child_values"]["cell_data"]
        new = kid.attrs.get("values")
        if len(sets) == 2:
            okc = isinstance(new, Arr)
            ctx.oblige("cell-data-reassigned-when-cells-are-dropped", okc)
            if okc:
                ctx.oblige("cell-data-has-one-entry-per-surviving-cell", Z(new.shape[0]) == mc)
                ctx.oblige("each-surviving-cell-keeps-its-value", z3.Implies(z3.And(c >= 0, c < mc), new.elem(c) == old.elem(cp(c))))
        else:
            ctx.oblige("cell-data-untouched-when-no-cell-is-dropped", new is None)

    def post_raises(self, ctx, sig):
        e = ctx.env
        unchanged = e["obj"].fields["_cells"] is e["C"] and e["obj"].fields["_vertices"] is e["V"] and all("values" not in k.attrs for k in e["kids"].values())
        ctx.oblige("a-failed-removal-leaves-geometry-and-data-consistent", unchanged, kind="post-exc", note=f"{sig.exc_class.__name__} at {sig.origin} after state was modified")


CONTRACTS = CONTRACTS + [CellRemoveCells, CellRemoveVertices]


class MaskedCopyNative(Contract):
    """Bounded stand-in (CellObject.copy re-indexes cells with numpy fancy indexing inside a loop
    over children of mixed kinds): after a masked copy of a curve, vertex data follow the kept
    vertices, cell data follow the kept cells (both ends kept), whatever the order in which the
    data children were created -- also when the curve has as many cells as vertices."""
    target = "geoh5py/objects/cell_object.py::CellObject.copy"
    variant = "masked-copy"
    symbolic = False
    has_native = True
    props = ("C07", "C12", "C13")
    bounded_scope = "open (n-1 cells) and closed (n cells) curves with 5-6 vertices, vertex and cell data created in either order (or after an object-associated text), 8 vertex masks each (exhaustive over the listed shapes)"

    def native_cases(self, tier, rng):
        masks6 = [[1, 1, 0, 1, 1, 1], [0, 1, 1, 1, 1, 1], [1, 1, 1, 1, 1, 0], [1, 0, 1, 0, 1, 1], [1, 1, 1, 0, 0, 1], [0, 0, 1, 1, 1, 1], [1, 1, 1, 1, 1, 1], [1, 1, 0, 0, 1, 1]]
        for closed in (False, True):
            for order in ("cell-first", "vertex-first", "object-first"):
                for m in masks6:
                    yield {"n": 6, "closed": closed, "order": order, "mask": m}

    def native_check(self, case):
        from geoh5py.objects import Curve
        from geoh5py.workspace import Workspace

        n = case["n"]
        verts = np.c_[np.arange(n, dtype=float), np.arange(n, dtype=float) ** 2, np.zeros(n)]
        cells = [[i, i + 1] for i in range(n - 1)] + ([[n - 1, 0]] if case["closed"] else [])
        mask = np.array(case["mask"], dtype=bool)
        with Workspace() as ws:
            c = Curve.create(ws, vertices=verts, cells=np.array(cells, dtype="uint32"), name="c")
            vvals, cvals = np.arange(n, dtype=float) + 100, np.arange(len(cells), dtype=float) + 500
            specs = [("cd", cvals, "CELL"), ("vd", vvals, "VERTEX")]
            if case["order"] == "vertex-first":
                specs.reverse()
            if case["order"] == "object-first":  # a data set that belongs to the object as a whole comes first, then vertex data, then cell data
                c.add_data({"note": {"values": "whole object", "association": "OBJECT", "type": "text"}})
                specs.reverse()
            for name, vals, assoc in specs:
                c.add_data({name: {"values": vals.copy(), "association": assoc}})
            try:
                new = c.copy(mask=mask)
            except Exception as exc:
                return f"masked copy raised {type(exc).__name__}: {exc} ({case})"
            keep_cells = [k for k, (a, b) in enumerate(cells) if mask[a] and mask[b]]
            used = sorted({v for k in keep_cells for v in cells[k]})
            if new is None:
                return None if not keep_cells else f"nothing copied although {len(keep_cells)} cells survive ({case})"
            got_v = np.asarray(new.vertices)
            # the copy keeps the masked vertices (or only those still used by a cell): data must follow whichever were kept
            src_index = [int(np.where((verts == row).all(axis=1))[0][0]) for row in got_v]
            vd = new.get_data("vd")[0].values
            if vd is None or len(vd) != len(got_v) or not np.allclose(np.asarray(vd, dtype=float), vvals[src_index], equal_nan=True):
                return f"vertex data of the copy {None if vd is None else np.asarray(vd).tolist()} do not follow its vertices (source entries {vvals[src_index].tolist()}) ({case})"
            got_c = np.asarray(new.cells).astype(int)
            ends = [tuple(src_index[i] for i in cell) for cell in got_c]
            src_cells = [cells.index(list(e)) if list(e) in cells else None for e in ends]
            if None in src_cells:
                return f"a cell of the copy joins coordinates no source cell joins ({case})"
            cd = new.get_data("cd")[0].values
            if cd is None or len(cd) != len(got_c) or not np.allclose(np.asarray(cd, dtype=float), cvals[src_cells], equal_nan=True):
                return f"cell data of the copy {None if cd is None else np.asarray(cd).tolist()} do not follow its cells (source entries {cvals[src_cells].tolist()}) ({case})"
            if sorted(src_cells) != keep_cells:
                return f"the copy keeps cells {sorted(src_cells)} but the cells with both ends kept are {keep_cells} ({case})"
        return None


CONTRACTS = CONTRACTS + [MaskedCopyNative]


class RemovalInLaterSession(Contract):
    """Vertices / cells removed in a session that has not read the data values first (they are then
    taken from the file): every surviving entry keeps its value -- a no-data entry stays no-data
    (NaN for floats), in that session and for a later reader."""
    target = "geoh5py/objects/object_base.py::ObjectBase.remove_children_values"
    variant = "later-session"
    symbolic = False
    has_native = True
    props = ("C07", "C08")
    bounded_scope = "6-vertex point clouds and curves with float vertex / cell data holding no-data entries (explicit NaN, short assignments padded by the library) and integer data; stored, re-opened, remove_vertices / remove_cells with 3 index sets, the values read {before, only after} the removal; compared in that session and after another re-open (exhaustive)"

    def native_cases(self, tier, rng):
        for kind in ("points", "curve"):
            for op in ("remove_vertices",) + (("remove_cells",) if kind == "curve" else ()):
                for idx in ([0], [0, 4], [2, 3]):
                    for read_first in (False, True):
                        for fill in ("explicit-nan", "short-assignment"):
                            yield {"kind": kind, "op": op, "indices": idx, "read_first": read_first, "fill": fill}
        # a data set that has no values yet (created with its association only) sits among the children: nothing to trim there
        for kind in ("points", "curve"):
            for session in ("same", "later"):
                yield {"kind": kind, "op": "remove_vertices", "indices": [0, 3], "read_first": False, "fill": "explicit-nan", "valueless_child": True, "session": session}

    def native_check(self, case):
        import os
        import shutil
        import tempfile

        from geoh5py.objects import Curve, Points
        from geoh5py.workspace import Workspace

        n = 6
        verts = np.c_[np.arange(n, dtype=float), np.zeros(n), np.zeros(n)]
        cells = np.c_[np.arange(n - 1), np.arange(1, n)].astype("uint32")
        vfull = np.array([0.5, np.nan, 2.5, np.nan, 4.5, 5.5])
        cfull = np.array([10.0, np.nan, 12.0, 13.0, np.nan])
        d = tempfile.mkdtemp()
        try:
            path = os.path.join(d, "s.geoh5")
            with Workspace.create(path) as ws:
                obj = (Points.create(ws, name="o", vertices=verts) if case["kind"] == "points" else Curve.create(ws, name="o", vertices=verts, cells=cells))
                if case.get("valueless_child"):
                    obj.add_data({"pending": {"association": "VERTEX"}})
                if case["fill"] == "explicit-nan":
                    obj.add_data({"vf": {"values": vfull.copy(), "association": "VERTEX"}})
                    want_v = vfull.copy()
                else:
                    obj.add_data({"vf": {"values": vfull[:4].copy(), "association": "VERTEX"}})  # two entries short: padded with no-data
                    want_v = np.r_[vfull[:4], np.nan, np.nan]
                obj.add_data({"vi": {"values": np.arange(n, dtype="int32") + 100, "association": "VERTEX"}})
                want_c = None
                if case["kind"] == "curve":
                    obj.add_data({"cf": {"values": cfull.copy(), "association": "CELL"}})
                    want_c = cfull.copy()
                if case.get("session") == "same":
                    try:
                        obj.remove_vertices(list(case["indices"]))
                    except Exception as exc:
                        left = {c.name: (None if getattr(c, "_values", None) is None else len(np.atleast_1d(c._values))) for c in obj.children if hasattr(c, "values")}
                        return f"remove_vertices({case['indices']}) on an object holding a data set without values failed with {type(exc).__name__}; the object now has {obj.n_vertices} vertices and data of lengths {left} ({case})"
            idx = list(case["indices"])
            with Workspace(path, mode="r+") as ws:
                obj = ws.get_entity("o")[0]
                if case["read_first"]:
                    for c in obj.children:
                        _ = getattr(c, "values", None)
                if case.get("session") != "same":
                    try:
                        getattr(obj, case["op"])(idx)
                    except Exception as exc:
                        left = {c.name: (None if getattr(c, "_values", None) is None else len(np.atleast_1d(c._values))) for c in obj.children if hasattr(c, "values")}
                        return f"{case['op']}({idx}) failed with {type(exc).__name__}: {str(exc)[:80]}; the object now has {obj.n_vertices} vertices and data of lengths {left} ({case})"
                if case["op"] == "remove_vertices":
                    keep_v = np.setdiff1d(np.arange(n), idx)
                    keep_c = None if want_c is None else np.array([k for k in range(n - 1) if cells[k, 0] not in idx and cells[k, 1] not in idx])
                else:
                    keep_v = np.arange(n)
                    keep_c = np.setdiff1d(np.arange(n - 1), idx)
                exp = {"vf": want_v[keep_v], "vi": (np.arange(n) + 100.0)[keep_v]}
                if want_c is not None:
                    exp["cf"] = want_c[keep_c] if len(keep_c) else np.zeros(0)

                def look(o, where):
                    for name, e in exp.items():
                        got = o.get_data(name)[0].values
                        g = np.zeros(0) if got is None else np.asarray(got, dtype=float)
                        if g.shape != e.shape or not np.allclose(g, e, equal_nan=True):
                            return f"{where} {case['op']}({idx}) in a session that had {'read' if case['read_first'] else 'not read'} the values: '{name}' reads {g.tolist()}, the surviving entries are {e.tolist()} ({case})"
                    return None

                bad = look(obj, "after")
                if bad:
                    return bad
            with Workspace(path, mode="r") as ws:
                return look(ws.get_entity("o")[0], "a later reader, after")
        finally:
            shutil.rmtree(d, ignore_errors=True)


CONTRACTS = CONTRACTS + [RemovalInLaterSession]
