"""C06: identifiers are unique within a workspace and stable across copies.

* `IdentifierHistories` -- bounded stand-in for the history quantifier: seeded sequences of
  create / create-with-a-given-identifier (free, in use by the same kind, in use by another kind,
  in use by a property group) / copy (same workspace, other workspace) / remove / re-create over
  one or two file-backed workspaces, with after every step
    - all live entities (groups, objects, data, property groups) of a workspace carry pairwise
      distinct identifiers, and so do all types;
    - a refused request changed nothing (tree snapshot and registries identical);
    - looking an identifier up returns the one entity that owns it;
    - a copy into the same workspace got fresh identifiers (entity, children, property groups),
      a copy into another workspace kept every identifier that was free there;
    - all entities of one object or group class share a single type.
* `WorkspaceRegister` -- deductive: Workspace.register over five symbolic registries.
"""
from __future__ import annotations

import gc
import os
import shutil
import tempfile
import uuid

import numpy as np
import z3

from contracts.histories import tree_snapshot
from pyvc.contracts import Contract
from pyvc.core import fresh_name
from pyvc.values import Opaque, PDict, PList

OPS = ("points", "group", "data", "pgroup", "reuse_same", "reuse_cross", "reuse_data", "reuse_pg", "pg_reuse", "reuse_type", "copy_same", "copy_other", "copy_other_again", "copy_type_other", "remove", "remove_other", "recreate", "reopen", "gc")


def _live(ws):
    out = []
    for reg in (ws.groups, ws.objects, ws.data):
        out += list(reg)
    for o in ws.objects:
        out += list(getattr(o, "property_groups", None) or [])
    return out


def _state(ws):
    """observable state used to decide 'a refused request changed nothing'"""
    return tree_snapshot(ws), sorted(str(e.uid) for e in _live(ws)), sorted(str(t.uid) for t in ws.types)


def _check(ws, tag):
    live = _live(ws)
    seen = {}
    for e in live:
        if e.uid in seen and seen[e.uid] is not e:
            return f"{tag}: {type(seen[e.uid]).__name__} '{seen[e.uid].name}' and {type(e).__name__} '{e.name}' share identifier {e.uid}"
        seen[e.uid] = e
    tseen = {}
    for t in ws.types:
        if t.uid in tseen and tseen[t.uid] is not t:
            return f"{tag}: two types share identifier {t.uid}"
        tseen[t.uid] = t
    for e in live:
        got = ws.get_entity(e.uid)
        if len(got) != 1 or got[0] is not e:
            return f"{tag}: looking up the identifier of {type(e).__name__} '{e.name}' returns {[type(g).__name__ + ':' + str(getattr(g, 'name', None)) for g in got]}"
    by_class = {}
    for e in list(ws.objects) + list(ws.groups):
        k = type(e)
        if k in by_class and by_class[k] is not e.entity_type and type(e).__name__ not in ("CustomGroup",):
            return f"{tag}: two {k.__name__} entities have different types"
        by_class[k] = e.entity_type
    return None


def run_history(case):
    from geoh5py.groups import ContainerGroup
    from geoh5py.objects import Points
    from geoh5py.workspace import Workspace

    d = tempfile.mkdtemp()
    wss = []
    counter = [0]

    def fresh(p):
        counter[0] += 1
        return f"{p}{counter[0]}"

    def refused(ws, what, fn):
        before = _state(ws)
        made = None
        try:
            made = fn()
        except Exception:
            pass
        if made is None:
            gc.collect()  # outside the handler: the traceback no longer keeps the half-built entity and its type alive
            after = _state(ws)
            if after != before:
                return f"{what}: the request was refused but changed the workspace: " + _first_diff(before, after)
            return None
        return f"{what}: accepted -- now {type(made).__name__} '{getattr(made, 'name', '')}' carries an identifier that is in use"

    try:
        wss = [Workspace.create(os.path.join(d, "a.geoh5")), Workspace.create(os.path.join(d, "b.geoh5"))]
        ws = wss[0]
        removed = []
        removed_data = []
        other_ids = set()
        other_type_ids = set()
        kept_types = []
        for step, (op, a) in enumerate(case["ops"]):
            tag = f"step {step} ({op} {a})"
            objs = sorted(ws.objects, key=lambda o: o.name)
            grps = sorted([g for g in ws.groups if g is not ws.root], key=lambda g: g.name)
            pick = lambda seq: seq[a % len(seq)] if seq else None
            bad = None
            if op == "points":
                Points.create(ws, name=fresh("P"), vertices=np.arange(6.0).reshape(2, 3) + step, parent=pick(grps) or ws.root)
            elif op == "group":
                ContainerGroup.create(ws, name=fresh("G"))
            elif op == "data" and objs:
                pick(objs).add_data({fresh("d"): {"values": np.arange(2.0) + step}})
            elif op == "pgroup" and objs:
                o = pick(objs)
                kids = [c for c in o.children if hasattr(c, "values")]
                if kids:
                    o.add_data_to_group(kids[0], fresh("pg"))
            elif op == "reuse_same" and objs:
                u = pick(objs).uid
                # the identifier in any spelling the constructors accept
                spellings = [u, str(u), "{" + str(u) + "}", str(u).upper(), u.hex, u.urn]  # everything uuid.UUID() parses
                if a % 8 >= 6:  # through the attribute key the file loader uses (canonical, then bare hex digits)
                    uu = u if a % 8 == 6 else u.hex
                    bad = refused(ws, tag, lambda: Points.create(ws, name=fresh("dupP"), vertices=np.zeros((2, 3)), ID=uu, parent=pick(grps) or ws.root))
                else:
                    u = spellings[a % 8]
                    bad = refused(ws, tag, lambda: Points.create(ws, name=fresh("dupP"), vertices=np.zeros((2, 3)), uid=u, parent=pick(grps) or ws.root))
            elif op == "reuse_type" and objs:
                # a type asked to carry the identifier of a live type of another class
                o = pick(objs)
                tu = o.entity_type.uid
                bad = refused(ws, tag, lambda: o.add_data({fresh("dupt"): {"values": np.zeros(2), "entity_type": {"uid": tu, "primitive_type": "FLOAT"}}}))
            elif op == "reuse_cross" and objs:
                u = pick(objs).uid
                bad = refused(ws, tag, lambda: ContainerGroup.create(ws, name=fresh("dupG"), uid=u))
            elif op == "reuse_data" and objs:
                o = pick(objs)
                u = (pick(grps) or o).uid
                bad = refused(ws, tag, lambda: o.add_data({fresh("dupd"): {"values": np.zeros(2), "uid": u}}))
            elif op == "reuse_pg" and objs:
                pgs = [pg for o in objs for pg in (o.property_groups or [])]
                if pgs:
                    u = pick(pgs).uid
                    bad = refused(ws, tag, lambda: ContainerGroup.create(ws, name=fresh("dupG"), uid=u))
            elif op == "pg_reuse" and objs:
                # a property group asked to carry the identifier of a live object (or data)
                o = pick(objs)
                kids = [c for c in o.children if hasattr(c, "values")]
                u = (kids[0] if kids and a % 2 else o).uid
                bad = refused(ws, tag, lambda: o.create_property_group(name=fresh("duppg"), uid=u))
            elif op in ("copy_same", "copy_other", "copy_other_again") and objs:
                o = pick(objs)
                src_ids = {o.uid} | {c.uid for c in o.children} | {pg.uid for pg in (o.property_groups or [])}
                if op == "copy_same":
                    c = o.copy(name=fresh("copy"))
                    new_ids = {c.uid} | {k.uid for k in c.children} | {pg.uid for pg in (c.property_groups or [])}
                    if new_ids & src_ids:
                        bad = f"{tag}: a copy into the same workspace reuses identifiers {sorted(map(str, new_ids & src_ids))}"
                    elif len(new_ids) != len(src_ids):
                        bad = f"{tag}: the copy has {len(new_ids)} identifiers for {len(src_ids)} in the source"
                else:
                    other = wss[1]
                    # identifiers free in the other workspace, from this harness's own bookkeeping: asking the
                    # workspace would sweep its registries and hide a decision taken on stale entries
                    free = src_ids - other_ids
                    c = o.copy(parent=other)
                    got = {c.uid} | {k.uid for k in c.children} | {pg.uid for pg in (c.property_groups or [])}
                    other_ids |= got
                    other_type_ids |= {k.entity_type.uid for k in c.children if hasattr(k, "entity_type")} | {c.entity_type.uid}
                    if not free <= got:
                        bad = f"{tag}: a copy into another workspace dropped identifiers that were free there: {sorted(map(str, free - got))}"
                    bad = bad or _check(other, tag + " [other workspace]")
                del c, o  # the harness keeps no reference to entities it may remove later
            elif op == "copy_type_other" and objs:
                # a data type carried into the other workspace keeps its identifier when it is free there
                kids = [c for o in objs for c in o.children if hasattr(c, "values")]
                if kids:
                    t = pick(kids).entity_type
                    other = wss[1]
                    nt = t.copy(workspace=other)
                    # judged on what is alive *after* the copy (the harness's own bookkeeping cannot know which types a removal
                    # in the other workspace let go of): the identifier is kept exactly when no other live type holds it
                    twins = [x for x in other.types if x.uid == t.uid and x is not nt]
                    if nt.uid == t.uid and twins:
                        bad = f"{tag}: two types of the other workspace share identifier {t.uid}"
                    if nt.uid != t.uid and not twins:
                        bad = f"{tag}: a type copied into another workspace got a fresh identifier although its own was free there"
                    other_type_ids.add(nt.uid)
                    kept_types.append(nt)  # types are weakly registered: the harness keeps them alive on purpose
                    bad = bad or _check(other, tag + " [other workspace]")
            elif op == "remove_other":
                other = wss[1]
                victims = sorted(other.objects, key=lambda o: o.name)
                if victims:
                    v = victims[a % len(victims)]
                    other_ids -= {v.uid} | {k.uid for k in v.children} | {pg.uid for pg in (v.property_groups or [])}
                    other.remove_entity(v)
                    del v, victims
                    gc.collect()  # no lookup here: the registries keep whatever stale entries the removal left
            elif op == "remove_data" and objs:
                # a data set is removed through the workspace; its identifier is given up
                o = pick(objs)
                kids = [c for c in o.children if hasattr(c, "values")]
                if kids:
                    removed_data.append((o.uid, kids[0].uid, len(np.atleast_1d(kids[0].values))))
                    ws.remove_entity(kids[0])
                    del kids
                    gc.collect()
                del o
            elif op == "recreate_data" and removed_data:
                # ... and taken by a different data set (other name, other values) of the same object
                pu, u, n = removed_data.pop()
                host = ws.get_entity(pu)[0]
                if host is not None and ws.get_entity(u)[0] is None:
                    nd = host.add_data({fresh("second"): {"values": np.arange(float(n)) * 10.0 + 3.0, "uid": u}})
                    if nd.uid != u:
                        bad = f"{tag}: an identifier freed by a removal could not be used again"
                    del nd
                del host
            elif op == "remove" and objs:
                o = pick(objs)
                removed.append((type(o), o.uid, o.name))
                ws.remove_entity(o)
                del o, objs
                gc.collect()
            elif op == "recreate" and removed:
                cls, u, name = removed.pop()
                if ws.get_entity(u)[0] is None:
                    # a different entity under the freed identifier (other name, other geometry)
                    e = cls.create(ws, name=name + "-again", vertices=np.ones((5, 3)) * 7.0, uid=u)
                    if e.uid != u:
                        bad = f"{tag}: an identifier freed by a removal could not be used again"
            elif op == "reopen":
                # whoever holds an identifier now is who a later session finds under it (not an entity removed earlier)
                holders = {str(e.uid): (type(e).__name__, e.name, None if getattr(e, "vertices", None) is None else np.asarray(e.vertices).shape) for e in list(ws.objects) + list(ws.groups)}
                holders.update({str(e.uid): (type(e).__name__, e.name, repr(np.asarray(e.values).tolist())) for e in ws.data if hasattr(e, "values") and e.values is not None and np.asarray(e.values).dtype.kind in "fiu"})
                del objs, grps
                ws.close()
                ws = wss[0] = Workspace(os.path.join(d, "a.geoh5"), mode="r+")
                for e in list(ws.objects) + list(ws.groups) + [x for x in ws.data if str(x.uid) in holders]:
                    seen = (type(e).__name__, e.name, repr(np.asarray(e.values).tolist())) if hasattr(e, "association") else (type(e).__name__, e.name, None if getattr(e, "vertices", None) is None else np.asarray(e.vertices).shape)
                    if str(e.uid) in holders and holders[str(e.uid)] != seen:
                        bad = f"{tag}: the identifier {e.uid} was held by {holders[str(e.uid)]} when the file was closed; a later session finds {seen} under it"
                        break
            elif op == "gc":
                del objs, grps
                gc.collect()
            bad = bad or _check(ws, tag)
            if bad:
                return f"{bad} ({case})"
    finally:
        for w in wss:
            try:
                w.close()
            except Exception:
                pass
        shutil.rmtree(d, ignore_errors=True)
    return None


def _first_diff(before, after):
    (s0, l0, t0), (s1, l1, t1) = before, after
    for k in s1:
        if k not in s0:
            return f"entity {s1[k]['class']} '{s1[k]['name']}' appeared"
    for k in s0:
        if k not in s1:
            return f"entity {s0[k]['class']} '{s0[k]['name']}' disappeared"
        if s0[k] != s1[k]:
            f = next(x for x in s0[k] if s0[k][x] != s1[k].get(x))
            return f"{s0[k]['class']} '{s0[k]['name']}': {f} was {s0[k][f]!r}, now {s1[k].get(f)!r}"
    if l0 != l1:
        return "the set of live identifiers changed"
    return "the set of types changed"


class IdentifierHistories(Contract):
    target = "geoh5py/workspace/workspace.py::Workspace.register"
    variant = "identifier-histories"
    symbolic = False
    has_native = True
    native_shards = 4
    props = ("C06",)
    bounded_scope = ("two file-backed workspaces; sequences of 5-10 operations over {create points/group/data/property group, create with an identifier in use by the same kind (given as UUID, text, braced, upper-case, bare-hex or URN text, or through the 'ID' attribute key) / a type with the identifier of a type of another class / "
                     "another kind / a property group, property group with an object's or data's identifier, data with its parent's or a group's identifier, copy within / into the other workspace (also after the source gained new property groups, so that identifiers are free and taken in the same copy), a data type copied into the other workspace, (twice, also after removing the earlier copy there), remove, re-create with the "
                     "freed identifier (an object, a data set with other values), re-open with the holder of every identifier compared across the session boundary, gc}: 24 fixed + 60 seeded (quick) / 800 seeded (thorough); uniqueness, lookup, refusal-without-side-effects and type sharing after every step")

    FIXED = [
        [("points", 0), ("reuse_same", 0)],
        [("points", 0), ("reuse_cross", 0)],
        [("points", 0), ("reuse_data", 0), ("reopen", 0)],
        [("group", 0), ("points", 0), ("reuse_data", 0), ("reopen", 0)],
        [("group", 0), ("points", 0), ("reuse_same", 0), ("reopen", 0)],
        [("points", 0), ("data", 0), ("pgroup", 0), ("reuse_pg", 0)],
        [("points", 0), ("pg_reuse", 0), ("reopen", 0)],
        [("points", 0), ("reuse_same", 1), ("reuse_same", 2), ("reuse_same", 3), ("reopen", 0)],
        [("group", 0), ("points", 0), ("reuse_same", 2), ("reopen", 0)],
        [("group", 0), ("points", 0), ("reuse_same", 4), ("reopen", 0)],
        [("points", 0), ("reuse_type", 0), ("points", 0), ("copy_same", 0)],
        [("points", 0), ("data", 0), ("copy_type_other", 0), ("copy_type_other", 0)],
        [("points", 0), ("data", 0), ("pgroup", 0), ("copy_other", 0), ("data", 0), ("pgroup", 0), ("copy_other", 0)],
        [("points", 0), ("data", 0), ("pg_reuse", 1), ("reopen", 0)],
        [("points", 0), ("data", 0), ("pgroup", 0), ("copy_same", 0), ("copy_same", 1)],
        [("points", 0), ("data", 0), ("pgroup", 0), ("copy_other", 0), ("copy_other_again", 0)],
        [("points", 0), ("remove", 0), ("recreate", 0), ("reuse_same", 0)],
        [("points", 0), ("data", 0), ("pgroup", 0), ("copy_other", 0), ("remove_other", 0), ("copy_other", 0)],
        [("points", 0), ("data", 0), ("pgroup", 0), ("copy_other", 0), ("remove_other", 0), ("gc", 0), ("copy_other", 0), ("copy_other_again", 0)],
        [("points", 0), ("points", 0), ("remove", 0), ("gc", 0), ("recreate", 0), ("reopen", 0), ("reuse_cross", 0)],
        [("points", 0), ("reopen", 0), ("reuse_same", 0), ("reuse_cross", 0)],
        [("points", 0), ("reuse_same", 4), ("reuse_same", 5), ("reuse_same", 6), ("reuse_same", 7), ("reopen", 0)],
        [("group", 0), ("points", 0), ("reopen", 0), ("reuse_same", 5), ("reuse_same", 7), ("reuse_same", 4)],
        [("group", 0), ("points", 0), ("data", 0), ("copy_same", 0), ("reopen", 0), ("copy_other", 1), ("reuse_data", 1)],
        [("points", 0), ("data", 0), ("remove_data", 0), ("recreate_data", 0), ("reopen", 0)],
        [("points", 0), ("data", 0), ("data", 0), ("reopen", 0), ("remove_data", 0), ("gc", 0), ("recreate_data", 0), ("reopen", 0), ("reuse_data", 0)],
    ]

    def native_cases(self, tier, rng):
        for ops in self.FIXED:
            yield {"ops": ops}
        for _ in range(60 if tier == "quick" else 800):
            n = rng.randint(5, 10)
            ops = [("points", 0)] + [(rng.choice(OPS), rng.randint(0, 7)) for _ in range(n)]
            yield {"ops": ops}

    def native_check(self, case):
        case = {"ops": [tuple(o) for o in case["ops"]]}
        try:
            return run_history(case)
        except RecursionError:
            return f"RecursionError while re-opening the file written by {case}"
        except Exception as exc:
            import traceback

            return f"{type(exc).__name__}: {exc} during {case} | " + " <- ".join(f"{fr.name}:{fr.lineno}" for fr in traceback.extract_tb(exc.__traceback__)[-3:])


CONTRACTS = [IdentifierHistories]


# ------------------------------------------------------------------------------------------
# deductive: Workspace.register over five symbolic registries
# ------------------------------------------------------------------------------------------

REGS = {"group": "_groups", "data": "_data", "object": "_objects", "property-group": "_property_groups", "type": "_types"}


def _kind_classes():
    from geoh5py.data import FloatData
    from geoh5py.groups import ContainerGroup, PropertyGroup
    from geoh5py.objects import Points
    from geoh5py.objects.object_type import ObjectType

    return {"group": ContainerGroup, "data": FloatData, "object": Points, "property-group": PropertyGroup, "type": ObjectType}


class WorkspaceRegister(Contract):
    """register(entity): when a *different* live entity of any kind (group, object, data or
    property group) holds the identifier the request is refused and every registry is left as it
    was; otherwise the entity becomes the live owner of its identifier in the registry of its own
    kind and every other key of every registry is untouched.  Types form a namespace of their own."""
    target = "geoh5py/workspace/workspace.py::Workspace.register"
    props = ("C06",)

    def cases(self):
        return list(REGS)

    def setup(self, ctx):
        from contracts.weakrefs import GetCleanRef, InsertOnce, sym_registry
        from geoh5py.workspace import Workspace
        from pyvc.values import AbsObj, Obj, mk, sym

        regs, infos = {}, {}
        for kind, field in REGS.items():
            regs[kind], infos[kind] = sym_registry(ctx, field.strip("_"))
        uid = sym("uid", "uid")
        ref = sym("entity", "ref")
        ent = AbsObj("entity", {"uid": uid, "on_file": True, "__ref__": ref}, cls=_kind_classes()[ctx.case])
        me = Obj(Workspace, {field: regs[kind] for kind, field in REGS.items()})
        # representation invariant of the workspace (precondition, re-established by the post):
        # an identifier is live in at most one of the four entity registries
        k = z3.Int(fresh_name("k"))
        four = ("group", "data", "object", "property-group")
        ctx.assume(z3.ForAll([k], z3.AtMost(*[z3.And(infos[x]["has"](k), infos[x]["alive"](k)) for x in four], 1)))
        # typing: a registry only refers to entities of its own kind, so no registry of another kind refers to this entity
        for x in REGS:
            if x != ctx.case:
                ctx.assume(z3.ForAll([k], z3.Implies(z3.And(infos[x]["has"](k), infos[x]["alive"](k)), infos[x]["tgt"](k) != ref.e)))
        ctx.env.update(regs=regs, infos=infos, uid=uid, ref=ref, ent=ent)
        return [me, ent], {}

    def _held_by_another(self, e, kinds):
        u, r = e["uid"].e, e["ref"].e
        return z3.Or(*[z3.And(e["infos"][k]["has"](u), e["infos"][k]["alive"](u), e["infos"][k]["tgt"](u) != r) for k in kinds])

    def _unchanged(self, e, kind, k, except_key=None):
        from pyvc.values import mk, to_z3, zbool

        d, info = e["regs"][kind], e["infos"][kind]
        now = d.get(mk(k, "uid"))
        # dead entries may be dropped by a lookup; live ones are never touched
        same_live = z3.Implies(z3.And(info["has"](k), info["alive"](k)), z3.And(zbool(d.has(mk(k, "uid"))), zbool(now.alive), to_z3(now.target) == info["tgt"](k)))
        no_new = z3.Implies(z3.And(zbool(d.has(mk(k, "uid"))), zbool(now.alive)), z3.And(info["has"](k), info["alive"](k)))
        body = z3.And(same_live, no_new)
        return body if except_key is None else z3.Implies(k != except_key, body)

    def post(self, ctx, result):
        from pyvc.values import mk, to_z3, zbool

        e = ctx.env
        kind = ctx.case
        namespace = ["type"] if kind == "type" else ["group", "data", "object", "property-group"]
        u = e["uid"].e
        ctx.oblige("accepted-only-when-no-other-live-entity-holds-the-identifier", z3.Not(self._held_by_another(e, namespace)),
                   note="an identifier in use by a live entity (of this or another kind) was accepted")
        own = e["regs"][kind].get(e["uid"])
        tgt = own.target
        is_me = (tgt is e["ent"]) if not hasattr(tgt, "e") else (to_z3(tgt) == e["ref"].e)
        ctx.oblige("the-entity-owns-its-identifier-in-the-registry-of-its-kind", z3.And(zbool(e["regs"][kind].has(e["uid"])), zbool(own.alive), is_me))
        k = z3.Int(fresh_name("k"))
        live_now = lambda x, kk: z3.And(zbool(e["regs"][x].has(mk(kk, "uid"))), zbool(e["regs"][x].get(mk(kk, "uid")).alive))
        ctx.oblige("every-identifier-is-live-in-at-most-one-entity-registry", z3.AtMost(*[live_now(x, k) for x in ("group", "data", "object", "property-group")], 1),
                   note="two live entities (of different kinds) share an identifier after the registration")
        for other in REGS:
            ctx.oblige(f"live-entries-of-registry-{other}-are-untouched", self._unchanged(e, other, k, except_key=u if other == kind else None), kind="frame")

    def post_raises(self, ctx, sig):
        e = ctx.env
        kind = ctx.case
        namespace = ["type"] if kind == "type" else ["group", "data", "object", "property-group"]
        u = e["uid"].e
        held = z3.Or(*[z3.And(e["infos"][k]["has"](u), e["infos"][k]["alive"](u)) for k in namespace])
        ctx.oblige("refused-only-when-a-live-entity-holds-the-identifier", z3.And(sig.exc_class is RuntimeError, held), kind="post-exc")
        k = z3.Int(fresh_name("k"))
        for other in REGS:
            ctx.oblige(f"a-refusal-leaves-registry-{other}-as-it-was", self._unchanged(e, other, k), kind="post-exc")


def _wire():
    from contracts.weakrefs import GetCleanRef, InsertOnce

    WorkspaceRegister.uses = (InsertOnce, GetCleanRef)


_wire()
CONTRACTS = [IdentifierHistories, WorkspaceRegister]


class CopyIdentifiersByKind(Contract):
    """The identifier rule of copies, for every kind of object with its own copy method (surveys copy
    their partner, drillholes their logs, images go through a temporary grid): into another workspace
    the copy, each copied child and the copied partner keep the originals' identifiers when those are
    free there -- and get fresh ones when they are taken (second copy) -- while a copy inside the same
    workspace gets fresh identifiers throughout; no identifier ever names two live entities."""
    target = "geoh5py/workspace/workspace.py::Workspace.copy_to_parent"
    variant = "identifiers-by-kind"
    symbolic = False
    has_native = True
    native_shards = 4
    props = ("C06",)
    bounded_scope = "one object per kind in {points, curve, surface, grid2d, geoimage, block model, octree, drillhole, airborne TEM pair, DC/IP pair, tipper pair, group of objects, drillhole group with two holes} with data; copy into an empty other workspace, again into the same other workspace, and inside the source workspace (exhaustive over the 12 kinds)"

    def native_cases(self, tier, rng):
        from contracts.copy_wf import KINDS

        for kind in KINDS:
            yield {"kind": kind}
        yield {"kind": "drillhole-group"}  # two holes with logs, stored as records of the group
        yield {"kind": "hole-of-a-drillhole-group"}  # one hole (a log in a property group) copied into a drillhole group of the other workspace
        # any text is a valid name, the empty one included: identifier bookkeeping does not go by names
        for kind in ("points", "curve", "grid2d", "group"):
            for name in ("", " "):
                yield {"kind": kind, "name": name}

    @staticmethod
    def _family(ent):
        """the entity, its data children, and its linked partner with its children (name -> uid)"""
        out = {}

        def add(e, prefix=""):
            out[prefix + e.name] = e.uid
            for pg in (getattr(e, "property_groups", None) or []):
                out[prefix + e.name + "#property-group:" + pg.name] = pg.uid
            for log in (getattr(e, "get_data_list", lambda: [])() if hasattr(e, "concat_attr_str") is False and type(e).__name__.startswith("Concatenated") else []):
                for c in e.get_data(log):  # logs of a hole in a drillhole group are loaded on request
                    out[prefix + e.name + "/" + c.name] = c.uid
            for c in getattr(e, "children", []):
                if hasattr(c, "uid") and hasattr(c, "name") and hasattr(c, "entity_type"):
                    if hasattr(c, "children"):
                        add(c, prefix + e.name + "/")
                    else:
                        out[prefix + e.name + "/" + c.name] = c.uid

        add(ent)
        for attr in ("transmitters", "current_electrodes", "base_stations", "receivers", "potential_electrodes"):
            try:
                partner = getattr(ent, attr, None)
            except Exception:
                partner = None
            if partner is not None and partner is not ent and hasattr(partner, "uid"):
                add(partner, "partner:")
                break
        return out

    def native_check(self, case):
        from contracts.copy_wf import build
        from geoh5py.workspace import Workspace

        # children a class rebuilds on the copy rather than copying (their identity is the class's own business)
        rebuilt = ("A-B Cell ID", "Transmitter ID")
        d = tempfile.mkdtemp()
        try:
            with Workspace.create(os.path.join(d, "src.geoh5")) as ws, Workspace.create(os.path.join(d, "dst.geoh5")) as other:
                if case["kind"] == "drillhole-group":
                    from geoh5py.groups import DrillholeGroup
                    from geoh5py.objects import Drillhole

                    obj = DrillholeGroup.create(ws, name="dh-group")
                    for k in range(2):
                        hole = Drillhole.create(ws, parent=obj, name=f"hole{k}", collar=[10.0 * k, 0.0, 0.0])
                        hole.add_data({f"log{k}": {"depth": np.arange(3.0), "values": np.arange(3.0) + k}})
                        _ = hole.get_data(f"log{k}")
                elif case["kind"] == "hole-of-a-drillhole-group":
                    from geoh5py.groups import DrillholeGroup
                    from geoh5py.objects import Drillhole

                    obj = Drillhole.create(ws, parent=DrillholeGroup.create(ws, name="dh-group"), name="hole", collar=[0.0, 0.0, 0.0])
                    obj.add_data({"log": {"depth": np.arange(3.0), "values": np.arange(3.0)}}, property_group="logs")
                    _ = obj.get_data("log")
                    other = DrillholeGroup.create(other, name="target-group")  # the copies go under a drillhole group of the other workspace
                else:
                    obj = build(ws, case["kind"])
                if case.get("name") is not None:
                    obj.name = case["name"]
                mine = self._family(obj)
                try:
                    first_copy, second_copy, same_copy = obj.copy(parent=other), obj.copy(parent=other), obj.copy()
                except Exception as exc:
                    return f"copying a {case['kind']} named {obj.name!r} (into an empty workspace, there again, then inside its own workspace) raised {type(exc).__name__}: {exc} ({case})"
                first = self._family(first_copy)
                for name, uid in mine.items():
                    if any(r in name for r in rebuilt) or name not in first:
                        continue
                    if first[name] != uid:
                        return f"copy of a {case['kind']} into an empty workspace: '{name}' got the fresh identifier {first[name]} although {uid} was free there ({case})"
                second = self._family(second_copy)
                clash = set(second.values()) & set(first.values())
                if clash:
                    return f"second copy of a {case['kind']} into the same workspace re-uses identifiers that are taken there: {sorted(map(str, clash))[:2]} ({case})"
                same = self._family(same_copy)
                clash = set(same.values()) & set(mine.values())
                if clash:
                    return f"copy of a {case['kind']} inside its workspace re-uses identifiers of the originals: {sorted(map(str, clash))[:2]} ({case})"
                for w in (ws, other.workspace if hasattr(other, "workspace") and not hasattr(other, "objects") else other):
                    seen = {}
                    for e in list(w.objects) + list(w.groups) + list(w.data):
                        if e.uid in seen and seen[e.uid] is not e:
                            return f"two live entities share the identifier {e.uid} ({case})"
                        seen[e.uid] = e
            return None
        finally:
            gc.collect()
            shutil.rmtree(d, ignore_errors=True)


CONTRACTS = CONTRACTS + [CopyIdentifiersByKind]


# ------------------------------------------------------------------------------------------
# Entity.__init__: refused creations (abstract execution of every path)
# ------------------------------------------------------------------------------------------
_REFUSALS = (ValueError, TypeError, KeyError, AssertionError, AttributeError, IndexError, RuntimeError, UserWarning)


class MapAttributesStub(Contract):
    """summary of map_attributes for Entity.__init__: the `parent` keyword (handled first by the real
    function's callers' conventions) puts the entity into the parent's child list; a later keyword may
    be refused with any exception class."""
    target = "geoh5py/shared/utils.py::map_attributes"
    symbolic = False
    props = ()
    behaviour = {"refuse_with": None}

    def apply(self, I, args, kwargs):
        from pyvc.core import RaiseSig

        ent = args[0]
        parent = kwargs.get("parent")
        if parent is not None:
            ent.attrs["_parent"] = parent
            parent.attrs["_children"].items.append(ent)
            I.event("joined-the-parent")
        exc = self.behaviour["refuse_with"]
        if exc is not None:
            raise RaiseSig(exc, "map_attributes")
        return None


class EntityInitRefusal(Contract):
    """Entity.__init__: (i) an identifier asked for under either spelling (`uid=` or the file's `ID`
    key) that a live entity holds is refused before the entity touches anything; (ii) when an
    attribute is refused after the parent was assigned -- with whatever exception class -- the
    half-built entity is out of its parent's child list when the exception reaches the caller and
    was never registered; (iii) an accepted creation is registered once and stays with its parent."""
    target = "geoh5py/shared/entity.py::Entity.__init__"
    variant = "refusals"
    props = ("C01", "C02", "C06", "C09", "C11")
    lenient = True
    uses = (MapAttributesStub,)

    def cases(self):
        return [("taken", "uid"), ("taken", "ID"), ("taken", "ID-as-text")] + [("refused", e.__name__) for e in _REFUSALS] + [("accepted", "-")]

    def setup(self, ctx):
        import uuid

        from geoh5py.objects import Points

        kind, how = ctx.case
        me = Opaque("self", cls=Points)
        from geoh5py.groups import ContainerGroup

        parent = Opaque("parent", cls=ContainerGroup)  # its `children` (if asked for) is the real property getter, interpreted
        sibling = Opaque("sibling")
        for o in (me, parent, sibling):
            o.distinct = True
        parent.attrs["_children"] = PList([sibling])
        taken, free = uuid.UUID(int=5), uuid.UUID(int=6)
        ws = Opaque("workspace")
        fe = Opaque("find_entity")

        holder = Opaque("holder")
        ctx.path.assume(holder.truth_var())
        ctx.path.assume(z3.Not(holder.none_var()))

        def find(I, a, kw):
            I.event("lookup", uid=a[0])
            return holder if a[0] == taken else None

        fe.maybe_method = find
        ws.attrs["find_entity"] = fe
        reg = Opaque("register")
        reg.maybe_method = lambda I, a, kw: I.event("registered", entity=a[0])
        ws.attrs["register"] = reg
        me.attrs["workspace"] = ws
        me.attrs["_default_name"] = "Entity"
        MapAttributesStub.behaviour["refuse_with"] = dict((e.__name__, e) for e in _REFUSALS).get(how) if kind == "refused" else None
        kwargs = {"parent": parent, "name": "x"}
        uid = free
        if kind == "taken":
            if how == "uid":
                uid = taken
            elif how == "ID":
                kwargs["ID"] = taken
            else:
                kwargs["ID"] = "{" + str(taken) + "}"
        ctx.env.update(me=me, parent=parent, sibling=sibling, kind=kind)
        return [me, uid], kwargs

    def _stays_out(self, ctx):
        e = ctx.env
        kids = e["parent"].attrs["_children"].items
        return not any(k is e["me"] for k in kids) and any(k is e["sibling"] for k in kids) and len(kids) == 1

    def post(self, ctx, result):
        e = ctx.env
        events = [k for k, p in ctx.path.events]
        if e["kind"] != "accepted":
            ctx.oblige("a-taken-identifier-or-a-refused-attribute-ends-the-creation", False, note="the constructor returned normally")
            return
        kids = e["parent"].attrs["_children"].items
        ctx.oblige("an-accepted-entity-is-registered-once-and-stays-with-its-parent", events.count("registered") == 1 and sum(1 for k in kids if k is e["me"]) == 1 and len(kids) == 2)

    def post_raises(self, ctx, sig):
        e = ctx.env
        events = [k for k, p in ctx.path.events]
        if e["kind"] == "accepted":
            ctx.oblige("an-acceptable-creation-is-not-refused", False, kind="post-exc", note=f"{sig.exc_class.__name__} at {sig.origin}")
            return
        if e["kind"] == "taken":
            ctx.oblige("a-taken-identifier-is-refused-before-the-entity-joins-anything", sig.exc_class is RuntimeError and "joined-the-parent" not in events and "registered" not in events and self._stays_out(ctx),
                       kind="post-exc", note=f"{sig.exc_class.__name__}; events {events}")
            return
        ctx.oblige("a-refused-entity-is-out-of-its-parent's-child-list-whatever-the-exception-class", self._stays_out(ctx), kind="post-exc",
                   note=f"after {sig.exc_class.__name__} the parent's children are {e['parent'].attrs['_children'].items}")
        ctx.oblige("a-refused-entity-was-never-registered", "registered" not in events, kind="post-exc")
        ctx.oblige("the-caller-sees-the-refusal-itself", sig.exc_class.__name__ == ctx.case[1], kind="post-exc", note=f"{sig.exc_class.__name__}")


CONTRACTS = CONTRACTS + [EntityInitRefusal]
