"""C20: linked surveys stay mutually consistent."""
from __future__ import annotations

import itertools
import os
import shutil
import tempfile

import numpy as np
import z3

from pyvc.contracts import Contract
from pyvc.core import fresh_name
from pyvc.values import AbsObj, Obj, Opaque, PDict, PList, mk, sym, to_z3, zbool

EM_PAIRS = [
    ("AirborneTEMReceivers", "AirborneTEMTransmitters"),
    ("AirborneFEMReceivers", "AirborneFEMTransmitters"),
    ("MovingLoopGroundTEMReceivers", "MovingLoopGroundTEMTransmitters"),
    ("MovingLoopGroundFEMReceivers", "MovingLoopGroundFEMTransmitters"),
]


def _verts(n=4, off=0.0):
    return np.c_[np.arange(n, dtype=float) + off, np.zeros(n), np.zeros(n)]


class LinkNative(Contract):
    """Bounded stand-in: every class pair, both linking directions, edits through either side,
    re-linking, re-opening, copies."""
    target = "geoh5py/objects/surveys/electromagnetics/base.py::BaseEMSurvey.edit_em_metadata"
    variant = "class-pairs"
    symbolic = False
    has_native = True
    props = ("C20",)
    bounded_scope = "large-loop ground TEM/FEM pairs (two loops, ten receivers each; copy of either side, masked copy into another workspace, shared-parameter edit; in the creating session and after a re-open) + 4 EM receiver/transmitter class pairs + tipper receivers/base stations + DC potential/current electrodes; link from either side; edit a shared parameter through either side with and without having read the partner first; re-link to a second partner; re-open and fetch one side only; plain copy; linking by a metadata document with identifiers as text (plain and braced); tipper copies from either side inside the same workspace; a tipper base handed to a second receivers object; airborne parameters switched between a number and a data channel through alternating sides; DC pairs re-linked elsewhere from the other side and linked again"

    def native_cases(self, tier, rng):
        for rx, tx in EM_PAIRS:
            for direction in ("rx.transmitters=tx", "tx.receivers=rx"):
                for scenario in ("edit-both-sides", "reopen-edit-unread", "relink", "relink-from-the-other-side", "relink-there-and-back", "copy", "components-then-partner-edit"):
                    yield {"family": "em", "rx": rx, "tx": tx, "direction": direction, "scenario": scenario}
                # linking by assigning the survey description with the identifiers given as text
                for form in ("plain", "braces"):
                    yield {"family": "em", "rx": rx, "tx": tx, "direction": direction, "scenario": "link-by-metadata-text", "form": form}
                if rx.startswith("Airborne"):
                    yield {"family": "em", "rx": rx, "tx": tx, "direction": direction, "scenario": "parameter-number-then-channel"}
        for direction in ("rx=>tx", "tx=>rx"):
            for scenario in ("basic", "relink", "reopen", "relink-back"):
                yield {"family": "dc", "direction": direction, "scenario": scenario}
        for scenario in ("basic", "reopen", "copy-receivers", "copy-base-stations", "relink-base-to-second-receivers"):
            yield {"family": "tipper", "scenario": scenario}
        # large-loop ground surveys: two loops, ten receivers each, tied by their "Transmitter ID" data
        for kind in ("TEM", "FEM"):
            for reopen in (False, True):
                for scenario in ("copy-receivers", "copy-transmitters", "masked-copy-other-workspace", "link-and-edit"):
                    yield {"family": "largeloop", "kind": kind, "reopen": reopen, "scenario": scenario}

    def native_check(self, case):
        d = tempfile.mkdtemp()
        try:
            path = os.path.join(d, "s.geoh5")
            if case["family"] == "em":
                return self._em(case, path)
            if case["family"] == "dc":
                return self._dc(case, path)
            if case["family"] == "largeloop":
                return self._largeloop(case, path)
            return self._tipper(case, path)
        finally:
            shutil.rmtree(d, ignore_errors=True)

    # ---- EM --------------------------------------------------------------------------------
    def _em(self, case, path):
        from geoh5py import objects
        from geoh5py.workspace import Workspace

        RX, TX = getattr(objects, case["rx"]), getattr(objects, case["tx"])

        def link(a_rx, a_tx):
            if case["direction"].startswith("rx"):
                a_rx.transmitters = a_tx
            else:
                a_tx.receivers = a_rx

        def both_ids(a_rx, a_tx, where):
            for ent in (a_rx, a_tx):
                md = ent.metadata["EM Dataset"]
                if md.get("Receivers") != a_rx.uid or md.get("Transmitters") != a_tx.uid:
                    return f"{where}: {ent.name} records Receivers={md.get('Receivers')} Transmitters={md.get('Transmitters')}, expected {a_rx.uid} / {a_tx.uid}"
            if a_rx.transmitters is not a_tx or a_tx.receivers is not a_rx:
                return f"{where}: partner getters do not return each other"
            return None

        with Workspace.create(path) as ws:
            rx = RX.create(ws, vertices=_verts(), name="rx")
            tx = TX.create(ws, vertices=_verts(off=1.0), name="tx")
            if case["scenario"] == "link-by-metadata-text":
                import json

                src = rx if case["direction"].startswith("rx") else tx
                doc = json.loads(json.dumps(src.metadata, default=str))
                text = (lambda u: str(u)) if case["form"] == "plain" else (lambda u: "{" + str(u) + "}")
                doc["EM Dataset"]["Receivers"] = text(rx.uid)
                doc["EM Dataset"]["Transmitters"] = text(tx.uid)
                src.metadata = doc
            else:
                link(rx, tx)
            bad = both_ids(rx, tx, "after linking")
            if not bad and case["scenario"] == "link-by-metadata-text":
                rx.channels = [1.0, 2.0]
                if list(tx.channels) != [1.0, 2.0]:
                    bad = f"channels edited through the receivers are {tx.channels} on the transmitters"
            if bad:
                return f"{bad} ({case})"
            if case["scenario"] == "edit-both-sides":
                rx.channels = [1.0, 2.0]
                if tx.channels != [1.0, 2.0]:
                    return f"channels edited through the receivers are {tx.channels} on the transmitters ({case})"
                tx.channels = [3.0]
                if rx.channels != [3.0]:
                    return f"channels edited through the transmitters are {rx.channels} on the receivers ({case})"
            if case["scenario"] == "parameter-number-then-channel":
                chan = rx.add_data({"yaw_channel": {"values": np.arange(len(rx.vertices), dtype=float)}})
                for first, second, side_a, side_b in ((3.5, chan.uid, tx, rx), (chan.uid, 7.25, rx, tx)):
                    for attr in ("yaw", "pitch"):
                        setattr(side_a, attr, first)
                        setattr(side_b, attr, second)
                        if getattr(rx, attr) != second or getattr(tx, attr) != second:
                            return f"{attr} set to {first!r} through one side and then to {second!r} through the other reads rx={getattr(rx, attr)!r} tx={getattr(tx, attr)!r} ({case})"
            if case["scenario"] == "relink":
                tx2 = TX.create(ws, vertices=_verts(off=5.0), name="tx2")
                rx2 = RX.create(ws, vertices=_verts(off=6.0), name="rx2")
                if case["direction"].startswith("rx"):
                    rx.transmitters = tx2
                    bad = both_ids(rx, tx2, "after re-linking the receivers to a second transmitter")
                else:
                    tx.receivers = rx2
                    bad = both_ids(rx2, tx, "after re-linking the transmitters to a second receiver")
                if bad:
                    return f"{bad} ({case})"
            if case["scenario"] == "relink-from-the-other-side":
                # the second partner claims the entity: the entity's own getter must follow what is now recorded
                tx2 = TX.create(ws, vertices=_verts(off=5.0), name="tx2")
                rx2 = RX.create(ws, vertices=_verts(off=6.0), name="rx2")
                if case["direction"].startswith("rx"):
                    tx2.receivers = rx
                    bad = both_ids(rx, tx2, "after a second transmitter entity took the receivers over")
                else:
                    rx2.transmitters = tx
                    bad = both_ids(rx2, tx, "after a second receiver entity took the transmitters over")
                if bad:
                    return f"{bad} ({case})"
            if case["scenario"] == "relink-there-and-back":
                # the entity is taken over by a second partner and then claimed back by the first, each time from the partner's side
                tx2 = TX.create(ws, vertices=_verts(off=5.0), name="tx2")
                rx2 = RX.create(ws, vertices=_verts(off=6.0), name="rx2")
                if case["direction"].startswith("rx"):
                    tx2.receivers = rx
                    tx.receivers = rx
                else:
                    rx2.transmitters = tx
                    rx.transmitters = tx
                bad = both_ids(rx, tx, "after the pair was taken over by a second partner and claimed back by the first")
                if bad:
                    return f"{bad} ({case})"
            if case["scenario"] == "copy":
                rx_c = rx.copy()
                tx_c = rx_c.transmitters
                if tx_c is None or tx_c is tx or tx_c.receivers is not rx_c:
                    return f"copying the receivers did not produce a linked copy of the transmitters ({case})"
                if rx.transmitters is not tx or tx.receivers is not rx:
                    return f"copying changed the originals' links ({case})"
            if case["scenario"] == "components-then-partner-edit":
                rx.channels = [1.0, 2.0]
                chans = rx.add_data({"c1": {"values": np.arange(len(rx.vertices), dtype=float)}, "c2": {"values": np.arange(len(rx.vertices), dtype=float) + 1}})
                rx.add_components_data({"dBdt": chans})
            uid_rx, uid_tx = rx.uid, tx.uid
        if case["scenario"] == "components-then-partner-edit":
            # a later session edits a shared parameter through the transmitters only: the receivers' component list is shared metadata too
            with Workspace(path, mode="r+") as ws:
                ws.get_entity(uid_tx)[0].channels = [3.0, 4.0]
            with Workspace(path, mode="r") as ws:
                a_rx, a_tx = ws.get_entity(uid_rx)[0], ws.get_entity(uid_tx)[0]
                for ent in (a_rx, a_tx):
                    if list(ent.channels) != [3.0, 4.0] or list(ent.metadata["EM Dataset"].get("Property groups", [])) != ["dBdt"]:
                        return f"after an edit through the transmitters in a later session, {ent.name} holds channels {ent.channels} and component groups {ent.metadata['EM Dataset'].get('Property groups')} (expected [3.0, 4.0] and ['dBdt']) ({case})"
                comp = a_rx.components or {}
                if sorted(c.name for c in comp.get("dBdt", [])) != ["c1", "c2"]:
                    return f"the receivers' component 'dBdt' no longer resolves its two channels after an edit through the transmitters ({case})"
        if case["scenario"] == "relink-there-and-back":
            with Workspace(path, mode="r") as ws:
                bad = both_ids(ws.get_entity(uid_rx)[0], ws.get_entity(uid_tx)[0], "after re-opening (the pair had been taken over and claimed back)")
                if bad:
                    return f"{bad} ({case})"
        if case["scenario"] in ("edit-both-sides", "reopen-edit-unread"):
            with Workspace(path, mode="r+") as ws:
                # fetch one side only and edit before ever reading its partner
                first = ws.get_entity(uid_tx if case["direction"].startswith("rx") else uid_rx)[0]
                first.channels = [7.0, 8.0, 9.0]
            with Workspace(path, mode="r") as ws:
                a_rx, a_tx = ws.get_entity(uid_rx)[0], ws.get_entity(uid_tx)[0]
                if list(a_rx.channels) != [7.0, 8.0, 9.0] or list(a_tx.channels) != [7.0, 8.0, 9.0]:
                    return f"after re-opening and editing one side only, stored channels are rx={a_rx.channels} tx={a_tx.channels} ({case})"
                bad = both_ids(a_rx, a_tx, "after re-opening")
                if bad:
                    return f"{bad} ({case})"
        return None

    # ---- DC --------------------------------------------------------------------------------
    def _dc(self, case, path):
        from geoh5py.objects import CurrentElectrode, PotentialElectrode
        from geoh5py.workspace import Workspace

        def mk(ws, tag):
            tx = CurrentElectrode.create(ws, vertices=_verts(), parts=[0, 0, 1, 1], name="tx" + tag)
            tx.add_default_ab_cell_id()
            rx = PotentialElectrode.create(ws, vertices=_verts(off=2.0), cells=np.array([[0, 1], [2, 3]], dtype="uint32"), name="rx" + tag)
            rx.ab_cell_id = np.array([1, 2], dtype="int32")
            return rx, tx

        def link(rx, tx):
            if case["direction"] == "rx=>tx":
                rx.current_electrodes = tx
            else:
                tx.potential_electrodes = rx

        def check(rx, tx, where):
            for ent in (rx, tx):
                md = ent.metadata
                if md.get("Current Electrodes") != tx.uid or md.get("Potential Electrodes") != rx.uid:
                    return f"{where}: {ent.name} records {md}, expected current={tx.uid} potential={rx.uid}"
            if rx.current_electrodes is not tx or tx.potential_electrodes is not rx:
                return f"{where}: partner getters do not return each other (rx.current_electrodes is {getattr(rx.current_electrodes, 'name', None)}, tx.potential_electrodes is {getattr(tx.potential_electrodes, 'name', None)})"
            return None

        with Workspace.create(path) as ws:
            rx, tx = mk(ws, "1")
            link(rx, tx)
            bad = check(rx, tx, "after linking")
            if bad:
                return f"{bad} ({case})"
            if case["scenario"] == "relink":
                rx2, tx2 = mk(ws, "2")
                if case["direction"] == "rx=>tx":
                    rx.current_electrodes = tx2
                    bad = check(rx, tx2, "after re-linking the potential electrodes to a second current electrode")
                else:
                    tx.potential_electrodes = rx2
                    bad = check(rx2, tx, "after re-linking the current electrodes to a second potential electrode")
                if bad:
                    return f"{bad} ({case})"
            if case["scenario"] == "relink-back":
                # the partner is taken away by a link made from the other side, then the first link is made again
                rx2, tx2 = mk(ws, "2")
                if case["direction"] == "rx=>tx":
                    tx.potential_electrodes = rx2  # from the current side: rx still caches tx
                    rx.current_electrodes = tx     # linking again from the potential side must take effect
                else:
                    rx.current_electrodes = tx2
                    tx.potential_electrodes = rx
                bad = check(rx, tx, "after the pair was re-linked elsewhere from the other side and then linked again")
                if bad:
                    return f"{bad} ({case})"
            uids = (rx.uid, tx.uid)
        if case["scenario"] in ("reopen", "relink-back"):
            with Workspace(path, mode="r") as ws:
                bad = check(ws.get_entity(uids[0])[0], ws.get_entity(uids[1])[0], "after re-opening")
                if bad:
                    return f"{bad} ({case})"
        return None

    def _largeloop(self, case, path):
        from geoh5py import objects
        from geoh5py.workspace import Workspace

        RX = getattr(objects, f"LargeLoopGround{case['kind']}Receivers")
        TX = getattr(objects, f"LargeLoopGround{case['kind']}Transmitters")
        with Workspace.create(path) as ws:
            verts, loops, ids, cells = [], [], [], []
            count = 0
            for ind in range(2):
                off = 500.0 * ind
                verts.append(np.c_[np.linspace(-1000, 1000, 10), np.zeros(10) + off, np.zeros(10)])
                ids.append(np.ones(10) * (ind + 1))
                corners = np.array([[-100, -100], [-100, 100], [100, 100], [100, -100]])
                loops.append(np.c_[corners[:, 0], corners[:, 1] + off, np.zeros(4)])
                cells += [np.c_[np.arange(3) + count, np.arange(3) + count + 1], np.c_[count + 3, count]]
                count += 4
            rx = RX.create(ws, vertices=np.vstack(verts), name="rx")
            tx = TX.create(ws, vertices=np.vstack(loops), cells=np.vstack(cells), name="tx")
            tx.tx_id_property = tx.parts + 1
            rx_ids = np.hstack(ids)
            rx_ids[[3, 14]] = 0  # two stations that refer to no loop ("Unknown")
            rx.tx_id_property = rx_ids
            rx.transmitters = tx
            loop_verts = np.vstack(loops)
        mode = "r+"
        ws = Workspace(path, mode=mode) if case["reopen"] else Workspace.create(path.replace("s.geoh5", "same.geoh5"))
        other = None
        try:
            if not case["reopen"]:
                # same session: build again in this workspace (nothing read back from a file)
                rx = RX.create(ws, vertices=np.vstack(verts), name="rx")
                tx = TX.create(ws, vertices=loop_verts, cells=np.vstack(cells), name="tx")
                tx.tx_id_property = tx.parts + 1
                rx.tx_id_property = rx_ids
                rx.transmitters = tx
            else:
                rx, tx = ws.get_entity("rx")[0], ws.get_entity("tx")[0]
            if rx.transmitters is not tx or tx.receivers is not rx:
                return f"large-loop partners do not resolve each other ({case})"

            def pair_ok(new_rx, new_tx, n_rx, n_tx, what):
                if new_rx is None or new_tx is None:
                    return f"{what}: the partner was not copied (receivers {new_rx}, transmitters {new_tx})"
                if {new_rx.uid, new_tx.uid} & {rx.uid, tx.uid} and new_rx.workspace is rx.workspace:
                    return f"{what}: copies re-use the originals' identifiers"
                for nm, ent in (("receivers", new_rx), ("transmitters", new_tx)):
                    md = ent.metadata["EM Dataset"]
                    if md.get("Receivers") != new_rx.uid or md.get("Transmitters") != new_tx.uid:
                        return f"{what}: the copied {nm} record Receivers={md.get('Receivers')} Transmitters={md.get('Transmitters')}, expected the two copies {new_rx.uid} / {new_tx.uid}"
                if new_rx.transmitters is not new_tx or new_tx.receivers is not new_rx:
                    return f"{what}: the two copies do not resolve each other"
                if new_rx.n_vertices != n_rx or new_tx.n_vertices != n_tx:
                    return f"{what}: {new_rx.n_vertices} receivers / {new_tx.n_vertices} loop vertices copied, expected {n_rx} / {n_tx}"
                if rx.metadata["EM Dataset"].get("Transmitters") != tx.uid or tx.metadata["EM Dataset"].get("Receivers") != rx.uid:
                    return f"{what}: the original pair was re-linked by the copy"
                # each copied receiver refers to the copy of the loop its original refers to -- and to none where the original refers to none
                src_ids = np.asarray(rx.tx_id_property.values)
                new_ids = np.asarray(new_rx.tx_id_property.values)
                src_kept = src_ids if len(new_ids) == len(src_ids) else (src_ids[src_ids != 0] if len(new_ids) == 18 else src_ids[10:])
                if len(new_ids) != len(src_kept) or not np.array_equal(new_ids == 0, src_kept == 0):
                    return f"{what}: receivers that refer to no loop: original {np.where(src_kept == 0)[0].tolist()}, copy {np.where(new_ids == 0)[0].tolist()} (ids {new_ids.tolist()})"
                for a_, b_ in ((i_, j_) for i_ in range(len(new_ids)) for j_ in range(i_)):
                    if (new_ids[a_] == new_ids[b_]) != (src_kept[a_] == src_kept[b_]):
                        return f"{what}: receivers {b_} and {a_} {'share' if src_kept[a_] == src_kept[b_] else 'do not share'} a loop in the original but not so in the copy (ids {new_ids.tolist()})"
                # the loop a copied receiver refers to is named the same on both copies (one loop, one label), and every loop in use has a name
                maps = []
                for ent in (new_rx, new_tx):
                    vm = getattr(ent.tx_id_property, "value_map", None)
                    maps.append({int(k): str(v) for k, v in (getattr(vm, "map", None) or {}).items()})
                used = {int(k) for k in np.unique(np.r_[new_ids, np.asarray(new_tx.tx_id_property.values)]) if int(k) != 0}
                for k in sorted(used):
                    if maps[0].get(k) is None or maps[0].get(k) != maps[1].get(k):
                        return f"{what}: loop {k} is called {maps[0].get(k)!r} on the copied receivers and {maps[1].get(k)!r} on the copied transmitters"
                return None

            bad = None
            if case["scenario"] == "copy-receivers":
                new_rx = rx.copy()
                bad = pair_ok(new_rx, new_rx.transmitters if new_rx is not None else None, 20, 8, "rx.copy()")
            elif case["scenario"] == "copy-transmitters":
                new_tx = tx.copy()
                # from the loops' side the partner is the receivers that refer to one of the copied loops (18 of the 20)
                bad = pair_ok(new_tx.receivers if new_tx is not None else None, new_tx, 18, 8, "tx.copy()")
            elif case["scenario"] == "masked-copy-other-workspace":
                other = Workspace.create(path.replace("s.geoh5", "other.geoh5"))
                mask = np.zeros(20, dtype=bool)
                mask[10:] = True
                new_rx = rx.copy(parent=other, mask=mask)
                new_tx = new_rx.transmitters if new_rx is not None else None
                bad = pair_ok(new_rx, new_tx, 10, 4, "masked rx.copy() into another workspace")
                if not bad and not np.allclose(new_tx.vertices, loop_verts[4:]):
                    bad = "masked copy: the copied loop is not the loop the copied receivers refer to"
            else:
                tx.channels = [1.0, 2.0, 3.0]
                if list(rx.channels) != [1.0, 2.0, 3.0]:
                    bad = f"channels edited through the loops read {rx.channels} on the receivers"
            if bad:
                return f"{bad} ({case})"
        finally:
            for w in (ws, other):
                try:
                    if w is not None:
                        w.close()
                except Exception:
                    pass
        return None

    def _tipper(self, case, path):
        from geoh5py.objects import TipperBaseStations, TipperReceivers
        from geoh5py.workspace import Workspace

        with Workspace.create(path) as ws:
            rx = TipperReceivers.create(ws, vertices=_verts(), name="rx")
            bs = TipperBaseStations.create(ws, vertices=_verts(off=3.0), name="bs")
            rx.base_stations = bs
            if rx.base_stations is not bs or bs.receivers is not rx:
                return f"tipper receivers / base stations do not return each other after linking ({case})"
            rx.channels = [30.0, 45.0]
            if list(bs.channels) != [30.0, 45.0]:
                return f"channels edited through the receivers are {bs.channels} on the base stations ({case})"
            uids = (rx.uid, bs.uid)
            if case["scenario"] == "relink-base-to-second-receivers":
                # the base (which has resolved its first receivers above) is handed to a second receivers object
                rx2 = TipperReceivers.create(ws, vertices=_verts(off=7.0), name="rx2")
                rx2.base_stations = bs
                md = bs.metadata["EM Dataset"]
                if md.get("Receivers") != rx2.uid or md.get("Base stations") != bs.uid or rx2.metadata["EM Dataset"].get("Base stations") != bs.uid:
                    return f"after linking second receivers to the base the recorded identifiers are Receivers={md.get('Receivers')} Base stations={md.get('Base stations')} ({case})"
                if rx2.base_stations is not bs or bs.receivers is not rx2:
                    return f"after rx2.base_stations = bs the base resolves '{getattr(bs.receivers, 'name', None)}' as its receivers although both entities record rx2 ({case})"
                rx2.channels = [5.0]
                if list(bs.channels) != [5.0]:
                    return f"channels edited through the second receivers are {bs.channels} on the base stations ({case})"
                return None
            if case["scenario"].startswith("copy"):
                before = (dict(rx.metadata["EM Dataset"]), dict(bs.metadata["EM Dataset"]))
                if case["scenario"] == "copy-receivers":
                    new_rx = rx.copy()
                    new_bs = new_rx.base_stations
                else:
                    new_bs = bs.copy()
                    new_rx = new_bs.receivers
                if new_rx is None or new_bs is None or new_rx is rx or new_bs is bs:
                    return f"copying one side of a tipper pair did not produce a copy of the partner ({case})"
                if new_rx.base_stations is not new_bs or new_bs.receivers is not new_rx:
                    return f"the two copies are not linked to each other: receivers -> {getattr(new_rx.base_stations, 'name', None)}, base stations -> {getattr(new_bs.receivers, 'name', None)} ({case})"
                if rx.base_stations is not bs or bs.receivers is not rx or (dict(rx.metadata["EM Dataset"]), dict(bs.metadata["EM Dataset"])) != before:
                    return f"copying changed the originals' links or metadata ({case})"
                new_rx.channels = [10.0, 20.0]
                if list(new_bs.channels) != [10.0, 20.0] or list(rx.channels) != [30.0, 45.0] or list(bs.channels) != [30.0, 45.0]:
                    return f"an edit on the copy is not confined to the two copies: copy partner {new_bs.channels}, originals {rx.channels} / {bs.channels} ({case})"
                uids = (rx.uid, bs.uid)
        if case["scenario"] in ("reopen", "copy-receivers", "copy-base-stations"):
            with Workspace(path, mode="r") as ws:
                a, b = ws.get_entity(uids[0])[0], ws.get_entity(uids[1])[0]
                if a.base_stations is not b or b.receivers is not a or list(b.channels) != [30.0, 45.0]:
                    return f"after re-opening the tipper pair is not linked / edited consistently ({case})"
        return None


CONTRACTS = [LinkNative]


# ------------------------------------------------------------------------------------------
# abstract execution of the link layer
# ------------------------------------------------------------------------------------------


def em_self(ctx, cls_name="AirborneTEMReceivers"):
    from geoh5py import objects

    cls = getattr(objects, cls_name)
    me = Opaque("self", cls=cls)
    ws = Opaque("self.workspace")
    ua = Opaque("update_attribute")
    ua.maybe_method = lambda I, a, kw: I.event("persist", entity=a[0], group=a[1] if len(a) > 1 else None)
    ws.attrs["update_attribute"] = ua
    me.attrs["workspace"] = ws
    me.attrs["default_metadata"] = PDict({"EM Dataset": PDict({"Channels": PList([]), "Input type": "Rx"})})
    ctx.env.update(me=me, ws=ws)
    return me


class EMMetadataSet(Contract):
    """metadata.fset stores on self, persists self, and does the same for every partner the
    *getters* resolve (a partner that is not cached yet must still receive the edit)."""
    target = "geoh5py/objects/surveys/electromagnetics/base.py::BaseEMSurvey.metadata.fset"
    props = ("C20",)
    lenient = True

    def cases(self):
        return ["partner-cached", "partner-not-cached-yet", "identifiers-as-text"]

    def setup(self, ctx):
        me = em_self(ctx)
        if ctx.case == "identifiers-as-text":
            import uuid

            # a survey description as kept in a JSON document: identifiers are text, between plain-text entries
            u1, u2 = uuid.UUID(int=11), uuid.UUID(int=12)
            for a in ("receivers", "transmitters", "base_stations", "_receivers", "_transmitters", "_base_stations"):
                me.attrs[a] = None
            em = PDict({"Channels": PList([1.0]), "Input type": "Rx", "Receivers": str(u1), "Survey type": "Airborne TEM", "Transmitters": "{" + str(u2) + "}", "Unit": "Milliseconds (ms)"})
            values = PDict({"EM Dataset": em})
            ctx.env.update(values=values, em=em, ids={"Receivers": u1, "Transmitters": u2})
            return [me, values], {}
        partner = Opaque("partner")
        me.distinct = partner.distinct = True
        ctx.path.assume(~partner.none_var())
        # the public getters resolve the partner from the stored identifiers
        me.attrs["receivers"] = me
        me.attrs["transmitters"] = partner
        me.attrs["base_stations"] = None
        me.attrs["_receivers"] = None
        me.attrs["_transmitters"] = partner if ctx.case == "partner-cached" else None
        me.attrs["_base_stations"] = None
        values = PDict({"EM Dataset": PDict({"Channels": Opaque("channels"), "Input type": Opaque("input")})})
        ctx.env.update(partner=partner, values=values)
        return [me, values], {}

    def post(self, ctx, result):
        e = ctx.env
        if ctx.case == "identifiers-as-text":
            em = e["em"].items
            for key, u in e["ids"].items():
                ctx.oblige(f"identifier-text-{key}-is-stored-as-an-identifier", em.get(key) == u, note=f"{key} stays {em.get(key)!r}: the partner cannot be resolved from it")
            for key, txt in (("Input type", "Rx"), ("Survey type", "Airborne TEM"), ("Unit", "Milliseconds (ms)")):
                ctx.oblige(f"plain-text-{key.replace(' ', '-')}-is-kept", em.get(key) == txt)
            return
        me, partner, values = e["me"], e["partner"], e["values"]
        ev = ctx.path.events
        persisted = [p["entity"] for k, p in ev if k == "persist" and p["group"] == "metadata"]
        ctx.oblige("own-metadata-stored-and-persisted", me.attrs.get("_metadata") is values and any(x is me for x in persisted))
        ctx.oblige("the-edit-reaches-the-partner-in-memory", partner.attrs.get("_metadata") is values)
        ctx.oblige("the-edit-reaches-the-partner-on-file", any(x is partner for x in persisted))

    def post_raises(self, ctx, sig):
        ctx.oblige("valid-metadata-is-not-refused", False, kind="post-exc", note=f"{sig.exc_class.__name__} at {sig.origin}")


class _LinkSet(Contract):
    """link setter: the cached partner is the new one by the time the shared metadata is edited
    (the edit propagates through the partner getter)."""
    props = ("C20",)
    lenient = True
    field = ""
    key = ""
    self_cls = "AirborneTEMReceivers"
    partner_cls = "AirborneTEMTransmitters"
    back = None

    def setup(self, ctx):
        from geoh5py import objects

        me = em_self(ctx, self.self_cls)
        old = Opaque("old-partner", cls=getattr(objects, self.partner_cls))
        new = Opaque("new-partner", cls=getattr(objects, self.partner_cls))
        new.attrs["uid"] = Opaque("new-partner.uid")
        me.attrs["_" + self.field] = old
        me.attrs["type"] = "Transmitters" if "Transmitters" in self.self_cls else "Receivers"  # what the class's type property answers

        def edit(I, a, kw):
            I.event("edit_em_metadata", entries=a[0], cached=me.attrs.get("_" + self.field))
            return None

        m = Opaque("edit_em_metadata")
        m.maybe_method = edit
        me.attrs["edit_em_metadata"] = m
        ctx.env.update(old=old, new=new)
        return [me, new], {}

    def post(self, ctx, result):
        e = ctx.env
        edits = [p for k, p in ctx.path.events if k == "edit_em_metadata"]
        ctx.oblige("the-link-is-recorded-in-the-shared-metadata", len(edits) == 1 and isinstance(edits[0]["entries"], PDict) and edits[0]["entries"].items.get(self.key) is e["new"].attrs["uid"])
        ctx.oblige("the-cached-partner-is-the-new-one-when-the-metadata-is-propagated", len(edits) == 1 and edits[0]["cached"] is e["new"])
        ctx.oblige("the-getter-returns-the-new-partner-afterwards", e["me"].attrs.get("_" + self.field) is e["new"])
        back = self.back or ("_receivers" if self.field == "transmitters" else "_transmitters")
        ctx.oblige("the-new-partner-resolves-this-entity-from-now-on", e["new"].attrs.get(back) is e["me"],
                   note=f"the partner's cached {back[1:]} still names whoever it was linked to before: its getter disagrees with the identifiers just recorded on both entities")


class TransmittersSet(_LinkSet):
    target = "geoh5py/objects/surveys/electromagnetics/base.py::BaseEMSurvey.transmitters.fset"
    field, key = "transmitters", "Transmitters"


class ReceiversSet(_LinkSet):
    target = "geoh5py/objects/surveys/electromagnetics/base.py::BaseEMSurvey.receivers.fset"
    field, key = "receivers", "Receivers"
    self_cls, partner_cls = "AirborneTEMTransmitters", "AirborneTEMReceivers"


class CellCopyStub(Contract):
    """summary of CellObject.copy used by the survey copy: a new entity of the same class (C12)."""
    target = "geoh5py/objects/cell_object.py::CellObject.copy"
    symbolic = False
    props = ()

    def apply(self, I, args, kwargs):
        new = Opaque("new-entity", cls=getattr(args[0], "cls", None))
        new.distinct = True
        em = Opaque("new-entity.edit_em_metadata")
        em.maybe_method = lambda I_, a, kw: I_.event("edit-copy", entries=a[0])
        new.attrs["edit_em_metadata"] = em
        I.event("super-copy", source=args[0], kwargs=dict(kwargs))
        I.ctx.env["new"] = new
        return new


class EMCopy(Contract):
    """Copying one side of a linked survey: the copy receives the shared survey parameters but none
    of the original partner identifiers (receivers, transmitters, base stations); the partner is
    copied as well and linked to the copy, not to the original."""
    target = "geoh5py/objects/surveys/electromagnetics/base.py::BaseEMSurvey.copy"
    props = ("C20", "C12")
    lenient = True
    uses = (CellCopyStub,)

    def cases(self):
        return ["receivers-with-transmitters", "tipper-receivers-with-base-stations", "unlinked"]

    def setup(self, ctx):
        import uuid

        me = em_self(ctx, "TipperReceivers" if ctx.case.startswith("tipper") else "AirborneTEMReceivers")
        ids = {"Receivers": uuid.UUID(int=1)}
        if ctx.case == "receivers-with-transmitters":
            ids["Transmitters"] = uuid.UUID(int=2)
        elif ctx.case.startswith("tipper"):
            ids["Base stations"] = uuid.UUID(int=3)
        # legitimate parameter values include 0.0 and False
        em = {"Channels": PList([1.0, 2.0]), "Input type": "Rx", "Survey type": "Airborne TEM", "Unit": "Milliseconds (ms)", "Loop radius": 1.5,
              "Pitch": 0.0, "Crossline offset": 0.0, "Relative to bearing": False}
        em.update(ids)
        me.attrs["metadata"] = PDict({"EM Dataset": PDict(dict(sorted(em.items())))})
        partner = None
        if ctx.case != "unlinked":
            partner = Opaque("partner")
            partner.distinct = True
            ctx.path.assume(~partner.none_var())
        me.attrs["complement"] = partner
        cc = Opaque("copy_complement")
        cc.maybe_method = lambda I, a, kw: I.event("copy-complement", new_entity=a[0], parent=kw.get("parent"))
        me.attrs["copy_complement"] = cc
        me.attrs["parent"] = Opaque("parent")
        ctx.env.update(ids=ids, partner=partner, em=em)
        return [me], {}

    def post(self, ctx, result):
        e = ctx.env
        new = e.get("new")
        ctx.oblige("returns-the-new-entity", new is not None and result is new)
        forwarded = {}
        for k, p in ctx.path.events:
            if k == "edit-copy":
                ent = p["entries"]
                forwarded.update(ent.items if isinstance(ent, PDict) else dict(ent))
        for key in e["ids"]:
            ctx.oblige(f"the-originals-{key.replace(' ', '-')}-identifier-is-not-forwarded-to-the-copy", key not in forwarded,
                       note=f"the copy is given the original's {key} identifier and stays linked to (or re-links) the original partner")
        for key in ("Channels", "Input type", "Survey type", "Unit", "Loop radius", "Pitch", "Crossline offset", "Relative to bearing"):
            ctx.oblige(f"shared-parameter-{key.replace(' ', '-')}-reaches-the-copy", key in forwarded)
        cc = [p for k, p in ctx.path.events if k == "copy-complement"]
        if e["partner"] is not None:
            ctx.oblige("the-partner-is-copied-and-linked-to-the-copy", len(cc) == 1 and cc[0]["new_entity"] is new)
        else:
            ctx.oblige("nothing-to-link-for-an-unlinked-survey", not cc)


class EMCopyComplement(Contract):
    """BaseEMSurvey.copy_complement: the partner is copied under the requested parent with the caller's
    options and linked to the new entity. A selection of this entity's stations is handed on only to
    a partner that has one station per station of this entity; a partner with a count of its own (the
    single base station of a tipper survey) has no entry per receiver and is copied whole."""
    target = "geoh5py/objects/surveys/electromagnetics/base.py::BaseEMSurvey.copy_complement"
    props = ("C12", "C13", "C20")
    lenient = True

    def cases(self):
        return [(shape, masked) for shape in ("one-station-per-receiver", "a-single-base-station", "more-stations-than-this-entity") for masked in (True, False)]

    def setup(self, ctx):
        shape, masked = ctx.case
        me = em_self(ctx, "TipperReceivers")
        me.attrs["n_vertices"] = 1 if shape == "more-stations-than-this-entity" else 6
        partner = Opaque("partner")
        ctx.path.assume(~partner.none_var())
        partner.attrs["n_vertices"] = 6 if shape != "a-single-base-station" else 1
        partner.attrs["type"] = "Base stations"
        newp = Opaque("copy-of-the-partner")
        sc = Opaque("_super_copy")
        sc.maybe_method = lambda I, a, kw: (I.event("partner-copied", kw=dict(kw)), newp)[1]
        partner.attrs["_super_copy"] = sc
        me.attrs["complement"] = partner
        new_entity = Opaque("new-entity")
        mask = Opaque("mask") if masked else None
        if masked:
            ctx.path.assume(~mask.none_var())
        parent, cc, clear = Opaque("parent"), Opaque("copy_children"), Opaque("clear_cache")
        ctx.env.update(new_entity=new_entity, newp=newp, mask=mask, parent=parent, cc=cc, clear=clear)
        return [me, new_entity], {"parent": parent, "copy_children": cc, "clear_cache": clear, "mask": mask}

    def post(self, ctx, result):
        e = ctx.env
        shape, masked = ctx.case
        made = [p["kw"] for k, p in ctx.path.events if k == "partner-copied"]
        ctx.oblige("the-partner-is-copied-once-under-the-requested-parent-with-the-callers-options",
                   len(made) == 1 and made[0].get("parent") is e["parent"] and made[0].get("copy_children") is e["cc"] and made[0].get("clear_cache") is e["clear"] and result is e["newp"])
        if len(made) != 1:
            return
        want = e["mask"] if (masked and shape == "one-station-per-receiver") else None
        ctx.oblige("the-selection-reaches-only-a-partner-with-one-station-per-receiver", made[0].get("mask") is want,
                   note=f"mask handed to the partner's copy: {made[0].get('mask')!r}; a selection over this entity's stations has no meaning for a partner with another count of stations")
        ctx.oblige("the-copy-of-the-partner-is-linked-to-the-new-entity", e["new_entity"].attrs.get("base_stations") is e["newp"])


CONTRACTS = [LinkNative, EMMetadataSet, TransmittersSet, ReceiversSet, CellCopyStub, EMCopy, EMCopyComplement]


class AirborneSetMetadata(Contract):
    """AirborneEMSurvey.set_metadata: a survey parameter is either a number or a reference to a data
    channel, never both: assigning one form clears the other (the reader gives the number priority),
    assigning None clears both."""
    target = "geoh5py/objects/surveys/electromagnetics/base.py::AirborneEMSurvey.set_metadata"
    props = ("C20",)
    lenient = True

    def cases(self):
        return [(k, form) for k in ("yaw", "pitch", "inline_offset") for form in ("number", "channel", "cleared")]

    def setup(self, ctx):
        import uuid

        me = em_self(ctx, "AirborneTEMReceivers")
        em = Opaque("edit_em_metadata")
        em.maybe_method = lambda I, a, kw: I.event("edit", entries=a[0])
        me.attrs["edit_em_metadata"] = em
        key, form = ctx.case
        value = {"number": 3.5, "channel": uuid.UUID(int=99), "cleared": None}[form]
        ctx.env.update(value=value)
        return [me, key, value], {}

    def post(self, ctx, result):
        from geoh5py.objects.surveys.electromagnetics.base import AirborneEMSurvey

        key, form = ctx.case
        field = AirborneEMSurvey._PROPERTY_MAP[key]  # pylint: disable=protected-access
        merged = {}
        for k, p in ctx.path.events:
            if k == "edit":
                ent = p["entries"]
                merged.update(ent.items if isinstance(ent, PDict) else dict(ent))
        v = ctx.env["value"]
        want = {field + " value": v if form == "number" else None, field + " property": v if form == "channel" else None}
        for k, w in want.items():
            ctx.oblige(f"{k.split()[-1]}-entry-is-{'set' if w is not None else 'cleared'}", k in merged and merged[k] == w,
                       note=f"'{k}' is {'left as it was' if k not in merged else merged[k]!r}: the other form of the parameter stays visible")


class ElectrodeMetadataStub(Contract):
    """summary of BaseElectrode.metadata.fset for the link setters: the record is stored on the entity
    (its validation and persistence are the metadata setter's own business)."""
    target = "geoh5py/objects/surveys/direct_current.py::BaseElectrode.metadata.fset"
    symbolic = False
    props = ()

    def apply(self, I, args, kwargs):
        ent, values = args[0], args[1]
        ent.attrs["metadata"] = values
        I.event("metadata-set", entity=ent)
        return None


class PotentialLinksCurrent(Contract):
    """PotentialElectrode.current_electrodes = tx: whatever partner either side had cached, both
    entities record both identifiers and cache each other afterwards."""
    target = "geoh5py/objects/surveys/direct_current.py::PotentialElectrode.current_electrodes.fset"
    props = ("C20",)
    lenient = True
    uses = (ElectrodeMetadataStub,)

    def cases(self):
        return ["first-link", "same-partner-cached-but-re-linked-elsewhere", "other-partner-cached"]

    def setup(self, ctx):
        import uuid

        from geoh5py.objects import CurrentElectrode, PotentialElectrode

        me = Opaque("self", cls=PotentialElectrode)
        tx = Opaque("tx", cls=CurrentElectrode)
        other = Opaque("other-tx", cls=CurrentElectrode)
        for o in (me, tx, other):
            o.distinct = True
        me.attrs["uid"], tx.attrs["uid"] = uuid.UUID(int=1), uuid.UUID(int=2)
        me.attrs["_current_electrodes"] = {"first-link": None, "same-partner-cached-but-re-linked-elsewhere": tx, "other-partner-cached": other}[ctx.case]
        tx.attrs["_potential_electrodes"] = None if ctx.case == "first-link" else Opaque("someone-else")
        me.attrs["ab_cell_id"] = None
        tx.attrs["ab_cell_id"] = None
        ctx.env.update(me=me, tx=tx)
        return [me, tx], {}

    def post(self, ctx, result):
        e = ctx.env
        me, tx = e["me"], e["tx"]
        want = {"Current Electrodes": tx.attrs["uid"], "Potential Electrodes": me.attrs["uid"]}
        for who, ent in (("the-potential-electrodes", me), ("the-current-electrodes", tx)):
            md = ent.attrs.get("metadata")
            got = md.items if isinstance(md, PDict) else (dict(md) if isinstance(md, dict) else None)
            ctx.oblige(f"{who}-record-both-identifiers", got == want, note=f"recorded {got}")
        ctx.oblige("both-sides-cache-each-other", me.attrs.get("_current_electrodes") is tx and tx.attrs.get("_potential_electrodes") is me)

    def post_raises(self, ctx, sig):
        ctx.oblige("linking-two-electrode-objects-does-not-raise", False, kind="post-exc", note=f"{sig.exc_class.__name__}")


CONTRACTS = CONTRACTS + [AirborneSetMetadata, ElectrodeMetadataStub, PotentialLinksCurrent]


class IndependentSurveysFrame(Contract):
    """Frame condition across surveys: building, linking, editing or copying one survey pair leaves
    every node of an unrelated, already stored pair of the same family byte-identical (attributes,
    metadata, data sets, types) -- class-level defaults are not a channel between entities."""
    target = "geoh5py/objects/surveys/electromagnetics/base.py::BaseEMSurvey.metadata.fget"
    variant = "independent-surveys"
    symbolic = False
    has_native = True
    props = ("C09", "C20")
    bounded_scope = "families {airborne TEM, airborne FEM, moving-loop TEM, MT receivers alone, tipper, DC/IP}; a first pair is created, linked, given channels and stored; a second one is then created / linked / edited / copied {in the same session, after a re-open}; per-node digests of every node belonging to the first pair are compared, and the first pair's in-memory description (exhaustive over the listed combinations)"

    FAMILIES = ("AirborneTEM", "AirborneFEM", "MovingLoopGroundTEM", "MT", "tipper", "dcip")

    def native_cases(self, tier, rng):
        for fam in self.FAMILIES:
            for reopen in (False, True):
                for second in ("create-only", "create-link-edit", "copy-of-second"):
                    yield {"family": fam, "reopen": reopen, "second": second}

    @staticmethod
    def _make(ws, fam, tag, link=True, edit=True, off=0.0):
        from geoh5py import objects

        if fam == "tipper":
            rx = objects.TipperReceivers.create(ws, vertices=_verts(off=off), name="rx" + tag)
            if link:
                bs = objects.TipperBaseStations.create(ws, vertices=_verts(off=off + 3.0), name="bs" + tag)
                rx.base_stations = bs
            if edit:
                rx.channels = [30.0 + off, 45.0]
            return rx
        if fam == "dcip":
            tx = objects.CurrentElectrode.create(ws, vertices=_verts(off=off), parts=[0, 0, 1, 1], name="tx" + tag)
            tx.add_default_ab_cell_id()
            rx = objects.PotentialElectrode.create(ws, vertices=_verts(off=off + 2.0), cells=np.array([[0, 1], [2, 3]], dtype="uint32"), name="rx" + tag)
            rx.ab_cell_id = np.array([1, 2], dtype="int32")
            if link:
                rx.current_electrodes = tx
            return rx
        if fam == "MT":
            rx = objects.MTReceivers.create(ws, vertices=_verts(off=off), name="rx" + tag)
            if edit:
                rx.channels = [5.0 + off, 10.0]
            return rx
        rx = getattr(objects, fam + "Receivers").create(ws, vertices=_verts(off=off), name="rx" + tag)
        if link:
            tx = getattr(objects, fam + "Transmitters").create(ws, vertices=_verts(off=off + 1.0), name="tx" + tag)
            rx.transmitters = tx
        if edit:
            rx.channels = [1.0 + off, 2.0]
        return rx

    @staticmethod
    def _digests(path, uids):
        """canonical per-node description (attributes, own datasets, member names) of the flat nodes with these identifiers"""
        import h5py

        out = {}

        def describe(node):
            d = {"attrs": {k: repr(np.asarray(node.attrs[k]).tolist()) for k in sorted(node.attrs)}}
            if isinstance(node, h5py.Dataset):
                d["data"] = repr(np.asarray(node[()]).tolist())
            else:
                d["members"] = sorted(node.keys())
                for k in node:
                    if isinstance(node[k], h5py.Dataset):
                        d["ds:" + k] = repr(np.asarray(node[k][()]).tolist())
                    elif k == "PropertyGroups":
                        d["pg"] = {g: {a: repr(np.asarray(node[k][g].attrs[a]).tolist()) for a in sorted(node[k][g].attrs)} for g in node[k]}
            return d

        with h5py.File(path, "r") as f:
            proj = f[list(f)[0]]
            flats = [("Objects", proj["Objects"]), ("Data", proj["Data"]), ("Groups", proj["Groups"])] + [("Types/" + t, proj["Types"][t]) for t in proj["Types"]]
            for label, cont in flats:
                for key in cont:
                    if key.strip("{}") in uids:
                        out[f"{label}/{key}"] = describe(cont[key])
        return out

    def native_check(self, case):
        from geoh5py.workspace import Workspace

        file_digests = self._digests
        d = tempfile.mkdtemp()
        try:
            path = os.path.join(d, "f.geoh5")
            ws = Workspace.create(path)
            first = self._make(ws, case["family"], "1")
            mine = {str(e.uid) for e in ws.objects if e.name.endswith("1")}
            mine |= {str(c.uid) for e in ws.objects if e.name.endswith("1") for c in e.children if hasattr(c, "uid")}
            mine |= {str(getattr(c, "entity_type", e.entity_type).uid) for e in ws.objects if e.name.endswith("1") for c in [e] + [k for k in e.children if hasattr(k, "entity_type")]}
            described = {e.name: repr(e.metadata) for e in ws.objects if e.name.endswith("1")}
            ws.close()
            before = file_digests(path, mine)
            if not before:
                return f"harness: no node of the first survey found in the file ({case})"
            ws = Workspace(path, mode="r+")
            try:
                if not case["reopen"]:
                    pass  # same process either way; "reopen" decides whether the first pair is loaded while the second is built
                else:
                    _ = [e.metadata for e in ws.objects]
                second = self._make(ws, case["family"], "2", link=case["second"] != "create-only", edit=case["second"] != "create-only", off=50.0)
                if case["second"] == "copy-of-second":
                    second.copy()
                now = {e.name: repr(e.metadata) for e in ws.objects if e.name in described}
            finally:
                ws.close()
            after = file_digests(path, mine)
            changed = sorted(f"{k}: {[m for m in before[k] if after.get(k, {}).get(m) != before[k][m]]}" for k in before if after.get(k) != before[k]) + sorted(set(after) - set(before))
            # types are shared by class: a second survey of the same class may legitimately touch nothing of them either
            if changed:
                return f"building a second, unrelated survey changed nodes of the first one in the file: {changed[:3]} ({case})"
            for name, text in described.items():
                if case["reopen"] and now.get(name) != text:
                    return f"building a second, unrelated survey changed the description of '{name}': {now.get(name)} (was {text}) ({case})"
            return None
        finally:
            shutil.rmtree(d, ignore_errors=True)


CONTRACTS = CONTRACTS + [IndependentSurveysFrame]


class ElectrodeMetadataRefusal(Contract):
    """BaseElectrode.metadata (setter): a record that does not name both electrodes, or names one the
    workspace does not hold, is refused -- and a refusal leaves the record the electrode holds (which
    its partner holds too: one dictionary for the pair) exactly as it was."""
    target = "geoh5py/objects/surveys/direct_current.py::BaseElectrode.metadata.fset"
    props = ("C20",)
    lenient = True

    def cases(self):
        return [(linked, bad) for linked in (True, False) for bad in ("unknown-current", "unknown-potential", "keys-missing")]

    def setup(self, ctx):
        import uuid

        from geoh5py.objects import PotentialElectrode

        linked, bad = ctx.case
        me = Opaque("self", cls=PotentialElectrode)
        cur, pot, ghost = uuid.UUID(int=1), uuid.UUID(int=2), uuid.UUID(int=99)
        held = PDict({"Current Electrodes": cur, "Potential Electrodes": pot}) if linked else None
        me.attrs["metadata"] = held
        me.attrs["_metadata"] = held
        ws = Opaque("workspace")
        known = Opaque("an-electrode")
        ctx.path.assume(~known.none_var())
        ge = Opaque("get_entity")
        ge.maybe_method = lambda I, a, kw: PList([None if a[0] == ghost else known])
        ws.attrs["get_entity"] = ge
        ua = Opaque("update_attribute")
        ua.maybe_method = lambda I, a, kw: I.event("persist")
        ws.attrs["update_attribute"] = ua
        me.attrs["workspace"] = ws
        values = {"unknown-current": {"Current Electrodes": ghost, "Potential Electrodes": pot}, "unknown-potential": {"Current Electrodes": cur, "Potential Electrodes": ghost},
                  "keys-missing": {"Some other key": 5}}[bad]
        if linked and bad == "keys-missing":
            values = {"Current Electrodes": ghost}  # with a record already there the missing key is taken from it: still an unknown electrode
        ctx.env.update(me=me, held=held, before=None if held is None else dict(held.items))
        return [me, PDict(dict(values))], {}

    def post(self, ctx, result):
        ctx.oblige("a-record-naming-an-unknown-electrode-or-lacking-one-is-refused", False, note="accepted")

    def post_raises(self, ctx, sig):
        e = ctx.env
        ctx.oblige("refused-with-the-documented-errors", sig.exc_class in (KeyError, ValueError), kind="post-exc")
        same = (e["held"] is None and e["me"].attrs.get("_metadata") is None) or (e["held"] is not None and e["me"].attrs.get("_metadata") is e["held"] and dict(e["held"].items) == e["before"])
        ctx.oblige("a-refused-record-leaves-the-held-record-as-it-was", same and not ctx.path.events, kind="post-exc",
                   note=f"the record held by the electrode (and by its partner) now reads {None if e['held'] is None else dict(e['held'].items)}")


CONTRACTS = CONTRACTS + [ElectrodeMetadataRefusal]


class CurrentLinksPotential(PotentialLinksCurrent):
    """CurrentElectrode.potential_electrodes = rx: the other linking direction; same obligations with
    the roles swapped (both entities record both identifiers, both cache each other)."""
    target = "geoh5py/objects/surveys/direct_current.py::CurrentElectrode.potential_electrodes.fset"

    def setup(self, ctx):
        import uuid

        from geoh5py.objects import CurrentElectrode, PotentialElectrode

        me = Opaque("self", cls=CurrentElectrode)
        rx = Opaque("rx", cls=PotentialElectrode)
        other = Opaque("other-rx", cls=PotentialElectrode)
        for o in (me, rx, other):
            o.distinct = True
        me.attrs["uid"], rx.attrs["uid"] = uuid.UUID(int=2), uuid.UUID(int=1)
        me.attrs["_potential_electrodes"] = {"first-link": None, "same-partner-cached-but-re-linked-elsewhere": rx, "other-partner-cached": other}[ctx.case]
        rx.attrs["_current_electrodes"] = None if ctx.case == "first-link" else Opaque("someone-else")
        me.attrs["ab_cell_id"] = None
        rx.attrs["ab_cell_id"] = None
        ctx.env.update(me=rx, tx=me)  # the parent's post speaks of `me` (potential) and `tx` (current)
        return [me, rx], {}


class _PartnerGetter(Contract):
    """Electrode partner getters: a cached partner is answered without a lookup; otherwise the
    identifier recorded under the partner's key of the entity's own metadata is looked up in the
    entity's workspace, an entity of the partner class is cached and returned, anything else answers
    None -- the getter never writes (no persist event) and never caches an entity of another class."""
    props = ("C20",)
    lenient = True
    field = ""
    key = ""
    self_cls = ""
    partner_cls = ""

    def cases(self):
        return ["cached", "recorded-and-found", "recorded-but-another-class", "recorded-but-unknown", "no-record", "record-without-the-key"]

    def setup(self, ctx):
        import uuid

        from geoh5py import objects

        me = Opaque("self", cls=getattr(objects, self.self_cls))
        partner = Opaque("partner", cls=getattr(objects, self.partner_cls))
        stranger = Opaque("stranger", cls=objects.Points)
        cached = Opaque("cached-partner", cls=getattr(objects, self.partner_cls))
        for o in (me, partner, stranger, cached):
            o.distinct = True
        pid = uuid.UUID(int=7)
        me.attrs["_" + self.field] = cached if ctx.case == "cached" else None
        other_key = "Potential Electrodes" if self.key == "Current Electrodes" else "Current Electrodes"
        md = {"no-record": None, "record-without-the-key": PDict({other_key: uuid.UUID(int=9)})}.get(ctx.case, PDict({self.key: pid, other_key: uuid.UUID(int=9)}))
        me.attrs["metadata"] = md
        ws = Opaque("workspace")
        ge = Opaque("get_entity")
        found = {"recorded-and-found": partner, "recorded-but-another-class": stranger}.get(ctx.case)

        def lookup(I, a, kw):
            I.event("lookup", uid=a[0])
            return PList([found if a[0] == pid else None])

        ge.maybe_method = lookup
        ws.attrs["get_entity"] = ge
        ua = Opaque("update_attribute")
        ua.maybe_method = lambda I, a, kw: I.event("persist")
        ws.attrs["update_attribute"] = ua
        me.attrs["workspace"] = ws
        ctx.env.update(me=me, partner=partner, cached=cached, pid=pid)
        return [me], {}

    def post(self, ctx, result):
        e = ctx.env
        lookups = [p for k, p in ctx.path.events if k == "lookup"]
        others = [(k, p) for k, p in ctx.path.events if k != "lookup" and not (k == "setattr" and p["target"] == "self" and p["name"] == "_" + self.field)]
        ctx.oblige("reading-the-partner-writes-nothing-but-its-own-cache", not others, note=f"events {others}")
        if ctx.case == "cached":
            ctx.oblige("a-cached-partner-is-answered-as-is", result is e["cached"] and not lookups)
        elif ctx.case == "recorded-and-found":
            ctx.oblige("the-recorded-identifier-is-resolved-in-the-entity's-workspace", len(lookups) >= 1 and all(l["uid"] == e["pid"] for l in lookups))
            ctx.oblige("the-partner-found-is-returned-and-cached", result is e["partner"] and e["me"].attrs.get("_" + self.field) is e["partner"])
        else:
            ctx.oblige("no-partner-is-answered-when-none-of-the-partner-class-is-recorded", result is None and e["me"].attrs.get("_" + self.field) is None,
                       note=f"answered {result!r}")

    def post_raises(self, ctx, sig):
        ctx.oblige("reading-the-partner-does-not-raise", False, kind="post-exc", note=f"{sig.exc_class.__name__} at {sig.origin}")


class PotentialResolvesCurrent(_PartnerGetter):
    target = "geoh5py/objects/surveys/direct_current.py::PotentialElectrode.current_electrodes.fget"
    field, key = "current_electrodes", "Current Electrodes"
    self_cls, partner_cls = "PotentialElectrode", "CurrentElectrode"


class CurrentResolvesPotential(_PartnerGetter):
    target = "geoh5py/objects/surveys/direct_current.py::CurrentElectrode.potential_electrodes.fget"
    field, key = "potential_electrodes", "Potential Electrodes"
    self_cls, partner_cls = "CurrentElectrode", "PotentialElectrode"


CONTRACTS = CONTRACTS + [CurrentLinksPotential, PotentialResolvesCurrent, CurrentResolvesPotential]


class BaseStationsSet(_LinkSet):
    """TipperSurvey.base_stations = base (set on the receivers): same obligations as the EM link
    setters -- the identifier goes into the shared metadata, the cache is the new base by the time
    the metadata is propagated, and the base resolves these receivers from now on."""
    target = "geoh5py/objects/surveys/electromagnetics/tipper.py::TipperSurvey.base_stations.fset"
    field, key = "base_stations", "Base stations"
    self_cls, partner_cls = "TipperReceivers", "TipperBaseStations"
    back = "_receivers"

    def setup(self, ctx):
        args, kw = super().setup(ctx)
        me, new = args
        me.attrs["n_vertices"] = 4
        new.attrs["n_vertices"] = 1
        new.attrs["_receivers"] = ctx.env["old"].__class__("someone-else")
        return args, kw


CONTRACTS = CONTRACTS + [BaseStationsSet]


class _EMPartnerGetter(_PartnerGetter):
    """EM partner getters (receivers / transmitters / tipper base stations): as the electrode getters, with
    the identifier recorded under the partner's key of metadata['EM Dataset']."""
    nested = True

    def setup(self, ctx):
        args, kw = super().setup(ctx)
        me = args[0]
        md = me.attrs["metadata"]
        if md is not None:
            inner = PDict(dict(md.items))
            inner.items.pop("Current Electrodes", None)
            inner.items.pop("Potential Electrodes", None)
            inner.items["Channels"] = PList([])
            me.attrs["metadata"] = PDict({"EM Dataset": inner})
        return args, kw


class ReceiversResolved(_EMPartnerGetter):
    target = "geoh5py/objects/surveys/electromagnetics/base.py::BaseEMSurvey.receivers.fget"
    field, key = "receivers", "Receivers"
    self_cls, partner_cls = "AirborneTEMTransmitters", "AirborneTEMReceivers"


class TransmittersResolved(_EMPartnerGetter):
    target = "geoh5py/objects/surveys/electromagnetics/base.py::BaseEMSurvey.transmitters.fget"
    field, key = "transmitters", "Transmitters"
    self_cls, partner_cls = "AirborneTEMReceivers", "AirborneTEMTransmitters"


class BaseStationsResolved(_EMPartnerGetter):
    target = "geoh5py/objects/surveys/electromagnetics/tipper.py::TipperSurvey.base_stations.fget"
    field, key = "base_stations", "Base stations"
    self_cls, partner_cls = "TipperReceivers", "TipperBaseStations"


CONTRACTS = CONTRACTS + [ReceiversResolved, TransmittersResolved, BaseStationsResolved]
