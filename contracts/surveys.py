"""C20: linked surveys stay mutually consistent."""
from __future__ import annotations

import itertools
import os
import shutil
import tempfile

import numpy as np
import z3

from pyvc.contracts import Contract
from pyvc.core import fresh_name
from pyvc.values import AbsObj, Obj, Opaque, PDict, PList, mk, sym, to_z3, zbool

EM_PAIRS = [
    ("AirborneTEMReceivers", "AirborneTEMTransmitters"),
    ("AirborneFEMReceivers", "AirborneFEMTransmitters"),
    ("MovingLoopGroundTEMReceivers", "MovingLoopGroundTEMTransmitters"),
    ("MovingLoopGroundFEMReceivers", "MovingLoopGroundFEMTransmitters"),
]


def _verts(n=4, off=0.0):
    return np.c_[np.arange(n, dtype=float) + off, np.zeros(n), np.zeros(n)]


class LinkNative(Contract):
    """Bounded stand-in: every class pair, both linking directions, edits through either side,
    re-linking, re-opening, copies."""
    target = "geoh5py/objects/surveys/electromagnetics/base.py::BaseEMSurvey.edit_em_metadata"
    variant = "class-pairs"
    symbolic = False
    has_native = True
    props = ("C20",)
    bounded_scope = "4 EM receiver/transmitter class pairs + tipper receivers/base stations + DC potential/current electrodes; link from either side; edit a shared parameter through either side with and without having read the partner first; re-link to a second partner; re-open and fetch one side only; plain copy; linking by a metadata document with identifiers as text (plain and braced); tipper copies from either side inside the same workspace; airborne parameters switched between a number and a data channel through alternating sides; DC pairs re-linked elsewhere from the other side and linked again"

    def native_cases(self, tier, rng):
        for rx, tx in EM_PAIRS:
            for direction in ("rx.transmitters=tx", "tx.receivers=rx"):
                for scenario in ("edit-both-sides", "reopen-edit-unread", "relink", "copy"):
                    yield {"family": "em", "rx": rx, "tx": tx, "direction": direction, "scenario": scenario}
                # linking by assigning the survey description with the identifiers given as text
                for form in ("plain", "braces"):
                    yield {"family": "em", "rx": rx, "tx": tx, "direction": direction, "scenario": "link-by-metadata-text", "form": form}
                if rx.startswith("Airborne"):
                    yield {"family": "em", "rx": rx, "tx": tx, "direction": direction, "scenario": "parameter-number-then-channel"}
        for direction in ("rx=>tx", "tx=>rx"):
            for scenario in ("basic", "relink", "reopen", "relink-back"):
                yield {"family": "dc", "direction": direction, "scenario": scenario}
        for scenario in ("basic", "reopen", "copy-receivers", "copy-base-stations"):
            yield {"family": "tipper", "scenario": scenario}

    def native_check(self, case):
        d = tempfile.mkdtemp()
        try:
            path = os.path.join(d, "s.geoh5")
            if case["family"] == "em":
                return self._em(case, path)
            if case["family"] == "dc":
                return self._dc(case, path)
            return self._tipper(case, path)
        finally:
            shutil.rmtree(d, ignore_errors=True)

    # ---- EM --------------------------------------------------------------------------------
    def _em(self, case, path):
        from geoh5py import objects
        from geoh5py.workspace import Workspace

        RX, TX = getattr(objects, case["rx"]), getattr(objects, case["tx"])

        def link(a_rx, a_tx):
            if case["direction"].startswith("rx"):
                a_rx.transmitters = a_tx
            else:
                a_tx.receivers = a_rx

        def both_ids(a_rx, a_tx, where):
            for ent in (a_rx, a_tx):
                md = ent.metadata["EM Dataset"]
                if md.get("Receivers") != a_rx.uid or md.get("Transmitters") != a_tx.uid:
                    return f"{where}: {ent.name} records Receivers={md.get('Receivers')} Transmitters={md.get('Transmitters')}, expected {a_rx.uid} / {a_tx.uid}"
            if a_rx.transmitters is not a_tx or a_tx.receivers is not a_rx:
                return f"{where}: partner getters do not return each other"
            return None

        with Workspace.create(path) as ws:
            rx = RX.create(ws, vertices=_verts(), name="rx")
            tx = TX.create(ws, vertices=_verts(off=1.0), name="tx")
            if case["scenario"] == "link-by-metadata-text":
                import json

                src = rx if case["direction"].startswith("rx") else tx
                doc = json.loads(json.dumps(src.metadata, default=str))
                text = (lambda u: str(u)) if case["form"] == "plain" else (lambda u: "{" + str(u) + "}")
                doc["EM Dataset"]["Receivers"] = text(rx.uid)
                doc["EM Dataset"]["Transmitters"] = text(tx.uid)
                src.metadata = doc
            else:
                link(rx, tx)
            bad = both_ids(rx, tx, "after linking")
            if not bad and case["scenario"] == "link-by-metadata-text":
                rx.channels = [1.0, 2.0]
                if list(tx.channels) != [1.0, 2.0]:
                    bad = f"channels edited through the receivers are {tx.channels} on the transmitters"
            if bad:
                return f"{bad} ({case})"
            if case["scenario"] == "edit-both-sides":
                rx.channels = [1.0, 2.0]
                if tx.channels != [1.0, 2.0]:
                    return f"channels edited through the receivers are {tx.channels} on the transmitters ({case})"
                tx.channels = [3.0]
                if rx.channels != [3.0]:
                    return f"channels edited through the transmitters are {rx.channels} on the receivers ({case})"
            if case["scenario"] == "parameter-number-then-channel":
                chan = rx.add_data({"yaw_channel": {"values": np.arange(len(rx.vertices), dtype=float)}})
                for first, second, side_a, side_b in ((3.5, chan.uid, tx, rx), (chan.uid, 7.25, rx, tx)):
                    for attr in ("yaw", "pitch"):
                        setattr(side_a, attr, first)
                        setattr(side_b, attr, second)
                        if getattr(rx, attr) != second or getattr(tx, attr) != second:
                            return f"{attr} set to {first!r} through one side and then to {second!r} through the other reads rx={getattr(rx, attr)!r} tx={getattr(tx, attr)!r} ({case})"
            if case["scenario"] == "relink":
                tx2 = TX.create(ws, vertices=_verts(off=5.0), name="tx2")
                rx2 = RX.create(ws, vertices=_verts(off=6.0), name="rx2")
                if case["direction"].startswith("rx"):
                    rx.transmitters = tx2
                    bad = both_ids(rx, tx2, "after re-linking the receivers to a second transmitter")
                else:
                    tx.receivers = rx2
                    bad = both_ids(rx2, tx, "after re-linking the transmitters to a second receiver")
                if bad:
                    return f"{bad} ({case})"
            if case["scenario"] == "copy":
                rx_c = rx.copy()
                tx_c = rx_c.transmitters
                if tx_c is None or tx_c is tx or tx_c.receivers is not rx_c:
                    return f"copying the receivers did not produce a linked copy of the transmitters ({case})"
                if rx.transmitters is not tx or tx.receivers is not rx:
                    return f"copying changed the originals' links ({case})"
            uid_rx, uid_tx = rx.uid, tx.uid
        if case["scenario"] in ("edit-both-sides", "reopen-edit-unread"):
            with Workspace(path, mode="r+") as ws:
                # fetch one side only and edit before ever reading its partner
                first = ws.get_entity(uid_tx if case["direction"].startswith("rx") else uid_rx)[0]
                first.channels = [7.0, 8.0, 9.0]
            with Workspace(path, mode="r") as ws:
                a_rx, a_tx = ws.get_entity(uid_rx)[0], ws.get_entity(uid_tx)[0]
                if list(a_rx.channels) != [7.0, 8.0, 9.0] or list(a_tx.channels) != [7.0, 8.0, 9.0]:
                    return f"after re-opening and editing one side only, stored channels are rx={a_rx.channels} tx={a_tx.channels} ({case})"
                bad = both_ids(a_rx, a_tx, "after re-opening")
                if bad:
                    return f"{bad} ({case})"
        return None

    # ---- DC --------------------------------------------------------------------------------
    def _dc(self, case, path):
        from geoh5py.objects import CurrentElectrode, PotentialElectrode
        from geoh5py.workspace import Workspace

        def mk(ws, tag):
            tx = CurrentElectrode.create(ws, vertices=_verts(), parts=[0, 0, 1, 1], name="tx" + tag)
            tx.add_default_ab_cell_id()
            rx = PotentialElectrode.create(ws, vertices=_verts(off=2.0), cells=np.array([[0, 1], [2, 3]], dtype="uint32"), name="rx" + tag)
            rx.ab_cell_id = np.array([1, 2], dtype="int32")
            return rx, tx

        def link(rx, tx):
            if case["direction"] == "rx=>tx":
                rx.current_electrodes = tx
            else:
                tx.potential_electrodes = rx

        def check(rx, tx, where):
            for ent in (rx, tx):
                md = ent.metadata
                if md.get("Current Electrodes") != tx.uid or md.get("Potential Electrodes") != rx.uid:
                    return f"{where}: {ent.name} records {md}, expected current={tx.uid} potential={rx.uid}"
            if rx.current_electrodes is not tx or tx.potential_electrodes is not rx:
                return f"{where}: partner getters do not return each other (rx.current_electrodes is {getattr(rx.current_electrodes, 'name', None)}, tx.potential_electrodes is {getattr(tx.potential_electrodes, 'name', None)})"
            return None

        with Workspace.create(path) as ws:
            rx, tx = mk(ws, "1")
            link(rx, tx)
            bad = check(rx, tx, "after linking")
            if bad:
                return f"{bad} ({case})"
            if case["scenario"] == "relink":
                rx2, tx2 = mk(ws, "2")
                if case["direction"] == "rx=>tx":
                    rx.current_electrodes = tx2
                    bad = check(rx, tx2, "after re-linking the potential electrodes to a second current electrode")
                else:
                    tx.potential_electrodes = rx2
                    bad = check(rx2, tx, "after re-linking the current electrodes to a second potential electrode")
                if bad:
                    return f"{bad} ({case})"
            if case["scenario"] == "relink-back":
                # the partner is taken away by a link made from the other side, then the first link is made again
                rx2, tx2 = mk(ws, "2")
                if case["direction"] == "rx=>tx":
                    tx.potential_electrodes = rx2  # from the current side: rx still caches tx
                    rx.current_electrodes = tx     # linking again from the potential side must take effect
                else:
                    rx.current_electrodes = tx2
                    tx.potential_electrodes = rx
                bad = check(rx, tx, "after the pair was re-linked elsewhere from the other side and then linked again")
                if bad:
                    return f"{bad} ({case})"
            uids = (rx.uid, tx.uid)
        if case["scenario"] in ("reopen", "relink-back"):
            with Workspace(path, mode="r") as ws:
                bad = check(ws.get_entity(uids[0])[0], ws.get_entity(uids[1])[0], "after re-opening")
                if bad:
                    return f"{bad} ({case})"
        return None

    def _tipper(self, case, path):
        from geoh5py.objects import TipperBaseStations, TipperReceivers
        from geoh5py.workspace import Workspace

        with Workspace.create(path) as ws:
            rx = TipperReceivers.create(ws, vertices=_verts(), name="rx")
            bs = TipperBaseStations.create(ws, vertices=_verts(off=3.0), name="bs")
            rx.base_stations = bs
            if rx.base_stations is not bs or bs.receivers is not rx:
                return f"tipper receivers / base stations do not return each other after linking ({case})"
            rx.channels = [30.0, 45.0]
            if list(bs.channels) != [30.0, 45.0]:
                return f"channels edited through the receivers are {bs.channels} on the base stations ({case})"
            uids = (rx.uid, bs.uid)
            if case["scenario"].startswith("copy"):
                before = (dict(rx.metadata["EM Dataset"]), dict(bs.metadata["EM Dataset"]))
                if case["scenario"] == "copy-receivers":
                    new_rx = rx.copy()
                    new_bs = new_rx.base_stations
                else:
                    new_bs = bs.copy()
                    new_rx = new_bs.receivers
                if new_rx is None or new_bs is None or new_rx is rx or new_bs is bs:
                    return f"copying one side of a tipper pair did not produce a copy of the partner ({case})"
                if new_rx.base_stations is not new_bs or new_bs.receivers is not new_rx:
                    return f"the two copies are not linked to each other: receivers -> {getattr(new_rx.base_stations, 'name', None)}, base stations -> {getattr(new_bs.receivers, 'name', None)} ({case})"
                if rx.base_stations is not bs or bs.receivers is not rx or (dict(rx.metadata["EM Dataset"]), dict(bs.metadata["EM Dataset"])) != before:
                    return f"copying changed the originals' links or metadata ({case})"
                new_rx.channels = [10.0, 20.0]
                if list(new_bs.channels) != [10.0, 20.0] or list(rx.channels) != [30.0, 45.0] or list(bs.channels) != [30.0, 45.0]:
                    return f"an edit on the copy is not confined to the two copies: copy partner {new_bs.channels}, originals {rx.channels} / {bs.channels} ({case})"
                uids = (rx.uid, bs.uid)
        if case["scenario"] in ("reopen", "copy-receivers", "copy-base-stations"):
            with Workspace(path, mode="r") as ws:
                a, b = ws.get_entity(uids[0])[0], ws.get_entity(uids[1])[0]
                if a.base_stations is not b or b.receivers is not a or list(b.channels) != [30.0, 45.0]:
                    return f"after re-opening the tipper pair is not linked / edited consistently ({case})"
        return None


CONTRACTS = [LinkNative]


# ------------------------------------------------------------------------------------------
# abstract execution of the link layer
# ------------------------------------------------------------------------------------------


def em_self(ctx, cls_name="AirborneTEMReceivers"):
    from geoh5py import objects

    cls = getattr(objects, cls_name)
    me = Opaque("self", cls=cls)
    ws = Opaque("self.workspace")
    ua = Opaque("update_attribute")
    ua.maybe_method = lambda I, a, kw: I.event("persist", entity=a[0], group=a[1] if len(a) > 1 else None)
    ws.attrs["update_attribute"] = ua
    me.attrs["workspace"] = ws
    me.attrs["default_metadata"] = PDict({"EM Dataset": PDict({"Channels": PList([]), "Input type": "Rx"})})
    ctx.env.update(me=me, ws=ws)
    return me


class EMMetadataSet(Contract):
    """metadata.fset stores on self, persists self, and does the same for every partner the
    *getters* resolve (a partner that is not cached yet must still receive the edit)."""
    target = "geoh5py/objects/surveys/electromagnetics/base.py::BaseEMSurvey.metadata.fset"
    props = ("C20",)
    lenient = True

    def cases(self):
        return ["partner-cached", "partner-not-cached-yet", "identifiers-as-text"]

    def setup(self, ctx):
        me = em_self(ctx)
        if ctx.case == "identifiers-as-text":
            import uuid

            # a survey description as kept in a JSON document: identifiers are text, between plain-text entries
            u1, u2 = uuid.UUID(int=11), uuid.UUID(int=12)
            for a in ("receivers", "transmitters", "base_stations", "_receivers", "_transmitters", "_base_stations"):
                me.attrs[a] = None
            em = PDict({"Channels": PList([1.0]), "Input type": "Rx", "Receivers": str(u1), "Survey type": "Airborne TEM", "Transmitters": "{" + str(u2) + "}", "Unit": "Milliseconds (ms)"})
            values = PDict({"EM Dataset": em})
            ctx.env.update(values=values, em=em, ids={"Receivers": u1, "Transmitters": u2})
            return [me, values], {}
        partner = Opaque("partner")
        me.distinct = partner.distinct = True
        ctx.path.assume(~partner.none_var())
        # the public getters resolve the partner from the stored identifiers
        me.attrs["receivers"] = me
        me.attrs["transmitters"] = partner
        me.attrs["base_stations"] = None
        me.attrs["_receivers"] = None
        me.attrs["_transmitters"] = partner if ctx.case == "partner-cached" else None
        me.attrs["_base_stations"] = None
        values = PDict({"EM Dataset": PDict({"Channels": Opaque("channels"), "Input type": Opaque("input")})})
        ctx.env.update(partner=partner, values=values)
        return [me, values], {}

    def post(self, ctx, result):
        e = ctx.env
        if ctx.case == "identifiers-as-text":
            em = e["em"].items
            for key, u in e["ids"].items():
                ctx.oblige(f"identifier-text-{key}-is-stored-as-an-identifier", em.get(key) == u, note=f"{key} stays {em.get(key)!r}: the partner cannot be resolved from it")
            for key, txt in (("Input type", "Rx"), ("Survey type", "Airborne TEM"), ("Unit", "Milliseconds (ms)")):
                ctx.oblige(f"plain-text-{key.replace(' ', '-')}-is-kept", em.get(key) == txt)
            return
        me, partner, values = e["me"], e["partner"], e["values"]
        ev = ctx.path.events
        persisted = [p["entity"] for k, p in ev if k == "persist" and p["group"] == "metadata"]
        ctx.oblige("own-metadata-stored-and-persisted", me.attrs.get("_metadata") is values and any(x is me for x in persisted))
        ctx.oblige("the-edit-reaches-the-partner-in-memory", partner.attrs.get("_metadata") is values)
        ctx.oblige("the-edit-reaches-the-partner-on-file", any(x is partner for x in persisted))

    def post_raises(self, ctx, sig):
        ctx.oblige("valid-metadata-is-not-refused", False, kind="post-exc", note=f"{sig.exc_class.__name__} at {sig.origin}")


class _LinkSet(Contract):
    """link setter: the cached partner is the new one by the time the shared metadata is edited
    (the edit propagates through the partner getter)."""
    props = ("C20",)
    lenient = True
    field = ""
    key = ""
    self_cls = "AirborneTEMReceivers"
    partner_cls = "AirborneTEMTransmitters"

    def setup(self, ctx):
        from geoh5py import objects

        me = em_self(ctx, self.self_cls)
        old = Opaque("old-partner", cls=getattr(objects, self.partner_cls))
        new = Opaque("new-partner", cls=getattr(objects, self.partner_cls))
        new.attrs["uid"] = Opaque("new-partner.uid")
        me.attrs["_" + self.field] = old

        def edit(I, a, kw):
            I.event("edit_em_metadata", entries=a[0], cached=me.attrs.get("_" + self.field))
            return None

        m = Opaque("edit_em_metadata")
        m.maybe_method = edit
        me.attrs["edit_em_metadata"] = m
        ctx.env.update(old=old, new=new)
        return [me, new], {}

    def post(self, ctx, result):
        e = ctx.env
        edits = [p for k, p in ctx.path.events if k == "edit_em_metadata"]
        ctx.oblige("the-link-is-recorded-in-the-shared-metadata", len(edits) == 1 and isinstance(edits[0]["entries"], PDict) and edits[0]["entries"].items.get(self.key) is e["new"].attrs["uid"])
        ctx.oblige("the-cached-partner-is-the-new-one-when-the-metadata-is-propagated", len(edits) == 1 and edits[0]["cached"] is e["new"])
        ctx.oblige("the-getter-returns-the-new-partner-afterwards", e["me"].attrs.get("_" + self.field) is e["new"])


class TransmittersSet(_LinkSet):
    target = "geoh5py/objects/surveys/electromagnetics/base.py::BaseEMSurvey.transmitters.fset"
    field, key = "transmitters", "Transmitters"


class ReceiversSet(_LinkSet):
    target = "geoh5py/objects/surveys/electromagnetics/base.py::BaseEMSurvey.receivers.fset"
    field, key = "receivers", "Receivers"
    self_cls, partner_cls = "AirborneTEMTransmitters", "AirborneTEMReceivers"


class CellCopyStub(Contract):
    """summary of CellObject.copy used by the survey copy: a new entity of the same class (C12)."""
    target = "geoh5py/objects/cell_object.py::CellObject.copy"
    symbolic = False
    props = ()

    def apply(self, I, args, kwargs):
        new = Opaque("new-entity", cls=getattr(args[0], "cls", None))
        new.distinct = True
        em = Opaque("new-entity.edit_em_metadata")
        em.maybe_method = lambda I_, a, kw: I_.event("edit-copy", entries=a[0])
        new.attrs["edit_em_metadata"] = em
        I.event("super-copy", source=args[0], kwargs=dict(kwargs))
        I.ctx.env["new"] = new
        return new


class EMCopy(Contract):
    """Copying one side of a linked survey: the copy receives the shared survey parameters but none
    of the original partner identifiers (receivers, transmitters, base stations); the partner is
    copied as well and linked to the copy, not to the original."""
    target = "geoh5py/objects/surveys/electromagnetics/base.py::BaseEMSurvey.copy"
    props = ("C20", "C12")
    lenient = True
    uses = (CellCopyStub,)

    def cases(self):
        return ["receivers-with-transmitters", "tipper-receivers-with-base-stations", "unlinked"]

    def setup(self, ctx):
        import uuid

        me = em_self(ctx, "TipperReceivers" if ctx.case.startswith("tipper") else "AirborneTEMReceivers")
        ids = {"Receivers": uuid.UUID(int=1)}
        if ctx.case == "receivers-with-transmitters":
            ids["Transmitters"] = uuid.UUID(int=2)
        elif ctx.case.startswith("tipper"):
            ids["Base stations"] = uuid.UUID(int=3)
        # legitimate parameter values include 0.0 and False
        em = {"Channels": PList([1.0, 2.0]), "Input type": "Rx", "Survey type": "Airborne TEM", "Unit": "Milliseconds (ms)", "Loop radius": 1.5,
              "Pitch": 0.0, "Crossline offset": 0.0, "Relative to bearing": False}
        em.update(ids)
        me.attrs["metadata"] = PDict({"EM Dataset": PDict(dict(sorted(em.items())))})
        partner = None
        if ctx.case != "unlinked":
            partner = Opaque("partner")
            partner.distinct = True
            ctx.path.assume(~partner.none_var())
        me.attrs["complement"] = partner
        cc = Opaque("copy_complement")
        cc.maybe_method = lambda I, a, kw: I.event("copy-complement", new_entity=a[0], parent=kw.get("parent"))
        me.attrs["copy_complement"] = cc
        me.attrs["parent"] = Opaque("parent")
        ctx.env.update(ids=ids, partner=partner, em=em)
        return [me], {}

    def post(self, ctx, result):
        e = ctx.env
        new = e.get("new")
        ctx.oblige("returns-the-new-entity", new is not None and result is new)
        forwarded = {}
        for k, p in ctx.path.events:
            if k == "edit-copy":
                ent = p["entries"]
                forwarded.update(ent.items if isinstance(ent, PDict) else dict(ent))
        for key in e["ids"]:
            ctx.oblige(f"the-originals-{key.replace(' ', '-')}-identifier-is-not-forwarded-to-the-copy", key not in forwarded,
                       note=f"the copy is given the original's {key} identifier and stays linked to (or re-links) the original partner")
        for key in ("Channels", "Input type", "Survey type", "Unit", "Loop radius", "Pitch", "Crossline offset", "Relative to bearing"):
            ctx.oblige(f"shared-parameter-{key.replace(' ', '-')}-reaches-the-copy", key in forwarded)
        cc = [p for k, p in ctx.path.events if k == "copy-complement"]
        if e["partner"] is not None:
            ctx.oblige("the-partner-is-copied-and-linked-to-the-copy", len(cc) == 1 and cc[0]["new_entity"] is new)
        else:
            ctx.oblige("nothing-to-link-for-an-unlinked-survey", not cc)


CONTRACTS = [LinkNative, EMMetadataSet, TransmittersSet, ReceiversSet, CellCopyStub, EMCopy]


class AirborneSetMetadata(Contract):
    """AirborneEMSurvey.set_metadata: a survey parameter is either a number or a reference to a data
    channel, never both: assigning one form clears the other (the reader gives the number priority),
    assigning None clears both."""
    target = "geoh5py/objects/surveys/electromagnetics/base.py::AirborneEMSurvey.set_metadata"
    props = ("C20",)
    lenient = True

    def cases(self):
        return [(k, form) for k in ("yaw", "pitch", "inline_offset") for form in ("number", "channel", "cleared")]

    def setup(self, ctx):
        import uuid

        me = em_self(ctx, "AirborneTEMReceivers")
        em = Opaque("edit_em_metadata")
        em.maybe_method = lambda I, a, kw: I.event("edit", entries=a[0])
        me.attrs["edit_em_metadata"] = em
        key, form = ctx.case
        value = {"number": 3.5, "channel": uuid.UUID(int=99), "cleared": None}[form]
        ctx.env.update(value=value)
        return [me, key, value], {}

    def post(self, ctx, result):
        from geoh5py.objects.surveys.electromagnetics.base import AirborneEMSurvey

        key, form = ctx.case
        field = AirborneEMSurvey._PROPERTY_MAP[key]  # pylint: disable=protected-access
        merged = {}
        for k, p in ctx.path.events:
            if k == "edit":
                ent = p["entries"]
                merged.update(ent.items if isinstance(ent, PDict) else dict(ent))
        v = ctx.env["value"]
        want = {field + " value": v if form == "number" else None, field + " property": v if form == "channel" else None}
        for k, w in want.items():
            ctx.oblige(f"{k.split()[-1]}-entry-is-{'set' if w is not None else 'cleared'}", k in merged and merged[k] == w,
                       note=f"'{k}' is {'left as it was' if k not in merged else merged[k]!r}: the other form of the parameter stays visible")


class ElectrodeMetadataStub(Contract):
    """summary of BaseElectrode.metadata.fset for the link setters: the record is stored on the entity
    (its validation and persistence are the metadata setter's own business)."""
    target = "geoh5py/objects/surveys/direct_current.py::BaseElectrode.metadata.fset"
    symbolic = False
    props = ()

    def apply(self, I, args, kwargs):
        ent, values = args[0], args[1]
        ent.attrs["metadata"] = values
        I.event("metadata-set", entity=ent)
        return None


class PotentialLinksCurrent(Contract):
    """PotentialElectrode.current_electrodes = tx: whatever partner either side had cached, both
    entities record both identifiers and cache each other afterwards."""
    target = "geoh5py/objects/surveys/direct_current.py::PotentialElectrode.current_electrodes.fset"
    props = ("C20",)
    lenient = True
    uses = (ElectrodeMetadataStub,)

    def cases(self):
        return ["first-link", "same-partner-cached-but-re-linked-elsewhere", "other-partner-cached"]

    def setup(self, ctx):
        import uuid

        from geoh5py.objects import CurrentElectrode, PotentialElectrode

        me = Opaque("self", cls=PotentialElectrode)
        tx = Opaque("tx", cls=CurrentElectrode)
        other = Opaque("other-tx", cls=CurrentElectrode)
        for o in (me, tx, other):
            o.distinct = True
        me.attrs["uid"], tx.attrs["uid"] = uuid.UUID(int=1), uuid.UUID(int=2)
        me.attrs["_current_electrodes"] = {"first-link": None, "same-partner-cached-but-re-linked-elsewhere": tx, "other-partner-cached": other}[ctx.case]
        tx.attrs["_potential_electrodes"] = None if ctx.case == "first-link" else Opaque("someone-else")
        me.attrs["ab_cell_id"] = None
        tx.attrs["ab_cell_id"] = None
        ctx.env.update(me=me, tx=tx)
        return [me, tx], {}

    def post(self, ctx, result):
        e = ctx.env
        me, tx = e["me"], e["tx"]
        want = {"Current Electrodes": tx.attrs["uid"], "Potential Electrodes": me.attrs["uid"]}
        for who, ent in (("the-potential-electrodes", me), ("the-current-electrodes", tx)):
            md = ent.attrs.get("metadata")
            got = md.items if isinstance(md, PDict) else (dict(md) if isinstance(md, dict) else None)
            ctx.oblige(f"{who}-record-both-identifiers", got == want, note=f"recorded {got}")
        ctx.oblige("both-sides-cache-each-other", me.attrs.get("_current_electrodes") is tx and tx.attrs.get("_potential_electrodes") is me)

    def post_raises(self, ctx, sig):
        ctx.oblige("linking-two-electrode-objects-does-not-raise", False, kind="post-exc", note=f"{sig.exc_class.__name__}")


CONTRACTS = CONTRACTS + [AirborneSetMetadata, ElectrodeMetadataStub, PotentialLinksCurrent]
