"""Contracts for geoh5py/shared/validators.py: each validator raises its error iff its declared
constraint is violated (C15 exactness), and touches nothing (statelessness)."""
from __future__ import annotations

import itertools
import uuid

import z3

from pyvc.contracts import Contract, LoopSpec
from pyvc.core import fresh_name
from pyvc.values import SV, AbsObj, DynV, SDict, SList, dyn_sort, mk, sym, to_z3, zbool

D = dyn_sort


def sym_dyn(name):
    return DynV(z3.Const(fresh_name(name), D()))


class _Val(Contract):
    props = ("C15",)
    has_native = True
    exc = None

    def post_raises(self, ctx, sig):
        ctx.oblige("raises-only-its-own-error", sig.exc_class is self.exc_class(), kind="post-exc")
        ctx.oblige("raises-only-when-constraint-violated", self.violated(ctx), kind="post-exc")

    def post(self, ctx, result):
        ctx.oblige("accepts-only-when-constraint-holds", z3.Not(zbool(self.violated(ctx))))


class OptionalV(_Val):
    target = "geoh5py/shared/validators.py::OptionalValidator.validate"
    bounded_scope = "value in {None, 0, '', 1.5, 'a'} x valid in {True, False} (exhaustive)"

    def exc_class(self):
        from geoh5py.shared.exceptions import OptionalValidationError

        return OptionalValidationError

    def cases(self):
        return ["none", "value"]

    def setup(self, ctx):
        value = None if ctx.case == "none" else sym_dyn("value")
        if value is not None:
            ctx.assume(z3.Not(D().is_none(value.e)))
        valid = sym("valid", "bool")
        ctx.env.update(value=value, valid=valid)
        return [self.owner, sym("name", "str"), value, valid], {}

    def violated(self, ctx):
        return z3.And(ctx.env["value"] is None, z3.Not(ctx.env["valid"].e))

    def native_cases(self, tier, rng):
        for v, ok in itertools.product([None, 0, "", 1.5, "a"], [True, False]):
            yield {"value": v, "valid": ok}

    def native_check(self, case):
        from geoh5py.shared import validators
        from geoh5py.shared.exceptions import OptionalValidationError

        try:
            validators.OptionalValidator.validate("p", case["value"], case["valid"])
            raised = False
        except OptionalValidationError:
            raised = True
        exp = case["value"] is None and not case["valid"]
        return None if raised == exp else f"raised={raised} expected={exp} for {case}"


class RequiredV(OptionalV):
    target = "geoh5py/shared/validators.py::RequiredValidator.validate"

    def exc_class(self):
        from geoh5py.shared.exceptions import RequiredValidationError

        return RequiredValidationError

    def violated(self, ctx):
        return z3.And(ctx.env["value"] is None, ctx.env["valid"].e)

    def native_check(self, case):
        from geoh5py.shared import validators
        from geoh5py.shared.exceptions import RequiredValidationError

        try:
            validators.RequiredValidator.validate("p", case["value"], case["valid"])
            raised = False
        except RequiredValidationError:
            raised = True
        exp = case["value"] is None and case["valid"]
        return None if raised == exp else f"raised={raised} expected={exp} for {case}"


class PropertyGroupV(_Val):
    target = "geoh5py/shared/validators.py::PropertyGroupValidator.validate"
    bounded_scope = "value in {None, group of type A, group of type B} x valid in {A, B} (exhaustive)"

    def exc_class(self):
        from geoh5py.shared.exceptions import PropertyGroupValidationError

        return PropertyGroupValidationError

    def cases(self):
        return ["none", "group"]

    def setup(self, ctx):
        gtype = sym("gtype", "str")
        valid = sym("valid", "str")
        value = None if ctx.case == "none" else AbsObj("pg", {"property_group_type": gtype})
        ctx.env.update(value=value, valid=valid, gtype=gtype)
        return [self.owner, sym("name", "str"), value, valid], {}

    def violated(self, ctx):
        e = ctx.env
        return z3.And(e["value"] is not None, e["gtype"].e != e["valid"].e)

    def native_cases(self, tier, rng):
        for v, ok in itertools.product([None, "Multi-element", "3D vector"], ["Multi-element", "3D vector"]):
            yield {"gtype": v, "valid": ok}

    def native_check(self, case):
        from types import SimpleNamespace

        from geoh5py.shared import validators
        from geoh5py.shared.exceptions import PropertyGroupValidationError

        value = None if case["gtype"] is None else SimpleNamespace(property_group_type=case["gtype"], name="g")
        try:
            validators.PropertyGroupValidator.validate("p", value, case["valid"])
            raised = False
        except PropertyGroupValidationError:
            raised = True
        exp = value is not None and case["gtype"] != case["valid"]
        return None if raised == exp else f"raised={raised} expected={exp} for {case}"


def _values_inv(ctx, st, k):
    e = ctx.env
    i = z3.Int(fresh_name("i"))
    ok = lambda j: z3.Or(D().is_none(e["vals"](j)), e["member"](e["vals"](j)))
    return [("prefix-all-valid", z3.ForAll([i], z3.Implies(z3.And(i >= 0, i < k), ok(i))))]


class ValueV(_Val):
    target = "geoh5py/shared/validators.py::ValueValidator.validate"
    loops = {1: LoopSpec(_values_inv, lambda ctx, st, k: None, "for-val-in-value")}
    bounded_scope = "value in {None, scalars, lists up to length 3 over {None,1,2,'a'}} x valid lists over {1,'a'} (exhaustive)"

    def exc_class(self):
        from geoh5py.shared.exceptions import ValueValidationError

        return ValueValidationError

    def cases(self):
        return ["none", "scalar", "list"]

    def setup(self, ctx):
        n_valid = ctx.int("n_valid", 0)
        vfun = z3.Function(fresh_name("valid"), z3.IntSort(), D())
        valid = SList(n_valid, lambda i: DynV(vfun(to_z3(i, "int"))), "valid")
        q = z3.Int(fresh_name("q"))
        member = lambda t: z3.Exists([q], z3.And(q >= 0, q < n_valid.e, vfun(q) == t))
        if ctx.case == "none":
            value = None
            vals, n = None, 0
        elif ctx.case == "scalar":
            value = sym_dyn("value")
            ctx.assume(z3.Not(D().is_none(value.e)))
            vals, n = (lambda j: value.e), 1
        else:
            n = ctx.int("n", 0)
            f = z3.Function(fresh_name("vals"), z3.IntSort(), D())
            value = SList(n, lambda i: DynV(f(to_z3(i, "int"))), "value")
            vals = lambda j: f(j)
        ctx.env.update(value=value, valid=valid, vals=vals, n=n, member=member)
        return [self.owner, sym("name", "str"), value, valid], {}

    def violated(self, ctx):
        e = ctx.env
        if e["value"] is None:
            return False
        i = z3.Int(fresh_name("i"))
        n = to_z3(e["n"], "int")
        return z3.Exists([i], z3.And(i >= 0, i < n, z3.Not(D().is_none(e["vals"](i))), z3.Not(e["member"](e["vals"](i)))))

    def native_cases(self, tier, rng):
        atoms = [None, 1, 2, "a"]
        values = [None, 1, 2, "a"] + [list(c) for n in range(0, 4) for c in itertools.product(atoms, repeat=n)] + [(1, 2), (2, None)]
        for v, valid in itertools.product(values, [[], [1], [1, "a"], ["a", 2]]):
            yield {"value": v, "valid": valid}

    def native_check(self, case):
        from geoh5py.shared import validators
        from geoh5py.shared.exceptions import ValueValidationError

        value = case["value"]
        try:
            validators.ValueValidator.validate("p", value, case["valid"])
            raised = False
        except ValueValidationError:
            raised = True
        if value is None:
            exp = False
        else:
            items = value if isinstance(value, (list, tuple)) else [value]
            exp = any(v is not None and v not in case["valid"] for v in items)
        return None if raised == exp else f"raised={raised} expected={exp} for {case}"


class AtLeastOneV(_Val):
    target = "geoh5py/shared/validators.py::AtLeastOneValidator.validate"
    bounded_scope = "dicts of up to 3 booleans (exhaustive)"

    def exc_class(self):
        from geoh5py.shared.exceptions import AtLeastOneValidationError

        return AtLeastOneValidationError

    def setup(self, ctx):
        has = z3.Function(fresh_name("has"), z3.IntSort(), z3.BoolSort())
        val = z3.Function(fresh_name("val"), z3.IntSort(), z3.BoolSort())
        d = SDict("str", lambda k: has(to_z3(k)), lambda k: mk(val(to_z3(k)), "bool"), tag="one_of")
        ctx.env.update(has=has, val=val)
        return [self.owner, sym("name", "str"), d, None], {}

    def violated(self, ctx):
        e = ctx.env
        x = z3.Int(fresh_name("x"))
        return z3.Not(z3.Exists([x], z3.And(e["has"](x), e["val"](x))))

    def native_cases(self, tier, rng):
        for n in range(0, 4):
            for combo in itertools.product([True, False], repeat=n):
                yield {"value": {f"k{i}": b for i, b in enumerate(combo)}}

    def native_check(self, case):
        from geoh5py.shared import validators
        from geoh5py.shared.exceptions import AtLeastOneValidationError

        try:
            validators.AtLeastOneValidator.validate("p", case["value"], None)
            raised = False
        except AtLeastOneValidationError:
            raised = True
        exp = not any(case["value"].values())
        return None if raised == exp else f"raised={raised} expected={exp} for {case}"


class _NativeOnly(Contract):
    props = ("C15",)
    symbolic = False
    has_native = True


class TypeV(_NativeOnly):
    target = "geoh5py/shared/validators.py::TypeValidator.validate"
    bounded_scope = "values {None,1,1.5,'a',[1],[1,'a'],(1,2),True,uuid} x valid type lists from {int,float,str,list,bool,type(None),UUID} of length 1-2 (exhaustive)"

    def native_cases(self, tier, rng):
        vals = [None, 1, 1.5, "a", [1], [1, "a"], (1, 2), True, uuid.uuid4(), []]
        types = [int, float, str, list, bool, type(None), uuid.UUID]
        for v in vals:
            for t in types:
                yield {"value": v, "valid": t}
            for t in itertools.combinations(types, 2):
                yield {"value": v, "valid": list(t)}

    def native_check(self, case):
        from geoh5py.shared import validators
        from geoh5py.shared.exceptions import TypeValidationError

        value, valid = case["value"], case["valid"]
        try:
            validators.TypeValidator.validate("p", value, valid)
            raised = False
        except TypeValidationError:
            raised = True
        vl = [valid] if isinstance(valid, type) else list(valid)
        if isinstance(value, (list, tuple)) and not (isinstance(value, list) and list in vl):
            items = list(value)
        else:
            items = [value]
        exp = any(not isinstance(v, tuple(vl)) for v in items)
        return None if raised == exp else f"raised={raised} expected={exp} for value={value!r} valid={vl}"


class UuidV(_NativeOnly):
    target = "geoh5py/shared/validators.py::UUIDValidator.validate"
    bounded_scope = "fixed corpus of 12 strings/values (well-formed, braces, truncated, empty, non-string)"

    def native_cases(self, tier, rng):
        u = uuid.uuid4()
        for v in [str(u), "{" + str(u) + "}", str(u)[:-1], "", "abc", u, None, 3, str(u).upper(), u.hex, "g" * 32, str(u) + "0"]:
            yield {"value": v}

    def native_check(self, case):
        from geoh5py.shared import validators
        from geoh5py.shared.exceptions import UUIDValidationError

        v = case["value"]
        try:
            validators.UUIDValidator.validate("p", v)
            raised = False
        except UUIDValidationError:
            raised = True
        exp = False
        if isinstance(v, str):
            try:
                uuid.UUID(v)
            except ValueError:
                exp = True
        return None if raised == exp else f"raised={raised} expected={exp} for {v!r}"


CONTRACTS = [OptionalV, RequiredV, PropertyGroupV, ValueV, AtLeastOneV, TypeV, UuidV]


class AssociationV(_NativeOnly):
    """AssociationValidator: a value that names an entity or a property group (as an object or by
    identifier) is accepted exactly when it belongs to the referenced parent -- a child of the parent
    object (data, property groups) or, for a group or a workspace, anything below it; values that name
    nothing (None, numbers, text) are not its business."""
    target = "geoh5py/shared/validators.py::AssociationValidator.validate"
    bounded_scope = "two objects with data and a property group each inside a group; value in {None, number, text, own / foreign data, own / foreign property group, own / foreign object; each as entity and as identifier} x valid in {None, parent object, parent group, workspace} (exhaustive); the same for two holes in two drillhole groups (data, property groups and holes as values; creating session and after a re-open)"

    VALUES = ("none", "number", "text", "own-data", "foreign-data", "own-pg", "foreign-pg", "own-object", "foreign-object", "unknown-uid")
    VALIDS = ("none", "object", "group", "workspace")

    def native_cases(self, tier, rng):
        for v in self.VALUES:
            for form in ("entity", "uid"):
                for valid in self.VALIDS:
                    yield {"value": v, "form": form, "valid": valid}
        # holes of a drillhole group (their data are filed in the group's tables): freshly created and after a re-open
        for v in ("own-data", "foreign-data", "own-pg", "foreign-pg", "own-object", "foreign-object"):
            for form in ("entity", "uid"):
                # (the property names the parent object and the workspace; what a drillhole *group* given as parent covers is
                # pinned by tests/drillhole_v4_0_test.py -- its holes only -- and not claimed here)
                for valid in ("object", "workspace"):
                    for session in ("creating", "reopened"):
                        yield {"layout": "drillhole-group", "value": v, "form": form, "valid": valid, "session": session}

    def _holes(self, case):
        import os
        import shutil
        import tempfile

        import numpy as np

        from geoh5py.groups import DrillholeGroup
        from geoh5py.objects import Drillhole
        from geoh5py.shared.exceptions import AssociationValidationError
        from geoh5py.shared.validators import AssociationValidator
        from geoh5py.workspace import Workspace

        d = tempfile.mkdtemp()
        try:
            ws = Workspace.create(os.path.join(d, "h.geoh5"))
            g = DrillholeGroup.create(ws, name="campaign")
            g2 = DrillholeGroup.create(ws, name="elsewhere")
            for grp, hname in ((g, "a"), (g2, "b")):
                h = Drillhole.create(ws, name=hname, parent=grp, collar=[0.0, 0.0, 0.0])
                h.add_data({"d" + hname: {"depth": np.arange(3.0), "values": np.arange(3.0)}})
            # identifiers as a form holds them (a later session has not loaded anything of the holes when it checks them)
            a, b = ws.get_entity("a")[0], ws.get_entity("b")[0]
            ids = {"own-data": a.get_data("da")[0].uid, "foreign-data": b.get_data("db")[0].uid, "own-pg": a.property_groups[0].uid, "foreign-pg": b.property_groups[0].uid, "own-object": a.uid, "foreign-object": b.uid}
            del a, b, h, g, g2
            if case["session"] == "reopened":
                ws.close()
                ws = Workspace(os.path.join(d, "h.geoh5"))
            try:
                g = ws.get_entity("campaign")[0]
                a, b = ws.get_entity("a")[0], ws.get_entity("b")[0]
                if case["form"] == "uid":
                    value = ids[case["value"]]
                else:
                    value = {"own-data": lambda: a.get_data("da")[0], "foreign-data": lambda: b.get_data("db")[0], "own-pg": lambda: a.property_groups[0], "foreign-pg": lambda: b.property_groups[0],
                             "own-object": lambda: a, "foreign-object": lambda: b}[case["value"]]()
                valid = {"object": a, "group": g, "workspace": ws}[case["valid"]]
                if case["valid"] == "workspace":
                    want = True
                elif case["valid"] == "object":
                    want = case["value"] in ("own-data", "own-pg")
                else:
                    want = case["value"] in ("own-data", "own-pg", "own-object")
                try:
                    AssociationValidator.validate("p", value, valid)
                    got = True
                except AssociationValidationError:
                    got = False
                except Exception as exc:
                    return f"AssociationValidator raised {type(exc).__name__}: {exc} for {case}"
                if got != want:
                    return f"{case['value']} of a hole in a drillhole group given as {case['form']} with parent {case['valid']} ({case['session']} session): {'accepted' if got else 'rejected'}, expected {'accepted' if want else 'rejected'} ({case})"
            finally:
                ws.close()
        finally:
            shutil.rmtree(d, ignore_errors=True)
        return None

    def native_check(self, case):
        if case.get("layout") == "drillhole-group":
            return self._holes(case)
        import numpy as np

        from geoh5py.groups import ContainerGroup
        from geoh5py.objects import Points
        from geoh5py.shared.exceptions import AssociationValidationError
        from geoh5py.shared.validators import AssociationValidator
        from geoh5py.workspace import Workspace

        with Workspace() as ws:
            g = ContainerGroup.create(ws, name="g")
            a = Points.create(ws, name="a", vertices=np.zeros((3, 3)), parent=g)
            b = Points.create(ws, name="b", vertices=np.ones((3, 3)))  # outside the group
            da = a.add_data({"da": {"values": np.arange(3.0)}})
            db = b.add_data({"db": {"values": np.arange(3.0)}})
            pga = a.add_data_to_group(da, "pa")
            pgb = b.add_data_to_group(db, "pb")
            ent = {"none": None, "number": 3, "text": "abc", "own-data": da, "foreign-data": db, "own-pg": pga, "foreign-pg": pgb, "own-object": a, "foreign-object": b, "unknown-uid": uuid.uuid4()}[case["value"]]
            value = getattr(ent, "uid", ent) if case["form"] == "uid" else ent
            valid = {"none": None, "object": a, "group": g, "workspace": ws}[case["valid"]]
            names_something = case["value"] not in ("none", "number", "text")
            if not names_something or valid is None:
                want = True
            elif case["value"] == "unknown-uid":
                want = False
            elif case["valid"] == "workspace":
                want = True
            elif case["valid"] == "object":
                want = case["value"] in ("own-data", "own-pg")
            else:  # the group: everything below it
                want = case["value"] in ("own-data", "own-pg", "own-object")
            try:
                AssociationValidator.validate("p", value, valid)
                got = True
            except AssociationValidationError:
                got = False
            except Exception as exc:
                return f"AssociationValidator raised {type(exc).__name__}: {exc} for {case}"
            if got != want:
                return f"{case['value']} given as {case['form']} with parent {case['valid']}: {'accepted' if got else 'rejected'}, expected {'accepted' if want else 'rejected'} ({case})"
        return None


CONTRACTS = CONTRACTS + [AssociationV]


class OneOfVerdict(_NativeOnly):
    """The 'one of' rule: a dictionary is accepted exactly when at least one member of the group is
    provided -- a value is provided when it is not None, whatever its truth value (0, 0.0, False and
    the empty string are values)."""
    target = "geoh5py/ui_json/validation.py::InputValidation.validate_data"
    variant = "one-of-verdict"
    bounded_scope = "two and three parameters under one 'one_of' rule; values in {None, 0, 0.0, False, '', 1.5, 'x', True}^n (exhaustive); through InputValidation.validate_data and through the data setter of an InputFile"

    VALUES = (None, 0, 0.0, False, "", 1.5, "x", True)

    def native_cases(self, tier, rng):
        import itertools

        for n in (2, 3):
            for combo in itertools.product(range(len(self.VALUES)), repeat=n):
                if n == 3 and sum(1 for c in combo if c != 0) > 1 and tier == "quick" and hash(combo) % 4:
                    continue
                yield {"values": list(combo), "through": "validator"}
        for combo in itertools.product(range(len(self.VALUES)), repeat=2):
            yield {"values": list(combo), "through": "input-file"}

    def native_check(self, case):
        from geoh5py.shared.exceptions import AtLeastOneValidationError, BaseValidationError
        from geoh5py.ui_json.validation import InputValidation

        vals = [self.VALUES[i] for i in case["values"]]
        names = [f"p{i}" for i in range(len(vals))]
        want = any(v is not None for v in vals)
        if case["through"] == "validator":
            rules = {n: {"types": [int, float, bool, str, type(None)], "one_of": "the group"} for n in names}
            v = InputValidation(validations=rules)
            try:
                v.validate_data(dict(zip(names, vals)))
                got = True
            except AtLeastOneValidationError:
                got = False
            except BaseValidationError as exc:
                return f"{dict(zip(names, vals))} under a 'one_of' rule: unexpected {type(exc).__name__}: {exc} ({case})"
        else:
            from copy import deepcopy

            from geoh5py.ui_json import InputFile, templates
            from geoh5py.ui_json.constants import default_ui_json
            from geoh5py.workspace import Workspace

            with Workspace() as ws:
                ui = deepcopy(default_ui_json)
                ui["geoh5"] = ws
                for n in names:
                    ui[n] = templates.string_parameter(label=n, value="start", optional="enabled")
                ifile = InputFile(ui_json=ui, validations={n: {"types": [int, float, bool, str, type(None)], "one_of": "the group"} for n in names})
                data = dict(ifile.data)
                data.update(dict(zip(names, vals)))
                try:
                    ifile.data = data
                    got = True
                except AtLeastOneValidationError:
                    got = False
                except BaseValidationError as exc:
                    return None  # refused for another rule of the form (types of a string form): not this rule's verdict
        if got != want:
            return f"{dict(zip(names, vals))} under a 'one_of' rule: {'accepted' if got else 'refused'}, expected {'accepted' if want else 'refused'} (a value is provided when it is not None) ({case})"
        return None


CONTRACTS = CONTRACTS + [OneOfVerdict]
