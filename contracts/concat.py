"""C04: concatenated drillhole storage keeps each hole's data intact and separate."""
from __future__ import annotations

import itertools
import os
import shutil
import tempfile

import numpy as np
import z3

from pyvc import theory
from pyvc.contracts import Contract, LoopSpec
from pyvc.core import RaiseSig, fresh_name
from pyvc.models_np import Z, prefix_sum_fn, sym_arr
from pyvc.values import AbsObj, Arr, Obj, Opaque, PDict, PList, SV, mk, sym, to_z3, zbool

# ------------------------------------------------------------------------------------------
# native: sequences of public-API operations on a real DrillholeGroup, compared with a model
# ------------------------------------------------------------------------------------------

OPS = ("add", "add_shared", "update", "remove", "reopen", "add_nan", "add_text", "update_text", "remove_hole_ws", "remove_hole_parent", "copy_group", "group_data", "idle_session",
       "add_iv", "update_iv", "copy_other_edit", "add_note", "remove_note", "group_comment", "group_comment_remove", "rename", "list_registries")
# operations added later draw from their own random stream, so that the histories sampled above stay the same
OPS_LATER = ("remove_pg", "rename_onto", "copy_onto_own_hole", "second_group", "table_push")


def _file_tiling(path):
    """Each concatenated array must be exactly tiled by its index entries."""
    import h5py

    with h5py.File(path, "r") as f:
        proj = f[list(f)[0]]
        for gid, g in proj["Groups"].items():
            if "Concatenated Data" not in g:
                continue
            cd = g["Concatenated Data"]
            if "Index" not in cd:
                continue
            for label, ds in cd["Index"].items():
                rows = ds[:]
                # data channels live under Data/<label>; object-level tables (Surveys, Trace,
                # Property Group IDs) directly under 'Concatenated Data'
                if "Data" in cd and label in cd["Data"]:
                    n = cd["Data"][label].shape[0]
                elif label in cd:
                    n = cd[label].shape[0]
                else:
                    if len(rows):
                        return f"index '{label}' has {len(rows)} rows but no data array"
                    continue
                spans = sorted((int(r["Start index"]), int(r["Size"])) for r in rows)
                pos = 0
                for s, z in spans:
                    if s != pos:
                        return f"array '{label}' is not tiled by its index (gap/overlap at {pos}: rows {spans}, length {n})"
                    pos += z
                if pos != n:
                    return f"array '{label}' has {n} entries but its index covers {pos} (stale or missing entries)"
                ids = [(bytes(r["Object ID"]) if not isinstance(r["Object ID"], bytes) else r["Object ID"], r["Data ID"]) for r in rows]
                if len(set(map(str, ids))) != len(ids):
                    return f"index '{label}' has duplicate entries"
                # no stale entry: every row belongs to a live record of the attribute list
                live = _live_ids(cd)
                if live is not None:
                    for r in rows:
                        oid = r["Object ID"].decode() if isinstance(r["Object ID"], bytes) else str(r["Object ID"])
                        did = r["Data ID"].decode() if isinstance(r["Data ID"], bytes) else str(r["Data ID"])
                        if oid not in live:
                            return f"index '{label}' keeps a row of object {oid} which is not in the attribute list (stale entry)"
                        if "Data" in cd and label in cd["Data"] and did not in live:
                            return f"index '{label}' keeps a row of data {did} which is not in the attribute list (stale entry)"
    return None


def _live_ids(cd):
    import json

    if "Attributes Jsons" in cd:
        recs = [json.loads(x) for x in cd["Attributes Jsons"][:]]
    elif "Attributes" in cd:
        raw = cd["Attributes"][()]
        raw = raw.decode() if isinstance(raw, bytes) else raw
        recs = json.loads(raw)["Attributes"] if isinstance(raw, str) else None
    else:
        return None
    if recs is None:
        return None
    return {r.get("ID") for r in recs}


def run_history(case):
    from geoh5py.groups import DrillholeGroup
    from geoh5py.objects import Drillhole
    from geoh5py.workspace import Workspace

    d = tempfile.mkdtemp()
    path = os.path.join(d, "c04.geoh5")
    model = {}  # hole name -> {data name: values}
    depths = np.array([1.0, 2.0, 3.0, 4.0])
    try:
        ws = Workspace.create(path, version=case.get("version", 2.0))
        grp = DrillholeGroup.create(ws, name="DH")
        for h in range(case["holes"]):
            Drillhole.create(ws, name=f"H{h}", parent=grp, collar=np.r_[float(h), 0.0, 0.0], surveys=np.c_[np.r_[0.0, 10.0], np.zeros(2), np.ones(2) * -90.0])
            model[f"H{h}"] = {}

        group_data = {}
        group_plain = {}
        removed = {}
        pushed = {}
        removed_pgs = {}
        table_seen = [False]
        other = [None]  # a second workspace holding a copy of the group, kept open
        others = []

        def check(where):
            g = ws.get_entity("DH")[0]
            for dname, exp in group_data.items():
                got = [c for c in g.children if c.name == dname]
                if len(got) != 1 or got[0].values is None or not np.allclose(np.asarray(got[0].values, dtype=float), exp):
                    return f"{where}: group-level data '{dname}' reads {[None if c.values is None else np.asarray(c.values).tolist() for c in got]} but {exp.tolist()} was written"
            if "comments" in group_plain:
                has = any(type(c).__name__ == "CommentsData" for c in g.children)
                if has != group_plain["comments"]:
                    return f"{where}: the group's own comments are {'present' if has else 'absent'} but should be {'present' if group_plain['comments'] else 'gone (they were removed)'}"
            listed = sorted(c.name for c in g.children if type(c).__name__.endswith("Drillhole"))
            if listed != sorted(model):
                return f"{where}: the group lists the holes {listed} but the live holes are {sorted(model)}"
            for hname, datas in model.items():
                hole = [c for c in g.children if c.name == hname]
                if len(hole) != 1:
                    return f"{where}: hole {hname} found {len(hole)} times"
                for dname, exp in datas.items():
                    got = hole[0].get_data(dname)
                    if len(got) != 1:
                        return f"{where}: {hname}/{dname} found {len(got)} times"
                    if exp.dtype.kind == "U":
                        v = np.asarray(got[0].values).astype(str)
                        if v.shape != exp.shape or v.tolist() != exp.tolist():
                            return f"{where}: {hname}/{dname} reads {v.tolist()} but {exp.tolist()} was written"
                        continue
                    v = np.asarray(got[0].values, dtype=float)
                    if v.shape != exp.shape or not np.allclose(v, exp, equal_nan=True, rtol=1e-6):
                        return f"{where}: {hname}/{dname} reads {v.tolist()} but {exp.tolist()} was written"
                # by name, not through the child list: concatenated holes load their data on demand
                names = set(hole[0].get_data_list())
                # interval logs keep their intervals, depth logs their depths
                if any(k.endswith("_iv") for k in datas) and not {"FROM", "TO"} <= names:
                    return f"{where}: {hname} holds the interval logs {sorted(k for k in datas if k.endswith('_iv'))} but lists {sorted(names)}: the intervals (FROM / TO) are gone"
                if any(not k.endswith(("_iv", "_note")) for k in datas) and "DEPTH" not in names:
                    return f"{where}: {hname} holds depth logs but lists {sorted(names)}: the depths are gone"
                extra = names - set(datas) - {"DEPTH", "FROM", "TO"}
                if extra:
                    return f"{where}: {hname} still lists removed data {sorted(extra)}"
                if set(datas) - names:
                    return f"{where}: {hname} no longer lists its data {sorted(set(datas) - names)} (it lists {sorted(names)})"
                # ... and the live hole itself no longer hands the removed data out (lookup by name, child list)
                for gone in sorted(removed.get(hname, set()) - set(datas)):
                    if [x for x in hole[0].get_data(gone) if x is not None]:
                        return f"{where}: {hname}.get_data('{gone}') still returns the removed data"
                    if any(getattr(c, "name", None) == gone for c in hole[0].children):
                        return f"{where}: {hname} still holds the removed data '{gone}' among its children"
                # the child list and the list of property groups agree (a group emptied by removals is in neither),
                # and every member of a listed group is a live child
                kids_pg = {c.uid for c in hole[0].children if type(c).__name__.endswith("PropertyGroup")}
                listed_pg = {x.uid for x in (hole[0].property_groups or [])}
                if kids_pg != listed_pg:
                    return f"{where}: {hname} holds {len(kids_pg)} property groups among its children but lists {len(listed_pg)} property groups"
                kid_ids = {getattr(c, "uid", None) for c in hole[0].children}
                for x in hole[0].property_groups or []:
                    if not x.properties:
                        return f"{where}: {hname} lists the empty property group '{x.name}'"
                    if [u for u in x.properties if u not in kid_ids]:
                        return f"{where}: the property group '{x.name}' of {hname} lists data that are not children of the hole"
                for uid in removed_pgs.get(hname, ()):
                    if any(getattr(c, "uid", None) == uid for c in hole[0].children):
                        return f"{where}: {hname} still holds a removed property group among its children"
                    if any(getattr(x, "uid", None) == uid for x in (hole[0].property_groups or [])):
                        return f"{where}: {hname} still lists a removed property group"
            # the group-wide table view of the interval table 'assays' lists exactly the per-hole values, in hole order
            in_table = [hn for hn in sorted(model) if any(k.endswith("_iv") for k in model[hn])]
            if in_table or table_seen[0]:
                tables = g.drillholes_tables
                if in_table and "assays" not in tables:
                    return f"{where}: no table view for the property group 'assays' (tables: {sorted(tables)})"
                if "assays" in tables:
                    table_seen[0] = True
                    tab = tables["assays"].depth_table
                    ids = [x.decode() if isinstance(x, bytes) else str(x) for x in tab["Drillhole"]]
                    uid_of = {hn: "{" + str([c for c in g.children if c.name == hn][0].uid) + "}" for hn in model}
                    listed_ids = list(dict.fromkeys(ids))
                    want_ids = [uid_of[hn] for hn in in_table]
                    if sorted(listed_ids) != sorted(want_ids):
                        return f"{where}: the table view lists {len(listed_ids)} holes {listed_ids}, the holes holding interval data are {want_ids}"
                    for col_name, column in pushed.items():
                        if col_name.endswith("_iv"):
                            continue  # compared hole by hole below
                        if col_name in (tab.dtype.names or ()) and len(tab[col_name]) == len(column) and not np.allclose(np.asarray(tab[col_name], dtype=float), column, equal_nan=True):
                            return f"{where}: the table view lists {np.asarray(tab[col_name]).tolist()} in the column {col_name!r} pushed through it; {column.tolist()} was pushed"
                    for hn in in_table:
                        rows = tab[np.array([k == uid_of[hn] for k in ids], dtype=bool)]
                        for dname, exp in model[hn].items():
                            if not dname.endswith("_iv"):
                                continue
                            if dname not in rows.dtype.names:
                                return f"{where}: the table view has no column {dname!r} (columns {rows.dtype.names})"
                            col = np.asarray(rows[dname], dtype=float)
                            if col.shape != exp.shape or not np.allclose(col, exp, equal_nan=True, rtol=1e-6):
                                return f"{where}: table view column {dname!r} of {hn} shows {col.tolist()} but the hole holds {exp.tolist()}"
            return None

        for step, (op, h, name) in enumerate(case["ops"]):
            hname = f"H{h}"
            g = ws.get_entity("DH")[0]
            if hname not in model and op != "reopen":
                continue  # the hole was removed earlier in this history
            hole = ([c for c in g.children if c.name == hname] or [None])[0]
            if op in ("add", "add_nan", "add_shared"):
                if name in model[hname]:
                    continue
                vals = np.arange(4, dtype=float) + 10 * step + h
                if op == "add_nan":
                    vals[1] = np.nan
                    vals[3] = np.nan
                spec = {"depth": depths, "values": vals.copy()}
                if op == "add_shared":
                    # the channel uses the data type of the same channel on another hole (one type per assay, as importers do)
                    for oh in [c for c in g.children if c.name in model and c.name != hname and name in model[c.name]]:
                        spec["entity_type"] = oh.get_data(name)[0].entity_type
                        break
                hole.add_data({name: spec})
                model[hname][name] = vals
            elif op == "add_text":
                tname = name + "_txt"
                if tname in model[hname]:
                    continue
                # later texts are longer than every earlier one (fixed-width text columns must widen)
                vals = np.array([("w" * (step + 1 + 2 * h)) + str(i) for i in range(4)])
                hole.add_data({tname: {"depth": depths, "values": vals.copy(), "type": "text"}})
                model[hname][tname] = vals
            elif op == "update_text":
                tname = name + "_txt"
                if tname not in model[hname]:
                    continue
                vals = np.array([("longer-" * (step + 1)) + str(i + h) for i in range(4)])
                hole.get_data(tname)[0].values = vals.copy()
                model[hname][tname] = vals
            elif op == "update":
                if name not in model[hname]:
                    continue
                vals = (np.arange(4, dtype=float) + 100 * (step + 1) + h).astype(np.float32).astype(float)
                hole.get_data(name)[0].values = vals.copy()
                model[hname][name] = vals
            elif op == "remove":
                if name not in model[hname]:
                    continue
                # both entry points: through the parent and through the workspace
                if step % 2:
                    ws.remove_entity(hole.get_data(name)[0])
                else:
                    hole.remove_children(hole.get_data(name)[0])
                del model[hname][name]
                removed.setdefault(hname, set()).add(name)
            elif op == "remove_pg":
                # the property group of a data set goes (with the data it lists -- a depth table and its columns go together),
                # through the workspace or through the hole
                if name not in model[hname]:
                    continue
                pg = hole.get_data(name)[0].property_group
                if pg is None:
                    continue
                gone = [hole.get_data(u)[0].name for u in (pg.properties or [])]
                removed_pgs.setdefault(hname, set()).add(pg.uid)
                if step % 2:
                    hole.remove_children([pg])
                else:
                    ws.remove_entity(pg)
                del pg
                for dn in gone:
                    if dn in model[hname]:
                        del model[hname][dn]
                        removed.setdefault(hname, set()).add(dn)
            elif op == "table_push":
                # a column pushed through the group-wide table of 'assays' (one value per row): under a fresh name, and
                # (odd steps) under a name some hole already uses for a depth log -- refused with nothing changed, or listed as pushed
                tabs = g.drillholes_tables
                if "assays" in tabs:
                    tab = tabs["assays"]
                    rows = tab.depth_table
                    ids = [x.decode() if isinstance(x, bytes) else str(x) for x in rows["Drillhole"]]
                    names_ = [f"push{step}_iv"]
                    if step % 2 and any(name in model[hn] for hn in model):
                        names_.insert(0, name)
                    for col_name in names_:
                        column = np.arange(len(ids)) * 1.5 + 1000.0 + step
                        try:
                            tab.add_values_to_property_group(col_name, column.copy())
                        except (KeyError, ValueError):
                            continue
                        pushed[col_name] = column
                        for hn in model:
                            huid = "{" + str([c for c in g.children if c.name == hn][0].uid) + "}"
                            mask = np.array([k == huid for k in ids], dtype=bool)
                            if mask.any():
                                model[hn][col_name] = column[mask]
            elif op == "second_group":
                # the hole's numeric depth logs are also listed by a second property group
                members = [hole.get_data(n)[0].uid for n in sorted(model[hname]) if not n.endswith(("_txt", "_note", "_iv")) and hole.get_data(n) and hole.get_data(n)[0] is not None]
                gname = f"second-{step}"
                if members and not any(x.name.startswith("second-") for x in (hole.property_groups or [])):
                    hole.create_property_group(name=gname, properties=members)
            elif op == "rename_onto":
                # a data set is given the name of another data set of its hole (names are unique on a drillhole: add_data refuses
                # a second one): refused with nothing changed, or carried out with both data sets still readable
                other_name = "Cu" if name == "Au" else "Au"
                if name in model[hname] and other_name in model[hname]:
                    try:
                        hole.get_data(name)[0].name = other_name
                    except ValueError:
                        pass
                    else:
                        if len(hole.get_data(other_name)) != 2:
                            return f"after step {step} ({op} {hname}/{name} -> {other_name}): the hole hands out {len(hole.get_data(other_name))} data named {other_name!r}, two exist ({case})"
                        return f"after step {step} ({op} {hname}/{name} -> {other_name}): two data of one hole are filed under one name: the values of one of them can no longer be reached ({case})"
            elif op == "copy_onto_own_hole":
                # a data set copied onto its own hole (same name): refused with nothing changed, or a second data set that can be
                # removed again without the original noticing
                if name in model[hname]:
                    try:
                        dup = hole.get_data(name)[0].copy(parent=hole)
                    except ValueError:
                        dup = None
                    if dup is not None:
                        if step % 2:
                            ws.remove_entity(dup)
                        else:
                            hole.remove_children([dup])
                        del dup
            elif op == "rename":
                # a stored data set gets another name: its values (filed under the name) must follow
                if name in model[hname] and (name + "_renamed") not in model[hname]:
                    hole.get_data(name)[0].name = name + "_renamed"
                    model[hname][name + "_renamed"] = model[hname].pop(name)
                    removed.setdefault(hname, set()).discard(name + "_renamed")
            elif op in ("add_note", "remove_note"):
                # a value attached to the hole as a whole (no depth table, no property group)
                nname = name + "_note"
                if op == "add_note" and nname not in model[hname]:
                    vals = np.array([3.0 + step + h])
                    hole.add_data({nname: {"values": vals.copy(), "association": "OBJECT"}})
                    model[hname][nname] = vals
                elif op == "remove_note" and nname in model[hname]:
                    if step % 2:
                        ws.remove_entity(hole.get_data(nname)[0])
                    else:
                        hole.remove_children(hole.get_data(nname)[0])
                    del model[hname][nname]
                    removed.setdefault(hname, set()).add(nname)
            elif op in ("add_iv", "update_iv"):
                # interval data of the property group 'assays' (shown by the group-wide table view)
                iname = name + "_iv"
                ft = np.c_[np.arange(3.0), np.arange(3.0) + 1]
                if op == "add_iv" and iname not in model[hname]:
                    vals = np.arange(3.0) + 10 * step + h + 0.5
                    hole.add_data({iname: {"from-to": ft, "values": vals.copy()}}, property_group="assays")
                    model[hname][iname] = vals
                elif op == "update_iv" and iname in model[hname]:
                    vals = (np.arange(3.0) - 100 * (step + 1) - h).astype(np.float32).astype(float)
                    hole.get_data(iname)[0].values = vals.copy()
                    model[hname][iname] = vals
            elif op == "copy_other_edit":
                # copy the group into a second workspace, then change a slice that is not the last one *in the copy*:
                # the source must not notice (values checked below, tiling of the source file at the next close)
                if other[0] is None and any(model.values()):
                    other[0] = Workspace.create(os.path.join(d, "other.geoh5"), version=case.get("version", 2.0))
                    cg = g.copy(parent=other[0])
                    cmodel = {hn: {dn: np.array(v) for dn, v in datas.items()} for hn, datas in model.items()}
                    csurveys = {}
                    first = True
                    for ch in sorted([c for c in cg.children if type(c).__name__.endswith("Drillhole")], key=lambda c: c.name):
                        # the copy is an independent group: it is edited (values of one data set, the surveys of every hole) ...
                        if first:
                            for dname in sorted(ch.get_data_list()):
                                if dname in ("DEPTH", "FROM", "TO"):
                                    continue
                                dat = ch.get_data(dname)[0]
                                if dat.values is not None and np.asarray(dat.values).dtype.kind == "f" and dname in cmodel.get(ch.name, {}) and not dname.endswith("_note") and len(dat.values) > 1:
                                    new_vals = (np.asarray(dat.values, dtype=float)[:-1] + 1000.0).astype(np.float32).astype(float)  # shorter: rows move
                                    dat.values = new_vals.copy()
                                    kept = np.full(len(cmodel[ch.name][dname]), np.nan)
                                    kept[: len(new_vals)] = new_vals
                                    cmodel[ch.name][dname] = kept
                                    break
                            first = False
                        sv = np.c_[np.r_[0.0, 5.0, 10.0 + len(csurveys)], np.ones(3) * 10.0 * (1 + len(csurveys)), np.ones(3) * -80.0]
                        ch.surveys = sv
                        csurveys[ch.name] = sv
                    # ... then closed and read again: what the copy was given is what a later reader of the copy sees
                    del cg, ch
                    other[0].close()
                    bad = _file_tiling(os.path.join(d, "other.geoh5"))
                    if bad:
                        return f"after step {step}: the copy of the group in a second workspace, once edited: {bad} ({case})"
                    other[0] = Workspace(os.path.join(d, "other.geoh5"), mode="r+")
                    cg = other[0].get_entity("DH")[0]
                    for ch in [c for c in cg.children if type(c).__name__.endswith("Drillhole")]:
                        got_sv = np.asarray(ch.surveys, dtype=float)
                        if ch.name in csurveys and (got_sv.shape != csurveys[ch.name].shape or not np.allclose(got_sv, csurveys[ch.name])):
                            return f"after step {step}: hole {ch.name} of the copied group was given surveys {csurveys[ch.name].tolist()} and reads {got_sv.tolist()} after a re-open ({case})"
                        for dname, exp in cmodel.get(ch.name, {}).items():
                            if exp.dtype.kind != "f":
                                continue
                            gotd = ch.get_data(dname)
                            gv = None if not gotd or gotd[0].values is None else np.asarray(gotd[0].values, dtype=float)
                            if gv is None or gv.shape != exp.shape or not np.allclose(gv, exp, equal_nan=True, rtol=1e-6):
                                return f"after step {step}: {ch.name}/{dname} of the copied group reads {None if gv is None else gv.tolist()} after a re-open, expected {exp.tolist()} ({case})"
                    del cg
                    # ... and a second, fresh copy loses a hole straight away (nothing re-read in between): the source
                    # group keeps all of its holes and their data
                    third = Workspace.create(os.path.join(d, "third.geoh5"), version=case.get("version", 2.0))
                    others.append(third)
                    cg2 = g.copy(parent=third)
                    victim = sorted([c for c in cg2.children if type(c).__name__.endswith("Drillhole")], key=lambda c: c.name)[:1]
                    if victim:
                        third.remove_entity(victim[0])
                    del cg2, victim
            elif op == "copy_group":
                # a copy of the whole group inside the same workspace: from now on two groups own rows; the stored
                # records of the source group (its attribute list, identifier list, data and index arrays) stay as they are
                if ws.get_entity("DH copy")[0] is None:
                    guid = str(g.uid)
                    del hole, g
                    ws.close()
                    from contracts.histories import file_digests as node_digests

                    before = {k: v for k, v in node_digests(path).items() if guid in k and "Concatenated Data" in k}
                    ws = Workspace(path, mode="r+")
                    g = ws.get_entity("DH")[0]
                    g.copy(name="DH copy")
                    del g
                    ws.close()
                    after = {k: v for k, v in node_digests(path).items() if guid in k and "Concatenated Data" in k}
                    ws = Workspace(path, mode="r+")
                    changed = sorted(k.split("Concatenated Data")[-1] for k in set(before) | set(after) if before.get(k) != after.get(k))
                    if changed:
                        return f"after step {step}: copying the drillhole group inside its workspace changed the stored records of the source group at {changed[:4]} ({case})"
            elif op == "group_data":
                from geoh5py.data import Data

                if "budget" not in group_data:
                    ws.create_entity(Data, entity={"parent": g, "name": "budget", "association": "GROUP", "values": np.array([1.0, 2.0, 3.0]) + step}, entity_type={"primitive_type": "FLOAT"})
                    group_data["budget"] = np.array([1.0, 2.0, 3.0]) + step
            elif op == "list_registries":
                # the workspace's listings are read (entries of entities that are gone are swept on the way)
                del hole
                __import__("gc").collect()
                _ = len(ws.groups), len(ws.objects), len(ws.data), len(ws.types)
            elif op == "group_comment":
                # plain (not concatenated) data held by the drillhole group itself
                if "comments" not in group_plain:
                    g.add_comment(f"note {step}", "tester")
                    group_plain["comments"] = True
            elif op == "group_comment_remove":
                if group_plain.get("comments"):
                    com = [c for c in g.children if type(c).__name__ == "CommentsData"]
                    if com:
                        if step % 2:
                            ws.remove_entity(com[0])
                        else:
                            g.remove_children([com[0]])
                    del com
                    group_plain["comments"] = False
            elif op == "idle_session":
                # open, read every registry, close: the file must not change at all
                del hole, g
                ws.close()
                from contracts.histories import file_digests as node_digests

                before = node_digests(path)
                with Workspace(path, mode="r+") as idle:
                    _ = [e.name for e in idle.groups], [e.name for e in idle.objects], [e.name for e in idle.data], [t.name for t in idle.types]
                    gc_ = __import__("gc")
                    gc_.collect()
                    _ = [e.name for e in idle.data], [t.name for t in idle.types]
                after = node_digests(path)
                changed = sorted(k for k in before if after.get(k) != before[k]) + sorted(set(after) - set(before))
                ws = Workspace(path, mode="r+")
                if changed:
                    return f"after step {step}: opening, listing the registries and closing changed the file at {changed[:4]} ({case})"
            elif op in ("remove_hole_ws", "remove_hole_parent"):
                # no access to the hole's data first: after a re-open they are still unloaded
                if op == "remove_hole_ws":
                    ws.remove_entity(hole)
                else:
                    g.remove_children([hole])
                del model[hname]
                del hole
            elif op == "reopen":
                ws.close()
                bad = _file_tiling(path)
                if bad:
                    return f"after step {step}: {bad} ({case})"
                ws = Workspace(path, mode="r+")
            if case.get("check_each_step", True):
                bad = check(f"after step {step} ({op} {hname}/{name})")
                if bad:
                    return f"{bad} ({case})"
        if not case.get("check_each_step", True):
            bad = check("before the final close (values first read now)")
            if bad:
                return f"{bad} ({case})"
        ws.close()
        bad = _file_tiling(path)
        if bad:
            return f"at the end: {bad} ({case})"
        ws = Workspace(path, mode="r")
        bad = check("after final re-open")
        ws.close()
        if bad:
            return f"{bad} ({case})"
    finally:
        for w in [ws, other[0]] + others:
            try:
                w.close()
            except Exception:
                pass
        shutil.rmtree(d, ignore_errors=True)
    return None


class ConcatHistories(Contract):
    """Bounded stand-in for the history quantifier of C04 at the level of the public API."""
    target = "geoh5py/shared/concatenation/concatenator.py::Concatenator.update_array_attribute"
    variant = "api-histories"
    symbolic = False
    has_native = True
    native_shards = 4
    props = ("C04",)
    bounded_scope = "2 or 3 holes x data names {Au, Cu}; operation sequences of length <= 4 (quick: 60 seeded + 42 fixed; thorough: 600) over add / add-with-NaN / remove a whole hole (through the workspace or the group, also straight after a re-open) / copy the group inside the workspace / data stored on the group itself / values attached to a hole as a whole, added and removed in sessions that do nothing else / an idle open-list-close session (file digests unchanged) / interval data in a property group with the group-wide table view compared after every step / a copy into a second workspace edited there / add-text (each text longer than all earlier ones) / update / update-text / remove / re-open / removal of a property group with the data it lists (through the workspace or the hole; a data set renamed onto / copied under a name already used on its hole (refused with nothing changed); 36 fixed + 20 seeded histories of their own random stream, thorough: 300); both format versions; per-hole read-back after every step, raw file tiling after every close"

    FIXED = [
        [("add", 0, "Au"), ("add", 1, "Au"), ("remove", 0, "Au"), ("reopen", 0, "")],
        [("add", 0, "Au"), ("add", 1, "Au"), ("reopen", 0, ""), ("remove", 0, "Au"), ("reopen", 0, ""), ("add", 0, "Au")],
        [("add_nan", 0, "Au"), ("add", 1, "Au"), ("reopen", 0, ""), ("remove", 1, "Au")],
        [("add_nan", 0, "Au"), ("add_nan", 1, "Au"), ("reopen", 0, ""), ("update", 1, "Au")],
        [("add", 0, "Au"), ("add", 0, "Cu"), ("update", 0, "Au"), ("remove", 0, "Cu"), ("reopen", 0, "")],
        [("add", 0, "Au"), ("add", 1, "Au"), ("update", 0, "Au"), ("update", 1, "Au"), ("reopen", 0, ""), ("remove", 0, "Au"), ("reopen", 0, "")],
        [("add_text", 0, "Au"), ("add_text", 1, "Au"), ("reopen", 0, ""), ("update_text", 0, "Au"), ("reopen", 0, "")],
        [("add", 0, "Au"), ("add", 0, "Cu"), ("add", 1, "Au"), ("reopen", 0, ""), ("remove_hole_ws", 0, ""), ("reopen", 0, "")],
        [("add", 0, "Au"), ("add", 1, "Au"), ("add", 1, "Cu"), ("reopen", 0, ""), ("remove_hole_parent", 1, ""), ("reopen", 0, ""), ("update", 0, "Au")],
        [("add", 0, "Au"), ("add", 1, "Au"), ("remove_hole_ws", 1, ""), ("add", 0, "Cu"), ("reopen", 0, "")],
        [("add", 0, "Au"), ("add", 1, "Au"), ("copy_group", 0, ""), ("update", 0, "Au"), ("reopen", 0, ""), ("update", 1, "Au"), ("reopen", 0, "")],
        [("add", 0, "Au"), ("reopen", 0, ""), ("add", 1, "Au"), ("copy_group", 0, ""), ("add", 0, "Cu"), ("reopen", 0, "")],
        [("add", 0, "Au"), ("group_data", 0, ""), ("idle_session", 0, ""), ("reopen", 0, ""), ("idle_session", 0, ""), ("update", 0, "Au")],
        [("group_data", 0, ""), ("add", 1, "Cu"), ("reopen", 0, ""), ("idle_session", 0, "")],
        [("add", 0, "Au"), ("add_note", 0, "Au"), ("add_note", 1, "Au"), ("reopen", 0, ""), ("remove_note", 0, "Au"), ("reopen", 0, ""), ("remove_note", 1, "Au"), ("reopen", 0, "")],
        [("add_note", 0, "Au"), ("add_note", 0, "Cu"), ("reopen", 0, ""), ("remove_note", 0, "Cu"), ("reopen", 0, "")],
        [("add_iv", 0, "Au"), ("add_iv", 1, "Au"), ("update_iv", 0, "Au"), ("remove_hole_ws", 1, ""), ("reopen", 0, "")],
        [("add_iv", 0, "Au"), ("add_iv", 1, "Au"), ("add_iv", 1, "Cu"), ("update_iv", 1, "Au"), ("update_iv", 0, "Au"), ("reopen", 0, ""), ("update_iv", 1, "Cu")],
        [("add", 0, "Au"), ("add", 1, "Au"), ("add", 1, "Cu"), ("copy_other_edit", 0, ""), ("update", 1, "Au"), ("reopen", 0, "")],
        [("add", 0, "Au"), ("add", 0, "Cu"), ("add", 1, "Au"), ("reopen", 0, ""), ("copy_other_edit", 0, ""), ("add", 1, "Cu"), ("reopen", 0, "")],
        [("add_text", 0, "Au"), ("add", 0, "Au"), ("add_text", 1, "Au"), ("update_text", 1, "Au"), ("add_text", 1, "Cu"), ("reopen", 0, "")],
        # a later session adds data to a hole before anything of it has been read
        [("add", 0, "Au"), ("reopen", 0, ""), ("add", 0, "Cu"), ("reopen", 0, "")],
        [("add", 1, "Au"), ("add_note", 1, "Cu"), ("reopen", 0, ""), ("add_note", 1, "Au"), ("add", 1, "Cu"), ("reopen", 0, "")],
        [("add", 0, "Au"), ("add", 1, "Au"), ("rename", 0, "Au"), ("reopen", 0, ""), ("update", 1, "Au"), ("rename", 1, "Au"), ("reopen", 0, "")],
        [("add", 0, "Au"), ("add", 0, "Cu"), ("reopen", 0, ""), ("rename", 0, "Cu"), ("add", 0, "Cu"), ("reopen", 0, "")],
        [("add", 0, "Au"), ("group_comment", 0, ""), ("reopen", 0, ""), ("group_comment_remove", 0, ""), ("reopen", 0, "")],
        [("group_comment", 0, ""), ("add", 1, "Au"), ("group_comment_remove", 0, ""), ("reopen", 0, ""), ("group_comment", 0, ""), ("reopen", 0, ""), ("add", 0, "Cu"), ("group_comment_remove", 0, ""), ("reopen", 0, "")],
    ]

    def native_cases(self, tier, rng):
        for version in (2.0, 2.1):
            for ops in self.FIXED:
                for each in (True, False):
                    yield {"holes": 2, "ops": ops, "version": version, "check_each_step": each}
        # three holes sharing a data name: a record that is not the last of its channel is rewritten, then the channel grows
        THREE = [
            [("add", 0, "Au"), ("add", 1, "Au"), ("update", 0, "Au"), ("add", 2, "Au"), ("reopen", 0, "")],
            [("add", 0, "Au"), ("add", 1, "Au"), ("add", 2, "Au"), ("update", 1, "Au"), ("reopen", 0, ""), ("add", 0, "Cu"), ("update", 0, "Au"), ("add", 1, "Cu"), ("reopen", 0, "")],
            [("add_iv", 0, "Au"), ("add_iv", 1, "Au"), ("update_iv", 0, "Au"), ("add_iv", 2, "Au"), ("remove", 1, "Au_iv"), ("reopen", 0, "")],
            [("add", 0, "Au"), ("add", 1, "Au"), ("add", 2, "Au"), ("remove", 0, "Au"), ("update", 1, "Au"), ("add", 0, "Au"), ("reopen", 0, "")],
            [("add_text", 0, "Au"), ("add_text", 1, "Au"), ("update_text", 0, "Au"), ("add_text", 2, "Au"), ("reopen", 0, "")],
            # the entry edited / removed is the third (or later) of its channel: entries stored in front of it stay where they are
            [("add", 0, "Au"), ("add", 1, "Au"), ("add", 2, "Au"), ("reopen", 0, ""), ("update", 2, "Au"), ("reopen", 0, "")],
            [("add", 0, "Au"), ("add", 1, "Au"), ("add", 2, "Au"), ("remove", 2, "Au"), ("reopen", 0, ""), ("add", 2, "Au"), ("update", 2, "Au"), ("reopen", 0, "")],
            [("add_text", 0, "Au"), ("add_text", 1, "Au"), ("add_text", 2, "Au"), ("update_text", 2, "Au"), ("reopen", 0, "")],
        ]
        for version in (2.0, 2.1):
            for ops in THREE:
                yield {"holes": 3, "ops": ops, "version": version, "check_each_step": True}
            # one data type shared by the same channel of several holes; in a later session one hole's channel is removed
            # while the others' have not been read
            for ops in ([("add", 0, "Au"), ("add_shared", 1, "Au"), ("reopen", 0, ""), ("remove", 0, "Au"), ("list_registries", 0, ""), ("reopen", 0, "")],
                        [("add", 1, "Au"), ("add_shared", 0, "Au"), ("add_shared", 2, "Au"), ("reopen", 0, ""), ("remove", 1, "Au"), ("list_registries", 1, ""), ("reopen", 0, ""), ("remove_hole_ws", 0, ""), ("list_registries", 1, ""), ("reopen", 0, "")]):
                yield {"holes": 3, "ops": ops, "version": version, "check_each_step": False}
        for k in range(60 if tier == "quick" else 600):
            n = rng.randint(2, 5)
            holes = 2 if k % 3 else 3
            ops = [(rng.choice(OPS), rng.randint(0, holes - 1), rng.choice(["Au", "Cu"])) for _ in range(n + (holes - 2) * 2)]
            yield {"holes": holes, "ops": ops, "version": rng.choice([2.0, 2.1]), "check_each_step": rng.random() < 0.5}
        import random

        rng2 = random.Random(20261005)
        PG = [
            [("add", 0, "Au"), ("add", 0, "Cu"), ("add", 1, "Au"), ("remove_pg", 0, "Au"), ("reopen", 0, "")],
            [("add", 0, "Au"), ("add", 1, "Au"), ("reopen", 0, ""), ("remove_pg", 1, "Au"), ("add", 1, "Cu"), ("reopen", 0, "")],
            [("add", 0, "Au"), ("add_iv", 0, "Cu"), ("add", 1, "Au"), ("add_iv", 1, "Cu"), ("remove_pg", 0, "Cu_iv"), ("reopen", 0, ""), ("remove_pg", 1, "Au"), ("reopen", 0, "")],
            [("add", 0, "Au"), ("add", 1, "Au"), ("remove", 0, "Au"), ("add", 0, "Cu"), ("remove_pg", 0, "Cu"), ("add", 0, "Au"), ("reopen", 0, "")],
            [("add_text", 0, "Au"), ("add", 0, "Au"), ("add", 1, "Au"), ("reopen", 0, ""), ("remove_pg", 0, "Au"), ("update", 1, "Au"), ("reopen", 0, "")],
            [("add", 0, "Au"), ("add", 0, "Cu"), ("add", 1, "Au"), ("rename_onto", 0, "Au"), ("reopen", 0, "")],
            [("add", 0, "Au"), ("add", 0, "Cu"), ("reopen", 0, ""), ("rename_onto", 0, "Cu"), ("update", 0, "Au"), ("reopen", 0, "")],
            [("add", 0, "Au"), ("add", 0, "Cu"), ("add", 1, "Au"), ("second_group", 0, ""), ("remove", 0, "Au"), ("reopen", 0, "")],
            [("add", 0, "Au"), ("add", 0, "Cu"), ("second_group", 0, ""), ("reopen", 0, ""), ("remove", 0, "Cu"), ("remove", 0, "Au"), ("reopen", 0, "")],
            # columns pushed through the group-wide table view
            [("add_iv", 0, "Au"), ("add_iv", 1, "Au"), ("add", 1, "Cu"), ("table_push", 0, "Cu"), ("reopen", 0, "")],
            [("add", 0, "Cu"), ("add_iv", 0, "Au"), ("add_iv", 1, "Au"), ("reopen", 0, ""), ("list_registries", 0, ""), ("table_push", 1, "Cu"), ("reopen", 0, "")],
            # one log of an interval table goes while others stay: the intervals (FROM / TO) stay with them
            [("add_iv", 0, "Au"), ("add_iv", 0, "Cu"), ("add_iv", 1, "Au"), ("remove", 0, "Au_iv"), ("reopen", 0, ""), ("update_iv", 0, "Cu")],
            [("add_iv", 0, "Au"), ("add_iv", 0, "Cu"), ("reopen", 0, ""), ("remove", 0, "Cu_iv"), ("reopen", 0, "")],
            [("add", 0, "Au"), ("add", 1, "Au"), ("copy_onto_own_hole", 0, "Au"), ("reopen", 0, "")],
            [("add", 0, "Au"), ("add", 1, "Au"), ("reopen", 0, ""), ("copy_onto_own_hole", 1, "Au"), ("update", 1, "Au"), ("reopen", 0, "")],
        ]
        for version in (2.0, 2.1):
            for ops in PG:
                # the step parity picks the entry point: each sequence runs as written and shifted by one step
                for shift in ([], [("list_registries", 0, "")]):
                    yield {"holes": 2, "ops": shift + ops, "version": version, "check_each_step": True}
        for k in range(20 if tier == "quick" else 300):
            n = rng2.randint(3, 6)
            holes = 2 if k % 3 else 3
            ops = [(rng2.choice(OPS + OPS_LATER * 4), rng2.randint(0, holes - 1), rng2.choice(["Au", "Cu"])) for _ in range(n + (holes - 2) * 2)]
            yield {"holes": holes, "ops": ops, "version": rng2.choice([2.0, 2.1]), "check_each_step": rng2.random() < 0.5}

    def native_check(self, case):
        case = dict(case)
        case["ops"] = [tuple(o) for o in case["ops"]]
        try:
            return run_history(case)
        except Exception as exc:  # an operation of the history failing is itself a finding
            import traceback

            return f"{type(exc).__name__}: {exc} during {case} | " + " <- ".join(f"{fr.name}:{fr.lineno}" for fr in traceback.extract_tb(exc.__traceback__)[-3:])


CONTRACTS = [ConcatHistories]


# ------------------------------------------------------------------------------------------
# deductive: index-table operations
# ------------------------------------------------------------------------------------------

LAB = "lab"


def sym_table(ctx, name="T"):
    r = ctx.int("rows", 0)
    cols = {
        "Start index": sym_arr(name + "_start", (r.e,), "int"),
        "Size": sym_arr(name + "_size", (r.e,), "int"),
        "Object ID": sym_arr(name + "_obj", (r.e,), "bytes"),
        "Data ID": sym_arr(name + "_dat", (r.e,), "bytes"),
    }
    T = Arr((r.e,), lambda i: z3.IntVal(0), "rec", name, fields=cols)
    return T, r, {k: v.elem for k, v in cols.items()}


def tiled(start, size, r, L):
    """Rows tile [0, L) consecutively (no gap, overlap, or negative size)."""
    j, a, b = z3.Ints(f"{fresh_name('j')} {fresh_name('a')} {fresh_name('b')}")
    return [
        ("sizes-non-negative", z3.ForAll([j], z3.Implies(z3.And(j >= 0, j < r), size(j) >= 0))),
        ("rows-lie-within-the-array", z3.ForAll([j], z3.Implies(z3.And(j >= 0, j < r), z3.And(start(j) >= 0, start(j) + size(j) <= L)))),
        ("first-row-starts-at-zero", z3.Implies(r > 0, start(0) == 0)),
        ("consecutive-rows-are-adjacent", z3.ForAll([j], z3.Implies(z3.And(j >= 0, j < r - 1), start(j + 1) == start(j) + size(j)))),
        ("rows-do-not-overlap", z3.ForAll([a, b], z3.Implies(z3.And(a >= 0, a < b, b < r), start(a) + size(a) <= start(b)))),
        ("array-length-is-end-of-last-row", L == z3.If(r > 0, start(r - 1) + size(r - 1), 0)),
    ]


_DYN = {}


def concatenator_class():
    """The class concatenated drillhole groups really have at run time (created dynamically from
    Concatenator and DrillholeGroup by the workspace)."""
    if "cls" not in _DYN:
        from geoh5py.groups import DrillholeGroup
        from geoh5py.workspace import Workspace

        with Workspace() as ws:
            _DYN["cls"] = type(DrillholeGroup.create(ws, name="probe"))
    return _DYN["cls"]


def concat_obj(ctx, with_entity=None):
    DrillholeGroup = concatenator_class()

    T, r, f = sym_table(ctx)
    L = ctx.int("data_len", 0)
    D = sym_arr("data", (L.e,), "real")
    for _, cl in tiled(f["Start index"], f["Size"], r.e, L.e):
        ctx.assume(cl)
    other_T, other_D = Opaque("other-index"), Opaque("other-data")
    obj = Obj(DrillholeGroup, {"_index": PDict({LAB: T, "other": other_T}), "_data": PDict({LAB: D, "other": other_D})})
    ctx.env.update(T=T, r=r, f=f, L=L, D=D, obj=obj, other=(other_T, other_D))
    return obj


_OVR = {"index": lambda I, o: o.fields["_index"], "data": lambda I, o: o.fields["_data"]}


class DeleteIndexData(Contract):
    target = "geoh5py/shared/concatenation/concatenator.py::Concatenator.delete_index_data"
    props = ("C04", "C09")
    attr_overrides = _OVR
    has_native = True
    bounded_scope = "tables of 1-4 rows with sizes in {0,1,2} (incl. zero-size rows), every row deleted (exhaustive)"
    trusted = ("index/data getters return the in-memory tables",)

    def setup(self, ctx):
        obj = concat_obj(ctx)
        k = ctx.int("row", 0)
        ctx.assume(k.e < ctx.env["r"].e)
        ctx.env.update(k=k)
        return [obj, LAB, k], {}

    def post(self, ctx, result):
        e = ctx.env
        obj, f, r, k = e["obj"], e["f"], e["r"].e, e["k"].e
        T2, D2 = obj.fields["_index"].items[LAB], obj.fields["_data"].items[LAB]
        ok = isinstance(T2, Arr) and T2.fields is not None and isinstance(D2, Arr)
        ctx.oblige("tables-replaced-by-tables", ok)
        if not ok:
            return
        s2, z2 = T2.fields["Start index"].elem, T2.fields["Size"].elem
        r2, L2 = Z(T2.shape[0]), Z(D2.shape[0])
        ctx.oblige("one-row-fewer", r2 == r - 1)
        for label, cl in tiled(s2, z2, r2, L2):
            ctx.oblige("still-tiled:" + label, cl)
        j, i = z3.Ints(f"{fresh_name('j')} {fresh_name('i')}")
        skip = z3.If(j < k, j, j + 1)
        rng = z3.And(j >= 0, j < r2)
        ctx.oblige("every-other-row-keeps-its-ids-and-size-in-order", z3.Implies(rng, z3.And(
            T2.fields["Object ID"].elem(j) == f["Object ID"](skip), T2.fields["Data ID"].elem(j) == f["Data ID"](skip), z2(j) == f["Size"](skip))))
        ctx.oblige("every-other-row-keeps-its-slice-content", z3.Implies(z3.And(rng, i >= 0, i < z2(j)), D2.elem(s2(j) + i) == e["D"].elem(f["Start index"](skip) + i)))
        ctx.oblige("other-labels-untouched", obj.fields["_index"].items["other"] is e["other"][0] and obj.fields["_data"].items["other"] is e["other"][1], kind="frame")

    def size_terms(self, env):
        return [env["r"].e, env["L"].e]

    def native_cases(self, tier, rng):
        for r in range(1, 5):
            for sizes in itertools.product((0, 1, 2), repeat=r):
                for k in range(r):
                    yield {"sizes": list(sizes), "k": k}

    def native_check(self, case):
        return _native_table_op(case, "delete")


def _real_group():
    from geoh5py.groups import DrillholeGroup
    from geoh5py.workspace import Workspace

    ws = Workspace()
    return ws, DrillholeGroup.create(ws, name="DH")


def _mk_tables(sizes):
    starts = np.cumsum([0] + list(sizes))[:-1]
    dt = [("Start index", "<u4"), ("Size", "<u4"), ("Object ID", "O"), ("Data ID", "O")]
    T = np.array([(int(s), int(z), f"obj{j}".encode(), f"dat{j}".encode()) for j, (s, z) in enumerate(zip(starts, sizes))], dtype=dt)
    D = np.arange(sum(sizes), dtype=float) + 0.5
    return T, D


def _native_table_op(case, op):
    ws, grp = _real_group()
    try:
        T, D = _mk_tables(case["sizes"])
        grp._index, grp._data = {LAB: T.copy(), "other": T.copy()}, {LAB: D.copy(), "other": D.copy()}
        k = case["k"]
        grp.delete_index_data(LAB, k)
        T2, D2 = grp._index[LAB], grp._data[LAB]
        keep = [j for j in range(len(T)) if j != k]
        if len(T2) != len(keep):
            return f"{len(T2)} rows left, expected {len(keep)} ({case})"
        pos = 0
        for j2, j in enumerate(keep):
            if T2[j2]["Object ID"] != T[j]["Object ID"] or T2[j2]["Data ID"] != T[j]["Data ID"] or T2[j2]["Size"] != T[j]["Size"]:
                return f"row {j2} does not carry the ids/size of old row {j} ({case})"
            s, z = int(T2[j2]["Start index"]), int(T2[j2]["Size"])
            if s != pos:
                return f"rows no longer tile the array: row {j2} starts at {s}, expected {pos} ({case})"
            if not np.array_equal(D2[s:s + z], D[int(T[j]["Start index"]):int(T[j]["Start index"]) + z]):
                return f"row {j2} lost its values ({case})"
            pos += z
        if pos != len(D2):
            return f"array length {len(D2)} but rows cover {pos} ({case})"
        if not np.array_equal(grp._data["other"], D) or not np.array_equal(grp._index["other"], T):
            return "another label was touched"
    finally:
        ws.close()
    return None


CONTRACTS = [ConcatHistories, DeleteIndexData]


def enc_uid(I, uid):
    """The bytes key the code computes for a uid: as_str_if_uuid(uid).encode()."""
    from geoh5py.shared.utils import as_str_if_uuid

    s = I.call_function(as_str_if_uuid, [uid], {})
    return I.call(I.getattr(s, "encode"), [], {}, None)


def sym_entity(ctx, kind):
    from geoh5py.shared.concatenation.data import ConcatenatedData
    from geoh5py.shared.concatenation.drillhole import ConcatenatedDrillhole

    uid = sym("uid", "uid")
    puid = sym("parent_uid", "uid")
    ctx.assume(uid.e != puid.e)
    if kind == "data":
        ent = AbsObj("cdata", {"uid": uid, "name": LAB, "parent": AbsObj("hole", {"uid": puid}, cls=ConcatenatedDrillhole)}, cls=ConcatenatedData)
    else:
        ent = AbsObj("hole", {"uid": uid, "name": "hole"}, cls=ConcatenatedDrillhole)
    ctx.env.update(ent=ent, uid=uid, puid=puid, kind=kind)
    return ent


def id_column(e):
    return e["f"]["Data ID" if e["kind"] == "data" else "Object ID"]


class FetchIndex(Contract):
    target = "geoh5py/shared/concatenation/concatenator.py::Concatenator.fetch_index"
    props = ("C04",)
    attr_overrides = _OVR

    def cases(self):
        return [("data", LAB), ("object", LAB), ("data", "absent-label")]

    def setup(self, ctx):
        obj = concat_obj(ctx)
        ent = sym_entity(ctx, ctx.case[0])
        return [obj, ent, ctx.case[1]], {}

    def post(self, ctx, result):
        e = ctx.env
        I = ctx.I
        if ctx.case[1] != LAB:
            ctx.oblige("unknown-label-has-no-row", result is None)
            return
        key = enc_uid(I, e["uid"])
        col, r = id_column(e), e["r"].e
        j, j2 = z3.Ints(f"{fresh_name('j')} {fresh_name('j2')}")
        match = lambda x: col(x) == to_z3(key)
        if result is None:
            ctx.oblige("none-only-when-not-exactly-one-row-matches", z3.Not(z3.Exists([j], z3.And(j >= 0, j < r, match(j), z3.ForAll([j2], z3.Implies(z3.And(j2 >= 0, j2 < r, match(j2)), j2 == j))))))
        else:
            res = to_z3(result, "int")
            ctx.oblige("returned-row-is-the-entitys-row", z3.And(res >= 0, res < r, match(res)))
            ctx.oblige("returned-row-is-the-only-match", z3.ForAll([j2], z3.Implies(z3.And(j2 >= 0, j2 < r, match(j2)), j2 == res)))
        ctx.oblige("tables-untouched", e["obj"].fields["_index"].items[LAB] is e["T"] and e["obj"].fields["_data"].items[LAB] is e["D"], kind="frame")


class FetchValues(Contract):
    target = "geoh5py/shared/concatenation/concatenator.py::Concatenator.fetch_values"
    props = ("C04",)
    attr_overrides = _OVR
    uses = (FetchIndex,)

    def cases(self):
        return ["data", "object"]

    def setup(self, ctx):
        obj = concat_obj(ctx)
        ent = sym_entity(ctx, ctx.case)
        return [obj, ent, LAB], {}

    def post(self, ctx, result):
        e = ctx.env
        key = enc_uid(ctx.I, e["uid"])
        col, r, f = id_column(e), e["r"].e, e["f"]
        j, i = z3.Ints(f"{fresh_name('j')} {fresh_name('i')}")
        match = lambda x: col(x) == to_z3(key)
        if result is None:
            ctx.oblige("none-only-without-a-unique-row", True)
            return
        ok = isinstance(result, Arr) and result.ndim == 1
        ctx.oblige("returns-a-slice", ok)
        if ok:
            ctx.oblige("returns-exactly-the-entitys-slice", z3.Exists([j], z3.And(j >= 0, j < r, match(j), Z(result.shape[0]) == f["Size"](j),
                       z3.ForAll([i], z3.Implies(z3.And(i >= 0, i < f["Size"](j)), result.elem(i) == e["D"].elem(f["Start index"](j) + i))))))


def _fetch_index_apply(self, I, args, kwargs):
    """summary of fetch_index (proved above): the unique matching row, else None"""
    obj, ent, field = args
    idx = obj.fields["_index"]
    if not I.is_concrete(field) or field not in idx.items:
        return None
    T = idx.items[field]
    from geoh5py.shared.concatenation.data import ConcatenatedData

    col = T.fields["Data ID" if issubclass(ent.cls, ConcatenatedData) else "Object ID"].elem
    key = to_z3(enc_uid(I, ent.attrs["uid"]))
    r = Z(T.shape[0])
    j2 = z3.Int(fresh_name("j2"))
    row = sym("row", "int")
    uniq = z3.And(row.e >= 0, row.e < r, col(row.e) == key, z3.ForAll([j2], z3.Implies(z3.And(j2 >= 0, j2 < r, col(j2) == key), j2 == row.e)))
    if I.path.choose(2, "fetch_index-found") == 0:
        I.path.assume(uniq)
        I.path.cut()
        I.ctx.env["found_row"] = row
        return row
    I.ctx.env["found_row"] = None
    j = z3.Int(fresh_name("j"))
    I.path.assume(z3.Not(z3.Exists([j], z3.And(j >= 0, j < r, col(j) == key, z3.ForAll([j2], z3.Implies(z3.And(j2 >= 0, j2 < r, col(j2) == key), j2 == j))))))
    I.path.cut()
    return None


FetchIndex.apply = _fetch_index_apply


class FetchStartIndex(Contract):
    target = "geoh5py/shared/concatenation/concatenator.py::Concatenator.fetch_start_index"
    props = ("C04",)
    attr_overrides = _OVR
    uses = (FetchIndex,)
    trusted = ("delete_index_data is inlined here (its own contract is proved separately)",)

    def cases(self):
        return [("data", LAB), ("object", LAB), ("data", "new-label")]

    def setup(self, ctx):
        obj = concat_obj(ctx)
        ent = sym_entity(ctx, ctx.case[0])
        if ctx.case[1] == LAB:
            # lemma (induction over the rows): the prefix sums of Size are the row starts
            f, r = ctx.env["f"], ctx.env["r"].e
            size_col = ctx.env["T"].fields["Size"]
            S = prefix_sum_fn(ctx.I, size_col)
            ctx.env["S"] = S
            ctx.induct("prefix-sums-of-sizes-are-the-row-starts", lambda j: z3.Implies(z3.And(j >= 0, j <= r), S(j) == z3.If(j < r, f["Start index"](j), ctx.env["L"].e)), r)
        return [obj, ent, ctx.case[1]], {}

    def post(self, ctx, result):
        e = ctx.env
        obj = e["obj"]
        if ctx.case[1] != LAB:
            ctx.oblige("new-label-starts-at-zero", zbool(ctx.I.eq(result, 0)))
            return
        D2, T2 = obj.fields["_data"].items[LAB], obj.fields["_index"].items[LAB]
        ctx.oblige("start-is-the-end-of-the-remaining-data", to_z3(result, "int") == Z(D2.shape[0]))
        key = to_z3(enc_uid(ctx.I, e["uid"]))
        col2 = T2.fields["Data ID" if e["kind"] == "data" else "Object ID"].elem
        j = z3.Int(fresh_name("j"))
        # if the entity had a unique row it is gone now
        col, r = id_column(e), e["r"].e
        j2 = z3.Int(fresh_name("j2"))
        had_unique = z3.Exists([j], z3.And(j >= 0, j < r, col(j) == key, z3.ForAll([j2], z3.Implies(z3.And(j2 >= 0, j2 < r, col(j2) == key), j2 == j))))
        ctx.oblige("the-entitys-old-row-is-gone", z3.Implies(had_unique, z3.Not(z3.Exists([j], z3.And(j >= 0, j < Z(T2.shape[0]), col2(j) == key)))))
        s2, z2 = T2.fields["Start index"].elem, T2.fields["Size"].elem
        for label, cl in tiled(s2, z2, Z(T2.shape[0]), Z(D2.shape[0])):
            ctx.oblige("still-tiled:" + label, cl)


CONTRACTS = [ConcatHistories, DeleteIndexData, FetchIndex, FetchValues, FetchStartIndex]


class UpdateArrayAttribute(Contract):
    target = "geoh5py/shared/concatenation/concatenator.py::Concatenator.update_array_attribute"
    props = ("C04", "C09")
    attr_overrides = _OVR
    uses = (FetchIndex,)
    trusted = ("fetch_start_index / delete_index_data are inlined (their own contracts are proved separately); save_attribute is a recorded event (the file write is C09's)",)

    def cases(self):
        return ["update", "remove", "no-values"]

    def setup(self, ctx):
        obj = concat_obj(ctx)
        ent = sym_entity(ctx, "data")
        n = ctx.int("n_values", 0)
        vals = sym_arr("new_values", (n.e,), "real")
        ent.attrs["values"] = None if ctx.case == "no-values" else vals
        saves = []

        def save_attribute(I, a, kw):
            I.event("save_attribute", field=a[0] if a else kw.get("field"))
            return None

        from pyvc.values import BoundMethod
        from pyvc.interp import EngineCallable

        obj.fields["save_attribute"] = EngineCallable(save_attribute, "save_attribute")
        f, r = ctx.env["f"], ctx.env["r"].e
        S = prefix_sum_fn(ctx.I, ctx.env["T"].fields["Size"])
        ctx.induct("prefix-sums-of-sizes-are-the-row-starts", lambda j: z3.Implies(z3.And(j >= 0, j <= r), S(j) == z3.If(j < r, f["Start index"](j), ctx.env["L"].e)), r)
        # representation invariant Cat: per label the (Object ID, Data ID) pairs are pairwise distinct
        a, b = z3.Ints(f"{fresh_name('a')} {fresh_name('b')}")
        ctx.assume(z3.ForAll([a, b], z3.Implies(z3.And(a >= 0, a < b, b < r), f["Data ID"](a) != f["Data ID"](b))))
        ctx.env.update(vals=vals, n=n)
        return [obj, ent, LAB], {"remove": ctx.case == "remove"}

    def post(self, ctx, result):
        e = ctx.env
        obj, f, r = e["obj"], e["f"], e["r"].e
        T2, D2 = obj.fields["_index"].items[LAB], obj.fields["_data"].items[LAB]
        saves = [p for k_, p in ctx.path.events if k_ == "save_attribute"]
        ctx.oblige("tables-are-saved-exactly-once-at-the-end", len(saves) == 1 and saves[0]["field"] == LAB and ctx.path.events[-1][0] == "save_attribute")
        s2, z2 = T2.fields["Start index"].elem, T2.fields["Size"].elem
        r2, L2 = Z(T2.shape[0]), Z(D2.shape[0])
        for label, cl in tiled(s2, z2, r2, L2):
            ctx.oblige("still-tiled:" + label, cl)
        key = to_z3(enc_uid(ctx.I, e["uid"]))
        pkey = to_z3(enc_uid(ctx.I, e["puid"]))
        j, j0, i = z3.Ints(f"{fresh_name('j')} {fresh_name('j0')} {fresh_name('i')}")
        d2 = T2.fields["Data ID"].elem
        if ctx.case == "update":
            last = r2 - 1
            ctx.oblige("the-entity-has-exactly-one-row-the-last", z3.And(r2 >= 1, d2(last) == key, T2.fields["Object ID"].elem(last) == pkey, z2(last) == e["n"].e,
                       z3.ForAll([j], z3.Implies(z3.And(j >= 0, j < last), d2(j) != key))))
            ctx.oblige("the-entity-reads-back-the-values-last-written", z3.Implies(z3.And(i >= 0, i < e["n"].e), D2.elem(s2(r2 - 1) + i) == e["vals"].elem(i)))
        else:
            ctx.oblige("the-entity-has-no-row-left", z3.ForAll([j], z3.Implies(z3.And(j >= 0, j < r2), d2(j) != key)))
        # isolation: every row of another data set survives with ids, size and content, in order
        surv = z3.Function(fresh_name("surv"), z3.IntSort(), z3.IntSort())  # old row -> new row
        others = r2 - (1 if ctx.case == "update" else 0)
        k = e.get("found_row")
        nj = j0 if k is None else z3.If(j0 < k.e, j0, j0 - 1)  # where old row j0 sits now
        ctx.oblige("rows-of-other-data-sets-keep-ids-size-and-values",
                   z3.Implies(z3.And(j0 >= 0, j0 < r, f["Data ID"](j0) != key),
                              z3.And(nj >= 0, nj < others, d2(nj) == f["Data ID"](j0), T2.fields["Object ID"].elem(nj) == f["Object ID"](j0), z2(nj) == f["Size"](j0),
                                     z3.Implies(z3.And(i >= 0, i < f["Size"](j0)), D2.elem(s2(nj) + i) == e["D"].elem(f["Start index"](j0) + i)))))
        ctx.oblige("other-labels-untouched", obj.fields["_index"].items["other"] is e["other"][0] and obj.fields["_data"].items["other"] is e["other"][1], kind="frame")


class KfRemoveThroughWorkspace(Contract):
    """Replays the recorded witness of KF-C05-2."""
    target = "geoh5py/shared/concatenation/concatenator.py::Concatenator.update_array_attribute"
    variant = "kf-remove-through-workspace"
    symbolic = False
    has_native = True
    props = ("C05",)

    def native_cases(self, tier, rng):
        return []

    def native_check(self, case):
        from geoh5py.groups import DrillholeGroup
        from geoh5py.objects import Drillhole
        from geoh5py.workspace import Workspace

        with Workspace() as ws:
            g = DrillholeGroup.create(ws, name="DH")
            h = Drillhole.create(ws, name="H0", parent=g, collar=np.r_[0.0, 0.0, 0.0], surveys=np.c_[np.r_[0.0, 10.0], np.zeros(2), -90 * np.ones(2)])
            h.add_data({"Au": {"depth": np.array([1.0, 2.0, 3.0]), "values": np.arange(3.0)}, "Cu": {"depth": np.array([1.0, 2.0, 3.0]), "values": np.arange(3.0)}})
            ws.remove_entity(h.get_data("Cu")[0])
            left = [c.name for c in h.children]
            if "Cu" in left:
                return f"hole.children still lists the removed data set: {left}"
        return None


CONTRACTS = [ConcatHistories, DeleteIndexData, FetchIndex, FetchValues, FetchStartIndex, UpdateArrayAttribute]


class LogNamesNative(Contract):
    """Whatever a depth log of a hole in a drillhole group is called, it is either refused with nothing
    changed or it reads back -- in the session and for a later reader -- with the hole's other logs
    and its survey untouched (data are filed under their names next to the group's own arrays)."""
    target = "geoh5py/shared/concatenation/concatenator.py::Concatenator.update_array_attribute"
    variant = "log-names"
    symbolic = False
    has_native = True
    props = ("C04",)
    NAMES = ("values", "surveys", "Surveys", "trace", "Trace", "property_groups", "Property Group IDs", "index", "data", "Data", "cells", "name", "depths", "collar", "Type ID",
             "Au ppm", "Cu/Zn", "été", "a" * 120, "Index", "Attributes", "metadata", "uid", "parent")
    bounded_scope = f"one hole with a 3-station survey and a log 'Au'; a second log named one of {len(NAMES)} names (attribute names of the library, labels of the group's own arrays, Unicode, a slash, 120 characters); both format versions; read back in the session and after a re-open (exhaustive)"

    def native_cases(self, tier, rng):
        for name in self.NAMES:
            for version in (2.0, 2.1):
                yield {"name": name, "version": version}

    def native_check(self, case):
        from geoh5py.groups import DrillholeGroup
        from geoh5py.objects import Drillhole
        from geoh5py.workspace import Workspace

        d = tempfile.mkdtemp()
        name = case["name"]
        try:
            path = os.path.join(d, "n.geoh5")
            sv = np.c_[np.r_[0.0, 50.0, 100.0], np.r_[0.0, 10.0, 20.0], -80.0 * np.ones(3)]
            refused = False
            try:
                with Workspace.create(path, version=case["version"]) as ws:
                    dg = DrillholeGroup.create(ws, name="dg")
                    h = Drillhole.create(ws, parent=dg, name="h", collar=[0.0, 0.0, 0.0], surveys=sv)
                    h.add_data({"Au": {"depth": np.arange(3.0), "values": np.arange(3.0)}})
                    try:
                        h.add_data({name: {"depth": np.arange(3.0), "values": np.arange(3.0) + 7.0}})
                    except (ValueError, TypeError, KeyError, UserWarning) as exc:
                        refused = True
                        if name in h.get_data_list():
                            return f"log name {name!r}: refused ({type(exc).__name__}) but the hole now lists it ({case})"
                    if not refused:
                        got = h.get_data(name)[0].values
                        if got is None or not np.allclose(np.asarray(got, dtype=float), np.arange(3.0) + 7.0):
                            return f"log name {name!r}: reads {got} in the session that added it ({case})"
            except Exception as exc:
                return f"log name {name!r}: the session that added it fails with {type(exc).__name__}: {str(exc)[:120]} ({case})"
            try:
                with Workspace(path, mode="r") as ws:
                    h = ws.get_entity("h")[0]
                    if h is None:
                        return f"log name {name!r}: after it was {'refused' if refused else 'added'} the hole is gone ({case})"
                    au = h.get_data("Au")[0].values
                    s2 = np.asarray(h.surveys.tolist() if hasattr(h.surveys, "tolist") else h.surveys, dtype=float)
                    if au is None or not np.allclose(np.asarray(au, dtype=float), np.arange(3.0)) or s2.shape != sv.shape or not np.allclose(s2, sv, atol=1e-4):
                        return f"log name {name!r}: after it was {'refused' if refused else 'added'} the hole's other log reads {au} and its survey has shape {s2.shape} ({case})"
                    if not refused:
                        got = h.get_data(name)
                        v = got[0].values if got and got[0] is not None else None
                        if v is None or not np.allclose(np.asarray(v, dtype=float), np.arange(3.0) + 7.0):
                            return f"log name {name!r}: is read as {v} by a later session ({case})"
            except Exception as exc:
                return f"log name {name!r}: after it was {'refused' if refused else 'added'} the file no longer opens / reads: {type(exc).__name__}: {str(exc)[:120]} ({case})"
            return None
        finally:
            shutil.rmtree(d, ignore_errors=True)


CONTRACTS = CONTRACTS + [LogNamesNative]
